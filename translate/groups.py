"""Translation groups: each returns (coq_text, {source_path: sha256})."""
import os
import re

from rx import REPO, ExprTr, Src, TranslateError, find_registry, rust_int

PRELUDE = "From Coq Require Import NArith Bool List.\nImport ListNotations.\nOpen Scope N_scope.\n\n"


def cc_const(src, name):
    """Value of `ref NAME: ty = [release_fixed(]expr[)];` inside configurable_constants!."""
    m = src.one(r"\bref %s\s*:\s*\w+\s*=\s*(release_fixed\()?([^;]+?)\)?\s*;" % re.escape(name), "constant " + name)
    expr = m.group(2)
    if m.group(1) is None and expr.count("(") != expr.count(")"):
        expr = expr + ")"
    return rust_int(expr)


def plain_const(src, name):
    m = src.one(r"\bconst %s\s*:\s*[\w:<>\[\]; ]+?\s*=\s*([^;]+);" % re.escape(name), "const " + name)
    return m.group(1).strip()


# ---------------------------------------------------------------------------
def gen_GearTable():
    d = find_registry("gearhash-0.1.3")
    t = Src(os.path.join(d, "src", "table.rs"))
    sc = Src(os.path.join(d, "src", "scalar.rs"))
    lib = Src(os.path.join(d, "src", "lib.rs"))
    m = t.one(r"pub static DEFAULT_TABLE\s*:\s*Table\s*=\s*\[([^\]]*)\]", "DEFAULT_TABLE")
    vals = [v.strip() for v in m.group(1).split(",") if v.strip()]
    if len(vals) != 256:
        raise TranslateError("gear table has %d entries" % len(vals))
    ints = [rust_int(v) for v in vals]
    # the update rule's shape is pinned (its behaviour, incl. the SIMD paths, is tied by the correspondence)
    sc.pin("*hash = (*hash << 1).wrapping_add(table[*b as usize]);", "gear scalar update rule")
    sc.pin("if *hash & mask == 0 { return Some(i + 1); }", "gear scalar match rule")
    lib.pin("Self { table, hash: 0 }", "gear initial hash")
    out = [PRELUDE, "Definition gear (b : N) : N :=\n  match b with\n"]
    for i, v in enumerate(ints):
        out.append("  | %d => 0x%016x\n" % (i, v))
    out.append("  | _ => 0\n  end.\n")
    return "".join(out), {t.path: t.digest, sc.path: sc.digest, lib.path: lib.digest}


def gen_ChunkConsts():
    c = Src(os.path.join(REPO, "deduplication/src/constants.rs"))
    k = Src(os.path.join(REPO, "deduplication/src/chunking.rs"))
    out = [PRELUDE]
    for name in ["TARGET_CHUNK_SIZE", "MINIMUM_CHUNK_DIVISOR", "MAXIMUM_CHUNK_MULTIPLIER", "MAX_XORB_BYTES", "MAX_XORB_CHUNKS"]:
        out.append("Definition %s : N := %d.\n" % (name, cc_const(c, name)))
    # which of these the environment may override in every build: the xorb limits are (HF_XET_MAX_XORB_BYTES / _CHUNKS are the
    # "configured limits" of C15 in release builds too); the chunk-size constants are fixed in release builds (seed C15-r4m1)
    for name, fixed in [("TARGET_CHUNK_SIZE", True), ("MINIMUM_CHUNK_DIVISOR", True), ("MAXIMUM_CHUNK_MULTIPLIER", True), ("MAX_XORB_BYTES", False), ("MAX_XORB_CHUNKS", False)]:
        m = c.one(r"\bref %s\s*:\s*\w+\s*=\s*(release_fixed\()?" % re.escape(name), "constant " + name)
        if (m.group(1) is not None) != fixed:
            raise TranslateError("constant %s is %s fixed in release builds (the configured xorb limits must be honoured in every build; the chunk-size constants are fixed there)" % (name, "now" if not fixed else "no longer"))
    body_new = k.fn_body("new")
    body_next = k.fn_body("next")
    hw = re.search(r"const HASH_WINDOW_SIZE\s*:\s*usize\s*=\s*(\d+)\s*;", body_next)
    if not hw:
        raise TranslateError("HASH_WINDOW_SIZE not found in Chunker::next")
    out.append("Definition HASH_WINDOW_SIZE : N := %s.\n\n" % hw.group(1))

    # --- Chunker::new: derived parameters and the assertions, translated
    env = {"target_chunk_size": "target", "*MINIMUM_CHUNK_DIVISOR": "MINIMUM_CHUNK_DIVISOR", "MINIMUM_CHUNK_DIVISOR": "MINIMUM_CHUNK_DIVISOR",
           "*MAXIMUM_CHUNK_MULTIPLIER": "MAXIMUM_CHUNK_MULTIPLIER", "MAXIMUM_CHUNK_MULTIPLIER": "MAXIMUM_CHUNK_MULTIPLIER",
           "maximum_chunk": "maximum_chunk", "minimum_chunk": "minimum_chunk", "u32::MAX": "4294967295"}
    tr = ExprTr(env)
    m = re.search(r"let minimum_chunk = ([^;]+);", body_new)
    if not m:
        raise TranslateError("minimum_chunk definition not found")
    out.append("Definition chunker_minimum (target : N) : N := %s.\n" % tr.tr(m.group(1)))
    m = re.search(r"let maximum_chunk = ([^;]+);", body_new)
    if not m:
        raise TranslateError("maximum_chunk definition not found")
    out.append("Definition chunker_maximum (target : N) : N := %s.\n" % tr.tr(m.group(1)))
    # mask: pinned shape  (target-1) as u64  <<  leading_zeros
    for lit in ["let mask = (target_chunk_size - 1) as u64;", "let mask = mask << mask.leading_zeros();"]:
        if re.sub(r"\s+", " ", lit) not in body_new:
            raise TranslateError("mask construction changed: %r not found" % lit)
    out.append("Definition chunker_mask (target : N) : N := N.shiftl (target - 1) (64 - N.size (target - 1)).\n")
    # assertions
    asserts = re.findall(r"assert!\(([^;]+)\);", body_new)
    aeq = re.findall(r"assert_eq!\(([^;]+)\);", body_new)
    if aeq != ["target_chunk_size.count_ones(), 1"]:
        raise TranslateError("Chunker::new assert_eq! set changed: %r" % aeq)
    if len(asserts) != 3:
        raise TranslateError("Chunker::new assert! set changed: %r" % asserts)
    conds = []
    for a in asserts:
        a = a.replace("u32::MAX as usize", "u32::MAX")
        conds.append(tr.tr(a))
    out.append("Definition chunker_new_asserts (target minimum_chunk maximum_chunk : N) : bool :=\n  %s.\n\n" % " && ".join(conds))

    # --- Chunker::next: the four guard expressions
    env2 = {"self.cur_chunk_len": "cur_chunk_len", "HASH_WINDOW_SIZE": "HASH_WINDOW_SIZE", "self.minimum_chunk": "minimum_chunk",
            "self.maximum_chunk": "maximum_chunk", "n_bytes": "n_bytes", "consume_len": "consume_len",
            "bytes_to_next_boundary": "bytes_to_next_boundary"}
    tr2 = ExprTr(env2)
    m = re.search(r"if n_bytes != 0 \{ if ([^{]+) \{ let max_advance = min\(([^,]+), ([^)]+)\);", body_next)
    if not m:
        raise TranslateError("skip-ahead branch of Chunker::next not found")
    out.append("Definition next_skip_cond (cur_chunk_len minimum_chunk : N) : bool := %s.\n" % tr2.tr(m.group(1)))
    out.append("Definition next_skip_amount (cur_chunk_len minimum_chunk : N) : N := %s.\n" % tr2.tr(m.group(2)))
    out.append("Definition next_skip_avail (n_bytes consume_len : N) : N := %s.\n" % tr2.tr(m.group(3)))
    if "consume_len += max_advance; self.cur_chunk_len += max_advance;" not in body_next:
        raise TranslateError("skip-ahead bookkeeping changed")
    m = re.search(r"let read_end = n_bytes\.min\(([^;]+)\);", body_next)
    if not m:
        raise TranslateError("read_end clamp not found")
    out.append("Definition next_read_end (n_bytes consume_len maximum_chunk cur_chunk_len : N) : N := N.min n_bytes %s.\n" % tr2.tr(m.group(1)))
    m = re.search(r"\} if ([^{}]+) \{ bytes_to_next_boundary = ([^;]+); create_chunk = true; \} self\.cur_chunk_len \+=", body_next)
    if not m:
        raise TranslateError("forced-cut branch not found")
    out.append("Definition next_force_cond (bytes_to_next_boundary cur_chunk_len maximum_chunk : N) : bool := %s.\n" % tr2.tr(m.group(1)))
    out.append("Definition next_force_amount (maximum_chunk cur_chunk_len : N) : N := %s.\n" % tr2.tr(m.group(2)))
    # pinned statements whose order/shape the hand model transcribes
    pins = [
        "if let Some(boundary) = self.hash.next_match(&data[consume_len..read_end], self.mask) { bytes_to_next_boundary = boundary; create_chunk = true; } else { bytes_to_next_boundary = read_end - consume_len; }",
        "self.cur_chunk_len += bytes_to_next_boundary; consume_len += bytes_to_next_boundary; self.chunkbuf.extend_from_slice(&data[0..consume_len]);",
        "if create_chunk || (is_final && !self.chunkbuf.is_empty()) {",
        "hash: compute_data_hash(&self.chunkbuf[..]), data: std::mem::take(&mut self.chunkbuf).into(),",
        "self.cur_chunk_len = 0; self.hash.set_hash(0); (Some(chunk), consume_len) } else { (None, consume_len) }",
    ]
    for p in pins:
        if p not in body_next:
            raise TranslateError("Chunker::next statement changed: %r" % p)
    nb = k.fn_body("next_block")
    for p in ["if pos == data.len() { return ret; }", "let (maybe_chunk, bytes_consumed) = self.next(&data[pos..], is_final);",
              "if let Some(chunk) = maybe_chunk { ret.push(chunk); } pos += bytes_consumed;"]:
        if p not in nb:
            raise TranslateError("Chunker::next_block statement changed: %r" % p)
    if "self.next(&[], true).0" not in k.fn_body("finish"):
        raise TranslateError("Chunker::finish changed")
    return "".join(out), {c.path: c.digest, k.path: k.digest}


def byte_array_const(src, name):
    m = src.one(r"\bconst %s\s*:\s*\[u8;\s*32\]\s*=\s*\[([^\]]*)\]" % re.escape(name), "key " + name)
    vals = [int(v) for v in m.group(1).replace(" ", "").split(",") if v]
    if len(vals) != 32 or any(v < 0 or v > 255 for v in vals):
        raise TranslateError("%s is not 32 bytes" % name)
    return vals


def gen_HashConsts():
    dh = Src(os.path.join(REPO, "merklehash/src/data_hash.rs"))
    cv = Src(os.path.join(REPO, "mdb_shard/src/chunk_verification.rs"))
    mc = Src(os.path.join(REPO, "merkledb/src/constants.rs"))
    im = Src(os.path.join(REPO, "merkledb/src/internal_methods.rs"))
    mn = Src(os.path.join(REPO, "merkledb/src/merklenode.rs"))
    ag = Src(os.path.join(REPO, "merkledb/src/aggregate_hashes.rs"))
    mm = Src(os.path.join(REPO, "merkledb/src/merklememdb.rs"))
    out = [PRELUDE]
    for name, src in [("DATA_KEY", dh), ("INTERNAL_NODE_HASH", dh), ("VERIFICATION_KEY", cv)]:
        out.append("Definition %s : list N := [%s].\n" % (name, "; ".join(str(v) for v in byte_array_const(src, name))))
    bf = rust_int(plain_const(mc, "MEAN_TREE_BRANCHING_FACTOR"))
    out.append("Definition MEAN_TREE_BRANCHING_FACTOR : N := %d.\n" % bf)
    for nm in ["TARGET_CDC_CHUNK_SIZE", "MAXIMUM_CHUNK_MULTIPLIER"]:
        out.append("Definition MERKLEDB_%s : N := %d.\n" % (nm, rust_int(plain_const(mc, nm))))
    # cut rule of merge_one_level
    body = im.fn_body("merge_one_level")
    m = re.search(r"let num_children_so_far = idx - cur_children_start_idx; (?:#\[[^\]]*\] )?if (.+?) \{ let parent_node = node_from_children\(db, &nodes\[cur_children_start_idx\.\.=idx\], cur_children_total_len\);", body)
    if not m:
        raise TranslateError("cut rule of merge_one_level not found")
    cond = m.group(1).replace("test_hash[3]", "test_hash_3").replace("(MEAN_TREE_BRANCHING_FACTOR as usize)", "MEAN_TREE_BRANCHING_FACTOR")
    tr = ExprTr({"num_children_so_far": "num_children_so_far", "test_hash_3": "test_hash_3", "MEAN_TREE_BRANCHING_FACTOR": "MEAN_TREE_BRANCHING_FACTOR",
                 "idx": "idx", "total_children": "total_children"})
    out.append("Definition merkle_cut (num_children_so_far test_hash_3 idx total_children : N) : bool :=\n  %s.\n" % tr.tr(cond))
    for p in ["cur_children_total_len += node.len(); let test_hash = node.hash();", "cur_children_total_len = 0; cur_children_start_idx = idx + 1;"]:
        if p not in body:
            raise TranslateError("merge_one_level bookkeeping changed: %r" % p)
    mb = im.fn_body("merge")
    for p in ["while nodes.len() > 1 {", "let (parent_of_node, mut parents) = merge_one_level(db, &nodes);", "nodes = std::mem::take(&mut parents);", "nodes[0].clone()"]:
        if p not in mb:
            raise TranslateError("merge changed: %r" % p)
    # child text format and key use
    mn.pin('writeln!(buf, "{:x} : {}", node.hash(), node.len()).unwrap();', "child text format")
    mn.pin("compute_internal_node_hash(buf.as_bytes())", "interior hash")
    dh.pin('format!("{:016x}{:016x}{:016x}{:016x}", self.0[0], self.0[1], self.0[2], self.0[3])', "hex format")
    dh.pin("let digest = blake3::keyed_hash(&DATA_KEY, slice);", "data hash key")
    dh.pin("let digest = blake3::keyed_hash(&INTERNAL_NODE_HASH, slice);", "internal hash key")
    dh.pin("Self::from(*blake3::keyed_hash(&key.into(), self.as_bytes()).as_bytes())", "hmac")
    dh.pin("self[3] % rhs", "Rem uses word 3")
    cv.pin("let range_hash = blake3::keyed_hash(&VERIFICATION_KEY, combined.as_slice());", "range hash")
    ag.pin("let salted_hash = blake3::keyed_hash(salt, hash.as_bytes());", "salt")
    ag.pin("if chunks.is_empty() { return MerkleHash::default(); }", "empty cas list", count=1)
    ag.pin("if chunks.is_empty() { return Ok(MerkleHash::default()); }", "empty file list", count=1)
    mm.pin("ret.hashdb.insert(MerkleHash::default(), 0);", "node 0 is the zero hash")
    # HashedWrite::write: does it hash the whole buffer before the (possibly short) inner write?
    wb = dh.fn_body("write")
    if wb.strip() == "self.hasher.update(buf); self.writer.write(buf)":
        fact = "true"
    elif re.fullmatch(r"let (\w+) = self\.writer\.write\(buf\)\?; self\.hasher\.update\(&buf\[\.\.\1\]\); Ok\(\1\)", wb.strip()):
        fact = "false"
    else:
        raise TranslateError("HashedWrite::write has an unrecognised shape: %r" % wb.strip())
    out.append("Definition hashed_write_hashes_whole_buffer : bool := %s.\n" % fact)
    return "".join(out), {x.path: x.digest for x in (dh, cv, mc, im, mn, ag, mm)}


# ---------------------------------------------------------------------------
TYPE_W = {"MerkleHash": 32, "HMACKey": 32, "u32": 4, "u64": 8, "u8": 1}


def struct_fields(src, name):
    m = src.one(r"pub struct %s \{([^}]*)\}" % re.escape(name), "struct " + name)
    fields = []
    for f in m.group(1).split(","):
        f = re.sub(r"#\[[^\]]*\]", "", f).strip()
        if not f:
            continue
        fm = re.fullmatch(r"(?:pub )?(\w+)\s*:\s*(.+)", f)
        if not fm:
            raise TranslateError("struct %s: cannot parse field %r" % (name, f))
        ty = fm.group(2).strip()
        am = re.fullmatch(r"\[u64; (\d+)\]", ty)
        if am:
            fields.append((fm.group(1), "u64s", 8 * int(am.group(1))))
        elif ty == "[u8; 32]":
            fields.append((fm.group(1), "hash", 32))
        elif ty in TYPE_W:
            fields.append((fm.group(1), "hash" if TYPE_W[ty] == 32 else ty, TYPE_W[ty]))
        else:
            raise TranslateError("struct %s: unsupported field type %r" % (name, ty))
    return fields


def impl_fn_body(src, struct, fn):
    """Body of fn inside the (first) `impl <struct> {` block."""
    m = re.search(r"\bimpl %s \{" % re.escape(struct), src.flat)
    if not m:
        raise TranslateError("impl %s not found" % struct)
    sub = src.flat[m.end():]
    fm = re.search(r"\bfn %s\b" % re.escape(fn), sub)
    if not fm:
        raise TranslateError("fn %s::%s not found" % (struct, fn))
    i = sub.find("{", fm.end())
    # skip the signature: find '{' after the return type (first '{' following ')' ... '->' ... )
    depth = 0
    k = i
    while k < len(sub):
        if sub[k] == "{":
            depth += 1
        elif sub[k] == "}":
            depth -= 1
            if depth == 0:
                return sub[i + 1:k]
        k += 1
    raise TranslateError("unbalanced braces in %s::%s" % (struct, fn))


def codec_defs(src, name, out, tag_field=None):
    """Generate ser_<name>/de_<name> from the write_*/read_* call sequences of serialize/deserialize."""
    fields = struct_fields(src, name)
    fnames = [f[0] for f in fields]
    ftype = {f[0]: f[1] for f in fields}
    fw = {f[0]: f[2] for f in fields}
    size = sum(f[2] for f in fields)
    ser = impl_fn_body(src, name, "serialize")
    des = impl_fn_body(src, name, "deserialize")
    writes = re.findall(r"(?:write_(hash|u32|u64|u64s)\((?:&mut )?writer, &?self\.(\w+)\)\?|writer\.write_all\(&(MDB_SHARD_HEADER_TAG)\)\?)", ser)
    wseq = []
    for kind, f, tag in writes:
        if tag:
            wseq.append((tag_field, "tag"))
        else:
            if f not in ftype or ftype[f] != kind:
                raise TranslateError("%s::serialize writes %s as %s" % (name, f, kind))

            wseq.append((f, kind))
    if sorted(x[0] for x in wseq) != sorted(fnames):
        raise TranslateError("%s::serialize does not write every field exactly once: %r" % (name, wseq))
    # reads, in order of appearance
    rseq = []
    for m in re.finditer(r"(?:(\w+): read_(hash|u32|u64)\(reader\)\?|obj\.(\w+) = read_(u64)\(reader\)\?|let (\w+) = read_(u64)\(reader\)\?|read_(u64s)\(reader, &mut obj\.(\w+)\)\?|reader\.read_exact\(&mut (tag)\)\?)", des):
        g = m.groups()
        if g[0]:
            rseq.append((g[0], g[1]))
        elif g[2]:
            rseq.append((g[2], g[3]))
        elif g[4]:
            rseq.append((g[4], g[5]))
        elif g[6]:
            rseq.append((g[7], g[6]))
        elif g[8]:
            rseq.append((tag_field, "tag"))
    defaults = re.findall(r"(\w+): Default::default\(\)", des)
    for f, k in rseq:
        if f not in ftype:
            raise TranslateError("%s::deserialize reads unknown field %s" % (name, f))
    if sorted([x[0] for x in rseq] + defaults) != sorted(fnames):
        raise TranslateError("%s::deserialize does not produce every field exactly once: reads=%r defaults=%r" % (name, rseq, defaults))
    whole = "read_exact(&mut v[..])" in des   # the whole struct is read first, then parsed from the buffer
    def enc(f, kind):
        return {"hash": f, "tag": f, "u32": "u32 %s" % f, "u64": "u64 %s" % f, "u64s": "u64s %s" % f}[kind]
    args = " ".join("(%s : %s)" % (f, "list N" if ftype[f] in ("hash", "u64s") else "N") for f in fnames)
    out.append("Definition %s_SIZE : nat := %d.\n" % (name, size))
    out.append("Definition ser_%s %s : list N :=\n  %s.\n" % (name, args, " ++ ".join(enc(f, k) for f, k in wseq)))
    # parser: consume in read order; unread (defaulted) fields are 0 / zeros
    lines = []
    off = 0
    vals = {}
    for f, k in rseq:
        w = fw[f]
        sl = "firstn %d (skipn %d bs)" % (w, off)
        vals[f] = sl if k in ("hash", "tag") else ("de_u64s %d (%s)" % (w // 8, sl) if k == "u64s" else "le_val (%s)" % sl)
        off += w
    for f in defaults:
        vals[f] = "repeat 0 %d%%nat" % (fw[f] // 8) if ftype[f] == "u64s" else ("repeat 0 32%nat" if ftype[f] == "hash" else "0")
    consumed = size if whole else off
    tup = ", ".join(vals[f] for f in fnames)
    out.append("Definition de_%s (bs : list N) : option ((%s) * list N) :=\n  if has %d bs then Some ((%s), skipn %d bs) else None.\n\n"
               % (name, " * ".join("list N" if ftype[f] in ("hash", "u64s") else "N" for f in fnames), consumed, tup, consumed))
    return fields


def gen_ShardLayout():
    sf = Src(os.path.join(REPO, "mdb_shard/src/shard_format.rs"))
    fs = Src(os.path.join(REPO, "mdb_shard/src/file_structs.rs"))
    cs = Src(os.path.join(REPO, "mdb_shard/src/cas_structs.rs"))
    isrc = Src(os.path.join(REPO, "mdb_shard/src/interpolation_search.rs"))
    ut = Src(os.path.join(REPO, "mdb_shard/src/utils.rs"))
    out = ["From Coq Require Import NArith Bool List.\nImport ListNotations.\nFrom XetModel Require Import Base.Codec.\nOpen Scope N_scope.\n\n"]
    m = sf.one(r"const MDB_SHARD_HEADER_TAG: \[u8; 32\] = \[([^\]]*)\];", "header tag")
    tag = []
    for v in m.group(1).split(","):
        v = v.strip()
        if not v:
            continue
        bm = re.fullmatch(r"b'(.)'", v)
        tag.append(ord(bm.group(1)) if bm else int(v))
    if len(tag) != 32:
        raise TranslateError("header tag has %d bytes" % len(tag))
    out.append("Definition MDB_SHARD_HEADER_TAG : list N := [%s].\n" % "; ".join(map(str, tag)))
    for nm in ["MDB_SHARD_HEADER_VERSION", "MDB_SHARD_FOOTER_VERSION"]:
        out.append("Definition %s : N := %d.\n" % (nm, rust_int(plain_const(sf, nm))))
    for nm, src in [("MDB_DEFAULT_FILE_FLAG", fs), ("MDB_FILE_FLAG_WITH_VERIFICATION", fs), ("MDB_FILE_FLAG_WITH_METADATA_EXT", fs),
                    ("MDB_FILE_FLAG_VERIFICATION_MASK", fs), ("MDB_FILE_FLAG_METADATA_EXT_MASK", fs), ("MDB_DEFAULT_CAS_FLAG", cs)]:
        out.append("Definition %s : N := %d.\n" % (nm, rust_int(plain_const(src, nm))))
    for nm in ["READ_WINDOW_SIZE", "EXPECTED_MAX_NUM_DUPLICATES"]:
        out.append("Definition %s : N := %d.\n" % (nm, rust_int(plain_const(isrc, nm))))
    out.append("\n")
    codec_defs(sf, "MDBShardFileHeader", out, tag_field="tag")
    codec_defs(sf, "MDBShardFileFooter", out)
    codec_defs(fs, "FileDataSequenceHeader", out)
    codec_defs(fs, "FileDataSequenceEntry", out)
    codec_defs(fs, "FileVerificationEntry", out)
    codec_defs(fs, "FileMetadataExt", out)
    codec_defs(cs, "CASChunkSequenceHeader", out)
    codec_defs(cs, "CASChunkSequenceEntry", out)
    # search_on_sorted_u64s: the statements the hand model (Model/Shard.v, Section Search) transcribes
    sb = isrc.fn_body("search_on_sorted_u64s")
    for p in [
        "let mut lo = 0; let mut lo_key = 0; let mut hi = num_entries + 1; let mut hi_key = u64::MAX;",
        "(lo + ((key - lo_key) as f64 / (hi_key - lo_key) as f64 * (hi - lo) as f64).floor() as u64) .max(lo + 1) .min(hi - 1)",
        "while lo + READ_WINDOW_SIZE < hi {",
        "reader.seek(SeekFrom::Start(read_start + (probe_index - 1) * pair_size))?;",
        "Ordering::Less => { hi = probe_index; hi_key = probe_key;",
        "if candidate_probe_index + READ_WINDOW_SIZE > probe_index { let jump_amount = (READ_WINDOW_SIZE).min(probe_index - (lo + 1)); probe_index -= jump_amount; } else { probe_index = candidate_probe_index; }",
        "for _ in (probe_index + 1)..hi { if read_u64(reader)? != key { break; } write_result(read_value_function(reader)?); }",
        "let jump_amount = (EXPECTED_MAX_NUM_DUPLICATES).min(probe_index - (lo + 1)); probe_index -= jump_amount;",
        "Ordering::Greater => { lo = probe_index; lo_key = probe_key;",
        "if candidate_probe_index - probe_index <= READ_WINDOW_SIZE { probe_index = (lo + READ_WINDOW_SIZE).min(hi - 1); } else { probe_index = candidate_probe_index; }",
        "reader.seek(SeekFrom::Start(read_start + lo * pair_size))?; while lo + 1 < hi {",
        "if result_write_idx < result.len() { result[result_write_idx] = value; result_write_idx += 1; }",
    ]:
        if p not in sb:
            raise TranslateError("search_on_sorted_u64s statement changed: %r" % p)
    # chunk_hash_dedup_query_direct / chunk_hash_dedup_query: the statements Model/Shard.v (dedup_direct, direct_loop) transcribes
    dq = sf.fn_body("chunk_hash_dedup_query_direct")
    for p in [
        "if unkeyed_query_hashes.is_empty() { return Ok(None); }",
        "self.metadata.cas_info_offset + (MDB_CAS_INFO_ENTRY_SIZE as u64) * (cas_entry_index as u64),",
        "if cas_chunk_offset != 0 { reader.seek(SeekFrom::Current(MDB_CAS_INFO_ENTRY_SIZE as i64 * cas_chunk_offset as i64))?; }",
        "if first_chunk.chunk_hash != self.keyed_chunk_hash(unkeyed_query_hashes[0]) { return Ok(None); }",
        "let mut n_bytes = first_chunk.unpacked_segment_bytes;",
        "for i in 1.. { if cas_chunk_offset as usize + i == cas_header.num_entries as usize { end_idx = i; break; }",
        "if i == unkeyed_query_hashes.len() || chunk.chunk_hash != self.keyed_chunk_hash(unkeyed_query_hashes[i]) { end_idx = i; break; }",
        "n_bytes += chunk.unpacked_segment_bytes;",
        "cas_hash: cas_header.cas_hash, cas_flags: cas_header.cas_flags, unpacked_segment_bytes: n_bytes, chunk_index_start: cas_chunk_offset, chunk_index_end: cas_chunk_offset + end_idx as u32,",
    ]:
        if p not in dq:
            raise TranslateError("chunk_hash_dedup_query_direct statement changed: %r" % p)
    dq2 = sf.fn_body("chunk_hash_dedup_query")
    for p in ["if query_hashes.is_empty() || self.metadata.chunk_lookup_num_entry == 0 { return Ok(None); }",
              "for &(cas_index, chunk_offset) in dest_indices.iter().take(num_indices) { if let Some(cas) = self.chunk_hash_dedup_query_direct(reader, query_hashes, cas_index, chunk_offset)? { return Ok(Some(cas)); } }"]:
        if p not in dq2:
            raise TranslateError("chunk_hash_dedup_query statement changed: %r" % p)
    kh = sf.fn_body("keyed_chunk_hash")
    if "if self.metadata.chunk_hash_hmac_key != HMACKey::default() { chunk_hash.hmac(self.metadata.chunk_hash_hmac_key) } else { chunk_hash }" not in kh:
        raise TranslateError("keyed_chunk_hash changed")
    gf = sf.fn_body("get_file_reconstruction_info")
    for p in ["for &file_entry_index in dest_indices.iter().take(num_indices) {", "if mdb_file_info.metadata.file_hash == *file_hash { return Ok(Some(mdb_file_info)); }"]:
        if p not in gf:
            raise TranslateError("get_file_reconstruction_info statement changed: %r" % p)
    im2 = Src(os.path.join(REPO, "mdb_shard/src/shard_in_memory.rs"))
    mq = im2.fn_body("chunk_hash_dedup_query")
    for p in ["let (chunk_ref, chunk_index_start) = self.chunk_hash_lookup.get(&query_hashes[0])?;",
              "if chunk_index_start + query_idx >= chunk_ref.chunks.len() { break; }",
              "if query_idx >= query_hashes.len() || chunk_ref.chunks[chunk_index_start + query_idx].chunk_hash != query_hashes[query_idx] { break; }"]:
        if p not in mq:
            raise TranslateError("in-memory chunk_hash_dedup_query statement changed: %r" % p)
    # pinned shapes the hand model transcribes
    fs.pin("file_hash: [!0u64; 4].into(),", "file bookend")
    cs.pin("cas_hash: [!0u64; 4].into(),", "cas bookend")
    ut.pin("hash.deref()[0]", "truncate_hash = word 0")
    sf.pin("if num_indices < dest_indices.len() { Ok(num_indices) } else {", "collision guard", count=2)
    sf.pin("let mut dest_indices = [0u32; 8];", "result buffer of 8", count=1)
    sf.pin("let mut dest_indices = [(0u32, 0u32); 8];", "chunk result buffer of 8", count=1)
    sf.pin("chunk_lookup_combined.sort_unstable_by_key(|&(k, _)| k);", "chunk table sorted by key")
    return "".join(out), {x.path: x.digest for x in (sf, fs, cs, isrc, ut)}


def gen_ShardFacts():
    im = Src(os.path.join(REPO, "mdb_shard/src/shard_in_memory.rs"))
    out = [PRELUDE]
    a = im.fn_body("add_cas_block")
    b = im.fn_body("add_file_reconstruction_info")
    ra = "self.current_shard_file_size -=" in a
    rb = "self.current_shard_file_size -=" in b
    if ra != rb:
        raise TranslateError("add_cas_block and add_file_reconstruction_info disagree on subtracting a replaced record's size")
    for body, nm in [(a, "add_cas_block"), (b, "add_file_reconstruction_info")]:
        if ".insert(" not in body or "self.current_shard_file_size +=" not in body:
            raise TranslateError("%s: unrecognised bookkeeping" % nm)
    out.append("Definition size_replace_aware : bool := %s.\n" % ("true" if ra else "false"))
    r = im.fn_body("recalculate_shard_size")
    uses_unique = "self.chunk_hash_lookup.len()" in r
    uses_occ = "chunks.len()" in r
    if uses_unique == uses_occ:
        raise TranslateError("recalculate_shard_size: cannot tell how chunk table entries are counted")
    out.append("Definition size_per_occurrence : bool := %s.\n" % ("true" if uses_occ else "false"))
    # expiry rules of MDBShardFile::load_all / clean_expired_shards, translated
    fh = Src(os.path.join(REPO, "mdb_shard/src/shard_file_handle.rs"))
    la = fh.fn_body("load_all")
    m = re.search(r"if load_expired \|\| ([^{]+) \{ ret\.push\(s\); \}", la)
    if not m:
        raise TranslateError("load_all: expiry filter not found")
    tr = ExprTr({"current_time": "now", "s.shard.metadata.shard_key_expiry": "expiry", "expiration_buffer_secs": "grace"})
    out.append("Definition shard_loaded (now expiry : N) : bool := %s.\n" % tr.tr(m.group(1)))
    ew = fh.fn_body("export_with_expiration")
    for p_ in ["let mut out_footer = self.shard.metadata.clone();",
               "out_footer.shard_key_expiry = SystemTime::now() .add(shard_valid_for) .duration_since(std::time::UNIX_EPOCH) .unwrap_or_default() .as_secs();",
               "out_footer.serialize(&mut out_footer_bytes)?;", "let reader = File::open(&self.path)?;",
               "Self::write_out_from_reader( target_directory, &mut reader.take(out_footer.footer_offset).chain(Cursor::new(out_footer_bytes)), )"]:
        if p_ not in ew:
            raise TranslateError("export_with_expiration changed: %r" % p_)
    ce = fh.fn_body("clean_expired_shards")
    m = re.search(r"if s\.shard\.metadata\.shard_key_expiry\.saturating_add\(expiration_buffer_secs\) (<=|<|>=|>) current_time \{ .*?std::fs::remove_file\(&s\.path\);", ce)
    if not m:
        raise TranslateError("clean_expired_shards: deletion rule not found")
    out.append("Definition sat_add64 (a b : N) : N := N.min (a + b) 18446744073709551615.\n")
    out.append("Definition shard_deleted (now expiry grace : N) : bool := %s.\n" % ExprTr.binop(m.group(1), "(sat_add64 expiry grace)", "now"))
    # keyed export: which bytes of a dropped file are skipped (fact), timestamps
    ex = Src(os.path.join(REPO, "mdb_shard/src/shard_format.rs"))
    eb = ex.fn_body("export_as_keyed_shard_impl")
    if "let n_skip_bytes = num_entries * size_of::<FileDataSequenceEntry>() + n_extended_bytes; copy(&mut reader.take(n_skip_bytes as u64), &mut std::io::sink())?;" in eb:
        skips = "true"
    elif "copy(&mut reader.take(n_extended_bytes as u64), &mut std::io::sink())?;" in eb:
        skips = "false"
    else:
        raise TranslateError("export_as_keyed_shard_impl: unrecognised skip of dropped file info")
    out.append("Definition export_skips_dropped_entries : bool := %s.\n" % skips)
    for p in ["if hmac_key != HMACKey::default() { chunk.chunk_hash = chunk.chunk_hash.hmac(hmac_key); }",
              "chunk_lookup.sort_by_key(|s| s.0);", "out_footer.chunk_hash_hmac_key = hmac_key;",
              "out_footer.shard_key_expiry = creation_time .add(key_valid_for) .duration_since(UNIX_EPOCH) .unwrap_or_default() .as_secs();"]:
        if p not in eb:
            raise TranslateError("export_as_keyed_shard_impl statement changed: %r" % p)
    return "".join(out), {im.path: im.digest, fh.path: fh.digest, ex.path: ex.digest}


def ident_const(src, name):
    m = src.one(r"const %s\s*:\s*CasObjectIdent\s*=\s*\[([^\]]*)\];" % re.escape(name), "ident " + name)
    vals = []
    for v in m.group(1).split(","):
        v = v.strip()
        if not v:
            continue
        bm = re.fullmatch(r"b'(.)'", v)
        vals.append(ord(bm.group(1)) if bm else int(v))
    if len(vals) != 7:
        raise TranslateError("%s is not 7 bytes" % name)
    return vals


def call_seq(body, pat):
    return [m.group(0) for m in re.finditer(pat, body)]


def gen_XorbLayout():
    of = Src(os.path.join(REPO, "cas_object/src/cas_object_format.rs"))
    cf = Src(os.path.join(REPO, "cas_object/src/cas_chunk_format.rs"))
    cs = Src(os.path.join(REPO, "cas_object/src/compression_scheme.rs"))
    mc = Src(os.path.join(REPO, "merkledb/src/constants.rs"))
    vs = Src(os.path.join(REPO, "cas_object/src/validate_xorb_stream.rs"))
    out = [PRELUDE]
    for nm in ["CAS_OBJECT_FORMAT_IDENT", "CAS_OBJECT_FORMAT_IDENT_HASHES", "CAS_OBJECT_FORMAT_IDENT_BOUNDARIES"]:
        out.append("Definition %s : list N := [%s].\n" % (nm, "; ".join(map(str, ident_const(of, nm)))))
    for nm in ["CAS_OBJECT_FORMAT_VERSION_V0", "CAS_OBJECT_FORMAT_VERSION", "CAS_OBJECT_FORMAT_HASHES_VERSION",
               "CAS_OBJECT_FORMAT_BOUNDARIES_VERSION_NO_UNPACKED_INFO", "CAS_OBJECT_FORMAT_BOUNDARIES_VERSION", "CAS_OBJECT_INFO_DEFAULT_LENGTH"]:
        out.append("Definition %s : N := %d.\n" % (nm, rust_int(plain_const(of, nm))))
    out.append("Definition CHUNK_CURRENT_VERSION : N := %d.\n" % rust_int(plain_const(cf, "CURRENT_VERSION")))
    tcs = rust_int(plain_const(mc, "TARGET_CDC_CHUNK_SIZE"))
    mul = rust_int(plain_const(mc, "MAXIMUM_CHUNK_MULTIPLIER"))
    mc.pin("pub const MAXIMUM_CHUNK_SIZE: usize = TARGET_CDC_CHUNK_SIZE * MAXIMUM_CHUNK_MULTIPLIER;", "MAXIMUM_CHUNK_SIZE")
    out.append("Definition MAXIMUM_CHUNK_SIZE : N := %d.\n" % (tcs * mul))
    ideal = rust_int(plain_const(mc, "IDEAL_CAS_BLOCK_SIZE"))
    of.pin("const AVERAGE_NUM_CHUNKS_PER_XORB: usize = IDEAL_CAS_BLOCK_SIZE / TARGET_CDC_CHUNK_SIZE;", "AVERAGE_NUM_CHUNKS_PER_XORB")
    of.pin("declared_size.min(AVERAGE_NUM_CHUNKS_PER_XORB * 9 / 8)", "prealloc bound")
    out.append("Definition PREALLOC_MAX_CHUNKS : N := %d.\n" % ((ideal // tcs) * 9 // 8))
    # scheme numbering
    m = cs.one(r"pub enum CompressionScheme \{ (?:#\[default\] )?None = (\d+), LZ4 = (\d+), ByteGrouping4LZ4 = (\d+), \}", "scheme numbering")
    if [m.group(1), m.group(2), m.group(3)] != ["0", "1", "2"]:
        raise TranslateError("compression scheme numbering changed")
    out.append("Definition MAX_SCHEME : N := 2.\n")
    # chunk header validation and layout
    vb = impl_fn_body(cf, "CASChunkHeader", "validate")
    for p in ["if self.version > CURRENT_VERSION {", "if self.get_compressed_length() as usize > MAXIMUM_CHUNK_SIZE * 2 {", "if self.get_uncompressed_length() as usize > MAXIMUM_CHUNK_SIZE {"]:
        if p not in vb:
            raise TranslateError("CASChunkHeader::validate changed: %r" % p)
    cf.pin("w.write_all(&[chunk_header.version])?; w.write_all(&chunk_header.compressed_length)?; w.write_all(&[chunk_header.compression_scheme])?; w.write_all(&chunk_header.uncompressed_length)", "chunk header write order")
    cf.pin("pub version: u8, compressed_length: [u8; 3], compression_scheme: u8, uncompressed_length: [u8; 3],", "chunk header struct layout")
    sc = cf.fn_body("serialize_chunk")
    for p in ["let (compression_scheme, compressed) = if compressed.len() >= chunk.len() { (CompressionScheme::None, chunk.into()) } else { (compression_scheme, compressed) };",
              "let header = CASChunkHeader::new(compression_scheme, compressed.len() as u32, chunk.len() as u32);",
              "Ok(size_of::<CASChunkHeader>() + compressed.len())"]:
        if p not in sc:
            raise TranslateError("serialize_chunk changed: %r" % p)
    dc = cf.fn_body("deserialize_chunk_to_writer")
    for p in ["let mut compressed_data_reader = reader.take(header.get_compressed_length().into());",
              "if uncompressed_len != header.get_uncompressed_length() as u64 {",
              "Ok((header.get_compressed_length() as usize + CAS_CHUNK_HEADER_LENGTH, uncompressed_len as u32))"]:
        if p not in dc:
            raise TranslateError("deserialize_chunk_to_writer changed: %r" % p)
    # compression dispatch
    for fn, pats in [("compress_from_slice", ["CompressionScheme::None => data.into(),", "CompressionScheme::LZ4 => lz4_compress_from_slice(data).map(Cow::from)?,", "CompressionScheme::ByteGrouping4LZ4 => bg4_lz4_compress_from_slice(data).map(Cow::from)?,"]),
                     ("decompress_from_slice", ["CompressionScheme::None => data.into(),", "CompressionScheme::LZ4 => lz4_decompress_from_slice(data).map(Cow::from)?,", "CompressionScheme::ByteGrouping4LZ4 => bg4_lz4_decompress_from_slice(data).map(Cow::from)?,"]),
                     ("decompress_from_reader", ["CompressionScheme::None => copy(reader, writer)?,", "CompressionScheme::LZ4 => lz4_decompress_from_reader(reader, writer)?,", "CompressionScheme::ByteGrouping4LZ4 => bg4_lz4_decompress_from_reader(reader, writer)?,"])]:
        b = impl_fn_body(cs, "CompressionScheme", fn)
        for p in pats:
            if p not in b:
                raise TranslateError("CompressionScheme::%s changed: %r" % (fn, p))
    if "let groups = bg4_split(data);" not in cs.fn_body("bg4_lz4_compress_from_slice") or "let regrouped = bg4_regroup(&g);" not in cs.fn_body("bg4_lz4_decompress_from_reader"):
        raise TranslateError("bg4 wiring changed")
    # footer write/read order
    sb = impl_fn_body(of, "CasObjectInfoV1", "serialize")
    wseq = call_seq(sb, r"write_(?:bytes|u8|u32|u32s|hash)\(w, &?(?:self\.)?\w+\)")
    want = ["write_bytes(w, &self.ident)", "write_u8(w, self.version)", "write_hash(w, &self.cashash)", "write_bytes(w, &self.ident_hash_section)",
            "write_u8(w, self.hashes_version)", "write_u32(w, self.num_chunks)", "write_hash(w, hash)", "write_bytes(w, &self.ident_boundary_section)",
            "write_u8(w, self.boundaries_version)", "write_u32(w, self.num_chunks)", "write_u32s(w, &self.chunk_boundary_offsets)",
            "write_u32s(w, &self.unpacked_chunk_offsets)", "write_u32(w, self.num_chunks)", "write_u32(w, self.hashes_section_offset_from_end)",
            "write_u32(w, self.boundary_section_offset_from_end)", "write_bytes(w, &self._buffer)"]
    if wseq != want:
        raise TranslateError("CasObjectInfoV1::serialize write order changed: %r" % wseq)
    db = impl_fn_body(of, "CasObjectInfoV1", "deserialize")
    rseq = call_seq(db, r"(?:read_bytes\(r, &mut s\.\w+\)|s\.\w+ = read_(?:u8|u32|hash)\(r\)|let \w+ = read_u32\(r\)|push\(read_(?:u32|hash)\(r\)\?\))")
    wantr = ["read_bytes(r, &mut s.ident)", "s.version = read_u8(r)", "s.cashash = read_hash(r)", "read_bytes(r, &mut s.ident_hash_section)", "s.hashes_version = read_u8(r)",
             "let num_chunks_2 = read_u32(r)", "push(read_hash(r)?)", "read_bytes(r, &mut s.ident_boundary_section)", "s.boundaries_version = read_u8(r)",
             "let num_chunks_3 = read_u32(r)", "push(read_u32(r)?)", "push(read_u32(r)?)", "s.num_chunks = read_u32(r)", "s.hashes_section_offset_from_end = read_u32(r)",
             "s.boundary_section_offset_from_end = read_u32(r)", "read_bytes(r, &mut s._buffer)"]
    if rseq != wantr:
        raise TranslateError("CasObjectInfoV1::deserialize read order changed: %r" % rseq)
    for p in ["if s.ident != CAS_OBJECT_FORMAT_IDENT {", "if s.version == CAS_OBJECT_FORMAT_VERSION_V0 {", "} else if s.version != CAS_OBJECT_FORMAT_VERSION {",
              "if s.ident_hash_section != CAS_OBJECT_FORMAT_IDENT_HASHES {", "if s.hashes_version != CAS_OBJECT_FORMAT_HASHES_VERSION {",
              "if s.ident_boundary_section != CAS_OBJECT_FORMAT_IDENT_BOUNDARIES {", "if s.boundaries_version != CAS_OBJECT_FORMAT_BOUNDARIES_VERSION {",
              "if num_chunks_2 != num_chunks_3 {", "if s.num_chunks != num_chunks_2 {",
              "if end_byte_offset - hash_section_begin_byte_offset != s.hashes_section_offset_from_end as usize {",
              "if end_byte_offset - boundary_section_begin_byte_offset != s.boundary_section_offset_from_end as usize {"]:
        if p not in db:
            raise TranslateError("CasObjectInfoV1::deserialize check changed: %r" % p)
    # validators: the statements the model transcribes
    vb2 = impl_fn_body(of, "CasObject", "validate_cas_object")
    for p in ["let Some(cas) = CasObject::deserialize(reader).ok_for_format_error()? else { return Ok(None); };",
              "if *cas.info.chunk_hashes.get(idx as usize).unwrap() != chunk_hash {",
              "if (start_offset + compressed_chunk_length as u32) != boundary {", "start_offset = boundary;",
              "if cas.info.boundaries_version == CAS_OBJECT_FORMAT_BOUNDARIES_VERSION && unpacked_chunk_offset != *cas.info.unpacked_chunk_offsets.get(idx as usize).unwrap() {",
              "if cur_position != expected_position || cur_position != expected_from_end_position {",
              "if *ret.hash() != *hash || *ret.hash() != cas.info.cashash {"]:
        if p not in vb2:
            raise TranslateError("validate_cas_object changed: %r" % p)
    sv = vs.fn_body("_validate_cas_object_from_async_read")
    for p in ["if bytes_read == 0 {", "if bytes_read != size_of_val(&buf8) {", "if buf8[..CAS_OBJECT_FORMAT_IDENT.len()] == CAS_OBJECT_FORMAT_IDENT {",
              "if version > CAS_OBJECT_FORMAT_VERSION {", "if version == CAS_OBJECT_FORMAT_VERSION {", "} else if version == CAS_OBJECT_FORMAT_VERSION_V0 {",
              "if chunk_uncompressed_expected_len != uncompressed_chunk_data.len() {", "if cas_object_info.cashash != *hash {",
              "if cas_object_info.num_chunks as usize != chunk_hash_and_size.len() {", "if cas_object_info.chunk_boundary_offsets != compressed_chunk_boundary_offsets {",
              "if cas_object_info.chunk_hashes.len() != chunk_hash_and_size.len() {", "if parsed != &computed_chunk.hash {", "if *parsed != prefixsum {",
              "if ret.hash() != hash {"]:
        if p not in sv:
            raise TranslateError("streaming validator changed: %r" % p)
    # the recomputed root hash is compared unconditionally, after the footer checks and before the object is handed back
    tail = ('db.add_file(&mut staging, &chunk_hash_and_size); let ret = db.finalize(staging); if ret.hash() != hash { '
            'return Err(CasObjectError::FormatError(anyhow!("xorb computed hash does not match provided hash"))); } let cas_object = maybe_cas_object')
    if tail not in sv:
        raise TranslateError("streaming validator: the final root-hash comparison is no longer unconditional")
    # boundaries-only parser: checked arithmetic and clamped allocation?
    bo = impl_fn_body(of, "CasObjectInfoV1", "deserialize_only_boundaries_section")
    if "boundary_section_offset_from_end += size_of::<u32>() as u32;" in bo and "s.chunk_boundary_offsets.resize(num_chunks_boundaries_section as usize, 0);" in bo:
        checked = "false"
    elif "checked_add(size_of::<u32>() as u32)" in bo and "prealloc_num_chunks(num_chunks_boundaries_section as usize)" in bo and ".resize(" not in bo:
        checked = "true"
    else:
        raise TranslateError("deserialize_only_boundaries_section: unrecognised shape")
    out.append("Definition boundaries_only_checked : bool := %s.\n" % checked)
    return "".join(out), {x.path: x.digest for x in (of, cf, cs, mc, vs)}


def gen_DedupFacts():
    fd = Src(os.path.join(REPO, "deduplication/src/file_deduplication.rs"))
    dp = Src(os.path.join(REPO, "deduplication/src/defrag_prevention.rs"))
    da = Src(os.path.join(REPO, "deduplication/src/data_aggregator.rs"))
    us = Src(os.path.join(REPO, "data/src/file_upload_session.rs"))
    sh = Src(os.path.join(REPO, "data/src/sha256.rs"))
    fc = Src(os.path.join(REPO, "data/src/file_cleaner.rs"))
    di = Src(os.path.join(REPO, "data/src/deduplication_interface.rs"))
    out = [PRELUDE]
    out.append("Definition NRANGES_IN_STREAMING_FRAGMENTATION_ESTIMATOR : N := %d.\n" % cc_const(dp, "NRANGES_IN_STREAMING_FRAGMENTATION_ESTIMATOR"))
    for nm in ["MIN_N_CHUNKS_PER_RANGE_HYSTERESIS_FACTOR", "MIN_N_CHUNKS_PER_RANGE"]:
        m = dp.one(r"\bref %s\s*:\s*f32\s*=\s*([0-9.]+)\s*;" % nm, nm)
        from fractions import Fraction
        fr = Fraction(m.group(1))
        out.append("Definition %s_NUM : N := %d.\nDefinition %s_DEN : N := %d.\n" % (nm, fr.numerator, nm, fr.denominator))
    # where are the four counters of a dedup answer booked: before the accept/reject decision, or in the accept branch?
    pc = fd.fn_body("process_chunks")
    book = "dedup_metrics.deduped_chunks += n_deduped; dedup_metrics.deduped_bytes += fse.unpacked_segment_bytes as usize; dedup_metrics.total_chunks += n_deduped; dedup_metrics.total_bytes += fse.unpacked_segment_bytes as usize;"
    cond = "if self.file_data_sequence_continues_current(&fse) || self.defrag_tracker.allow_dedup_on_next_range(n_deduped) {"
    if pc.count(book) != 1 or pc.count(cond) != 1:
        raise TranslateError("process_chunks: dedup bookkeeping or accept condition not found exactly once")
    if pc.index(book) < pc.index(cond):
        bbd = "true"
    else:
        rest = pc[pc.index(cond) + len(cond):]
        if not rest.lstrip().startswith(book):
            raise TranslateError("process_chunks: bookkeeping is neither before the decision nor first in the accept branch")
        bbd = "false"
    out.append("Definition dedup_booked_before_decision : bool := %s.\n" % bbd)
    # what a rejected dedup answer adds to the "withheld by fragmentation prevention" counters: the whole run it covered,
    # or the one chunk that is stored as new data because of the decision
    whole = "dedup_metrics.defrag_prevented_dedup_chunks += n_deduped; dedup_metrics.defrag_prevented_dedup_bytes += fse.unpacked_segment_bytes as usize;"
    one = "dedup_metrics.defrag_prevented_dedup_chunks += 1; dedup_metrics.defrag_prevented_dedup_bytes += chunks[cur_idx].data.len();"
    if pc.count(whole) + pc.count(one) != 1:
        raise TranslateError("process_chunks: booking of a rejected dedup answer not found exactly once")
    out.append("Definition defrag_counts_whole_run : bool := %s.\n" % ("true" if whole in pc else "false"))
    for p in ["dedup_metrics.total_chunks += 1; dedup_metrics.total_bytes += n_bytes; dedup_metrics.new_bytes += n_bytes; dedup_metrics.new_chunks += 1;",
              "if self.new_data_size + n_bytes > *MAX_XORB_BYTES || self.new_data.len() + 1 > *MAX_XORB_CHUNKS {",
              "&& self.file_info.last().unwrap().cas_hash == MerkleHash::default() && self.file_info.last().unwrap().chunk_index_end as usize == self.new_data.len()",
              "self.new_data_hash_lookup.insert(chunk.hash, self.new_data.len()); self.new_data.push(chunk);"]:
        if p not in pc:
            raise TranslateError("process_chunks statement changed: %r" % p)
    lq = fd.fn_body("dedup_query_against_local_data")
    for p in ["if let Some(&base_idx) = self.new_data_hash_lookup.get(&chunks[0]) {", "if idx == base_idx + i {",
              "Some((end_idx - base_idx, FileDataSequenceEntry::new(MerkleHash::default(), n_bytes, base_idx, end_idx)))"]:
        if p not in lq:
            raise TranslateError("dedup_query_against_local_data changed: %r" % p)
    cx = fd.fn_body("cut_new_xorb")
    for p in ["for &idx in self.internally_referencing_entries.iter() {", "fse.cas_hash = xorb_hash;",
              "self.new_data.clear(); self.new_data_hash_lookup.clear(); self.new_data_size = 0; self.internally_referencing_entries.clear();"]:
        if p not in cx:
            raise TranslateError("cut_new_xorb changed: %r" % p)
    ff = fd.fn_body("finalize")
    for p in ["let file_hash = file_node_hash(&self.chunk_hashes, &file_hash_salt).unwrap();",
              "let metadata = FileDataSequenceHeader::new(file_hash, self.file_info.len(), true, metadata_ext.is_some());",
              "let n_chunks = (entry.chunk_index_end - entry.chunk_index_start) as usize;"]:
        if p not in ff:
            raise TranslateError("FileDeduper::finalize changed: %r" % p)
    # defrag tracker
    al = dp.fn_body("allow_dedup_on_next_range")
    for p in ["if chunks_per_range < target_cpr { if (dedup_range_size as f32) < chunks_per_range { self.defrag_at_low_threshold = false; return false; } } else { self.defrag_at_low_threshold = true; }",
              "let target_cpr = if self.defrag_at_low_threshold { self.min_chunks_per_range * self.min_chunks_per_range_historesis_factor } else { self.min_chunks_per_range };"]:
        if p not in al:
            raise TranslateError("allow_dedup_on_next_range changed: %r" % p)
    if "if self.rolling_last_nranges.len() > *NRANGES_IN_STREAMING_FRAGMENTATION_ESTIMATOR { self.rolling_nranges_chunks -= self.rolling_last_nranges.pop_front().unwrap(); }" not in dp.fn_body("add_range_to_fragmentation_estimate"):
        raise TranslateError("add_range_to_fragmentation_estimate changed")
    if "if self.rolling_last_nranges.len() < *NRANGES_IN_STREAMING_FRAGMENTATION_ESTIMATOR { None }" not in dp.fn_body("rolling_chunks_per_range"):
        raise TranslateError("rolling_chunks_per_range changed")
    # aggregator
    mi = da.fn_body("merge_in")
    for p in ["let shift = self.chunks.len() as u32;", "if fi.cas_hash == MerkleHash::default() { fi.chunk_index_start += shift; fi.chunk_index_end += shift; }"]:
        if p not in mi:
            raise TranslateError("DataAggregator::merge_in changed: %r" % p)
    # session: does the aggregated xorb's cas info reach the shard?  order of metrics snapshot vs. join loop
    pa = us.fn_body("process_aggregated_data_as_xorb")
    if "self.register_new_xorb_for_upload(xorb).await?;" not in pa and "self.register_new_xorb_for_upload(" not in pa:
        raise TranslateError("process_aggregated_data_as_xorb: upload registration not found")
    out.append("Definition aggregated_xorb_registers_cas : bool := %s.\n" % ("true" if "add_cas_block(" in pa else "false"))
    rc = us.fn_body("register_single_file_clean_completion")
    for p in ["if current_session_data.num_bytes() + file_data.num_bytes() > *MAX_XORB_BYTES || current_session_data.num_chunks() + file_data.num_chunks() > *MAX_XORB_CHUNKS {",
              "if current_session_data.num_bytes() > file_data.num_bytes() { swap(&mut *current_session_data, &mut file_data); }",
              "} else { current_session_data.merge_in(file_data); }"]:
        if p not in rc:
            raise TranslateError("register_single_file_clean_completion changed: %r" % p)
    fi = us.fn_body("finalize_impl")
    snap = "take(&mut *self.deduplication_metrics.lock().await)"
    join = "while let Some(result) = upload_tasks.join_next().await { result??; }"
    if fi.count(snap) != 1 or fi.count(join) != 1:
        raise TranslateError("finalize_impl: metrics snapshot or join loop not found exactly once")
    out.append("Definition metrics_snapshot_after_join : bool := %s.\n" % ("true" if fi.index(snap) > fi.index(join) else "false"))
    if fi.index("self.shard_interface.upload_and_register_session_shards().await?") < fi.index(join):
        raise TranslateError("finalize_impl: shards are uploaded before the xorb uploads are joined")
    out.append("Definition shards_uploaded_after_xorb_join : bool := true.\n")
    rn = di.fn_body("register_new_xorb")
    if not ("add_cas_block(xorb.cas_info.clone())" in rn and "register_new_xorb_for_upload(xorb)" in rn):
        raise TranslateError("UploadSessionDataManager::register_new_xorb changed")
    # sha of the empty file
    sf = sh.fn_body("finalize")
    if "None => return Ok(MerkleHash::default())," in sf:
        out.append("Definition sha_of_empty_input_is_zero : bool := true.\n")
    elif "None => Sha256::default()," in sf or "Sha256::new()" in sf or "unwrap_or_default" in sf:
        out.append("Definition sha_of_empty_input_is_zero : bool := false.\n")
    else:
        raise TranslateError("ShaGenerator::finalize: unrecognised handling of the no-update case")
    fin = fc.fn_body("finish")
    if "PointerFile::init_from_info(&self.file_name, &file_hash.hex(), deduplication_metrics.total_bytes as u64)" not in fin:
        raise TranslateError("SingleFileCleaner::finish: pointer size source changed")
    return "".join(out), {x.path: x.digest for x in (fd, dp, da, us, sh, fc, di)}


def gen_CacheFacts():
    dk = Src(os.path.join(REPO, "chunk_cache/src/disk.rs"))
    ci = Src(os.path.join(REPO, "chunk_cache/src/disk/cache_item.rs"))
    ch = Src(os.path.join(REPO, "chunk_cache/src/disk/cache_file_header.rs"))
    out = [PRELUDE]
    m = dk.one(r"\bconst PREFIX_DIR_NAME_LEN\s*:\s*usize\s*=\s*(\d+)\s*;", "PREFIX_DIR_NAME_LEN")
    out.append("Definition PREFIX_DIR_NAME_LEN : nat := %d.\n" % int(m.group(1)))
    m = dk.one(r"\bpub const DEFAULT_CHUNK_CACHE_CAPACITY\s*:\s*u64\s*=\s*([^;]+);", "DEFAULT_CHUNK_CACHE_CAPACITY")
    out.append("Definition DEFAULT_CHUNK_CACHE_CAPACITY : N := %s.\n" % ExprTr({}).tr(m.group(1)))
    ist = dk.fn_body("initialize_state")
    m = re.search(r"let max_num_bytes = (\d+) \* capacity;", ist)
    if not m:
        raise TranslateError("initialize_state: early-stop bound changed")
    out.append("Definition SCAN_STOP_FACTOR : N := %d.\n" % int(m.group(1)))
    for p_ in ["if key_prefix_dir_name.as_encoded_bytes().len() != PREFIX_DIR_NAME_LEN {",
               "let cache_item = match try_parse_cache_file(item, capacity) { Ok(Some(ci)) => ci, Ok(None) => continue, Err(e) => return Err(e), };",
               "total_bytes += cache_item.len; num_items += 1; items.push(VerificationCell::new_unverified(cache_item));",
               "if total_bytes >= max_num_bytes { state.insert(key, items); return Ok(CacheState::new(state, num_items, total_bytes)); }",
               "if !items.is_empty() { state.insert(key, items); }"]:
        if p_ not in ist:
            raise TranslateError("initialize_state changed: %r" % p_)
    # the key directory must sit under its own prefix directory (case-insensitively), otherwise it is skipped
    if "debug_assert_eq!" in ist:
        pref = "false"
    elif "if key_dir_name_bytes.len() < PREFIX_DIR_NAME_LEN || !key_dir_name_bytes[..PREFIX_DIR_NAME_LEN].eq_ignore_ascii_case(key_prefix_dir_name.as_encoded_bytes()) {" in ist:
        pref = "true"
    else:
        raise TranslateError("initialize_state: unrecognised prefix-directory check")
    out.append("Definition key_dir_prefix_checked : bool := %s.\n" % pref)
    pk = dk.fn_body("try_parse_key")
    for p_ in ["let buf = BASE64_ENGINE.decode(file_name)?;", "let hash = MerkleHash::from_slice(&buf[..size_of::<MerkleHash>()])?;",
               "let prefix = String::from(std::str::from_utf8(&buf[size_of::<MerkleHash>()..])?);"]:
        if p_ not in pk:
            raise TranslateError("try_parse_key changed: %r" % p_)
    chk = "if buf.len() < size_of::<MerkleHash>() { return Err("
    out.append("Definition key_name_length_checked : bool := %s.\n" % ("true" if chk in pk and pk.index(chk) < pk.index("MerkleHash::from_slice") else "false"))
    pf = dk.fn_body("try_parse_cache_file")
    for p_ in ["if !md.is_file() { return Ok(None); }", "if md.len() > DEFAULT_CHUNK_CACHE_CAPACITY { return Err(",
               "if md.len() > capacity { return Ok(None); }", "if md.len() != cache_item.len {"]:
        if p_ not in pf:
            raise TranslateError("try_parse_cache_file changed: %r" % p_)
    order = [pf.index("if !md.is_file()"), pf.index("if md.len() > DEFAULT_CHUNK_CACHE_CAPACITY"), pf.index("if md.len() > capacity"),
             pf.index("CacheItem::parse("), pf.index("if md.len() != cache_item.len")]
    if order != sorted(order):
        raise TranslateError("try_parse_cache_file: order of checks changed")
    if pf.count("remove_file(item.path())?;") != 2:
        raise TranslateError("try_parse_cache_file: deletions changed")
    # lookups
    fm = dk.fn_body("find_match")
    if "for item in items.iter() { if item.range.start <= range.start && range.end <= item.range.end { return Ok(Some(item.clone())); } }" not in fm:
        raise TranslateError("find_match changed")
    gi = dk.fn_body("get_impl")
    for p_ in ["if range.start >= range.end { return Err(ChunkCacheError::InvalidArguments); }",
               "ErrorKind::NotFound => { self.remove_item(key, &cache_item)?; continue; },",
               "if !cache_item.is_verified() { let checksum = crc32_from_reader(&mut file)?; if checksum == cache_item.checksum { cache_item.verify(); file.rewind()?; } else {",
               "let start = cache_item.range.start; let result_buf = get_range_from_cache_file(&header, &mut file_reader, range, start)?; return Ok(Some(result_buf));"]:
        if p_ not in gi:
            raise TranslateError("get_impl changed: %r" % p_)
    pi = dk.fn_body("put_impl")
    for p_ in ["if range.start >= range.end || chunk_byte_indices.len() != (range.end - range.start + 1) as usize || chunk_byte_indices[0] != 0 || *chunk_byte_indices.last().unwrap() as usize != data.len() || !strictly_increasing(chunk_byte_indices) { return Err(ChunkCacheError::InvalidArguments); }",
               "while let Some(cache_item) = self.find_match(key, range)? { if self.validate_match(key, range, chunk_byte_indices, data, &cache_item)? { return Ok(()); } }",
               "hasher.update(&header_buf); hasher.update(data); hasher.finalize()",
               "let cache_item = CacheItem { range: *range, len: (header_buf.len() + data.len()) as u64, checksum, };",
               "if item.range.start >= cache_item.range.start && item.range.end <= cache_item.range.end { to_remove.push(i); }",
               "for item_idx in to_remove.into_iter().rev() { let item = items.swap_remove(item_idx);",
               "state.num_items -= num_items_rm; state.total_bytes -= total_bytes_rm;",
               "let evicted_paths = self.maybe_evict(&mut state, cache_item.len)?;",
               "state.num_items += 1; state.total_bytes += cache_item.len; let item_set = state.inner.entry(key.clone()).or_default(); item_set.push(VerificationCell::new_verified(cache_item));"]:
        if p_ not in pi:
            raise TranslateError("put_impl changed: %r" % p_)
    if not (pi.index("fw.close()?;") < pi.index("let mut state = self.state.lock()?;") < pi.index("drop(state);") < pi.index("for path in overlapping_item_paths { remove_file(&path)?; }")):
        raise TranslateError("put_impl: write / commit / delete order changed")
    inside = "if item != cache_item { overlapping_item_paths.insert(self.item_path(key, &item)?); total_bytes_rm += item.len; }"
    outside = "if item != cache_item { overlapping_item_paths.insert(self.item_path(key, &item)?); } total_bytes_rm += item.len;"
    if outside in pi:
        out.append("Definition bytes_removed_for_every_entry : bool := true.\n")
    elif inside in pi:
        out.append("Definition bytes_removed_for_every_entry : bool := false.\n")
    else:
        raise TranslateError("put_impl: accounting of removed entries not recognised")
    vm = dk.fn_body("validate_match")
    for p_ in ["if md.len() != cache_item.len { self.remove_item(key, cache_item)?; return Ok(false); }",
               "if checksum != cache_item.checksum { self.remove_item(key, cache_item)?; return Ok(false); }",
               "let idx_start = (range.start - cache_item.range.start) as usize; let idx_end = (range.end - cache_item.range.start + 1) as usize;",
               "if stored_diff != given_diff {", "if data != stored.data.as_ref() { return Err(ChunkCacheError::InvalidArguments); } Ok(true)"]:
        if p_ not in vm:
            raise TranslateError("validate_match changed: %r" % p_)
    bc = "if header.chunk_byte_indices.len() < idx_end { self.remove_item(key, cache_item)?; return Ok(false); }"
    out.append("Definition validate_bounds_checked : bool := %s.\n" % ("true" if bc in vm and vm.index(bc) < vm.index("for i in idx_start..idx_end - 1") else "false"))
    me = dk.fn_body("maybe_evict")
    for p_ in ["let to_remove = total_bytes as i64 - self.capacity as i64 + expected_add as i64;", "while to_remove > bytes_removed {",
               "items.remove(idx); if items.is_empty() { state.inner.remove(&key); } state.total_bytes -= len; state.num_items -= 1; bytes_removed += len as i64;"]:
        if p_ not in me:
            raise TranslateError("maybe_evict changed: %r" % p_)
    ri = dk.fn_body("remove_item")
    for p_ in ["None => return Ok(()),", "items.swap_remove(idx); if items.is_empty() { state.inner.remove(key); } state.total_bytes -= cache_item.len; state.num_items -= 1;",
               "if !path.exists() { return Ok(()); } remove_file(&path)?;"]:
        if p_ not in ri:
            raise TranslateError("remove_item changed: %r" % p_)
    gr = dk.fn_body("get_range_from_cache_file")
    for p_ in ["let start_idx = (range.start - start) as usize; let end_idx = (range.end - start) as usize;",
               "let start_byte = header.chunk_byte_indices.get(start_idx).ok_or(ChunkCacheError::BadRange)?; let end_byte = header.chunk_byte_indices.get(end_idx).ok_or(ChunkCacheError::BadRange)?;",
               "file_contents.seek(SeekFrom::Start((*start_byte as usize + header.header_len()) as u64))?; let mut data = vec![0; (end_byte - start_byte) as usize]; file_contents.read_exact(&mut data)?;",
               "header.chunk_byte_indices[start_idx..=end_idx] .iter() .map(|v| *v - header.chunk_byte_indices[start_idx])"]:
        if p_ not in gr:
            raise TranslateError("get_range_from_cache_file changed: %r" % p_)
    kd = dk.fn_body("key_dir")
    for p_ in ["buf[..size_of::<MerkleHash>()].copy_from_slice(key.hash.as_bytes()); buf[size_of::<MerkleHash>()..].copy_from_slice(prefix_bytes);",
               "let encoded = BASE64_ENGINE.encode(&buf); let prefix_dir = &encoded[..PREFIX_DIR_NAME_LEN]; let dir_str = format!(\"{prefix_dir}/{encoded}\");"]:
        if p_ not in kd:
            raise TranslateError("key_dir changed: %r" % p_)
    dk.pin("pub(crate) const BASE64_ENGINE: GeneralPurpose = URL_SAFE;", "base64 engine")
    # item name: field order and widths
    fnm = ci.fn_body("file_name")
    if call_seq(fnm, r"write_u\d+\(&mut w, self\.[a-z_.]+\)") != ["write_u32(&mut w, self.range.start)", "write_u32(&mut w, self.range.end)", "write_u64(&mut w, self.len)", "write_u32(&mut w, self.checksum)"]:
        raise TranslateError("CacheItem::file_name: field sequence changed")
    ps = ci.fn_body("parse")
    if call_seq(ps, r"let [a-z]+ = read_u\d+\(&mut r\)") != ["let start = read_u32(&mut r)", "let end = read_u32(&mut r)", "let len = read_u64(&mut r)", "let checksum = read_u32(&mut r)"]:
        raise TranslateError("CacheItem::parse: field sequence changed")
    for p_ in ["if buf.len() != CACHE_ITEM_FILE_NAME_BUF_SIZE { return Err(", "if start >= end { return Err(ChunkCacheError::BadRange); }"]:
        if p_ not in ps:
            raise TranslateError("CacheItem::parse changed: %r" % p_)
    ci.pin("const CACHE_ITEM_FILE_NAME_BUF_SIZE: usize = size_of::<u32>() * 2 + size_of::<u64>() + size_of::<u32>();", "item name size")
    ci.pin("#[derive(Debug, Clone, PartialEq, Eq, Hash)] pub(crate) struct CacheItem { pub(crate) range: ChunkRange, pub(crate) len: u64, pub(crate) checksum: u32, }", "CacheItem equality is structural")
    # header
    hs = ch.fn_body("serialize")
    if "write_u32(writer, self.chunk_byte_indices.len() as u32)?; write_u32s(writer, &self.chunk_byte_indices)?;" not in hs:
        raise TranslateError("CacheFileHeader::serialize changed")
    hd = ch.fn_body("deserialize")
    for p_ in ["let chunk_byte_indices_len = read_u32(reader)?;", "if i == 0 && idx != 0 { return Err(", "} else if !chunk_byte_indices.is_empty() && chunk_byte_indices.last().unwrap() >= &idx { return Err("]:
        if p_ not in hd:
            raise TranslateError("CacheFileHeader::deserialize changed: %r" % p_)
    if "(self.chunk_byte_indices.len() + 1) * size_of::<u32>()" not in ch.fn_body("header_len"):
        raise TranslateError("header_len changed")
    return "".join(out), {x.path: x.digest for x in (dk, ci, ch)}


def gen_CrashFacts():
    """Pins for the write protocols of C19 (no definitions are generated: the group fails closed when a statement the
    effect-list model was written against is gone or reordered)."""
    sf = Src(os.path.join(REPO, "file_utils/src/safe_file_creator.rs"))
    sm = Src(os.path.join(REPO, "mdb_shard/src/shard_in_memory.rs"))
    fh = Src(os.path.join(REPO, "mdb_shard/src/shard_file_handle.rs"))
    sd = Src(os.path.join(REPO, "mdb_shard/src/session_directory.rs"))
    ut = Src(os.path.join(REPO, "mdb_shard/src/utils.rs"))
    lc = Src(os.path.join(REPO, "cas_client/src/local_client.rs"))
    dk = Src(os.path.join(REPO, "chunk_cache/src/disk.rs"))
    out = [PRELUDE]
    cl = sf.fn_body("close")
    for p_ in ["writer.flush()?; drop(writer);", "fs::rename(&self.temp_path, dest_path)?;"]:
        if p_ not in cl:
            raise TranslateError("SafeFileCreator::close changed: %r" % p_)
    if not cl.index("writer.flush()?;") < cl.index("fs::rename(&self.temp_path, dest_path)?;"):
        raise TranslateError("SafeFileCreator::close: rename no longer follows the flush")
    tp = sf.fn_body("temp_file_path")
    if 'format!(".{filename}.{random_hash}.tmp")' not in tp or 'format!(".{random_hash}.tmp")' not in tp:
        raise TranslateError("SafeFileCreator temp name pattern changed")
    wd = sm.fn_body("write_to_directory")
    seq = ["let temp_file_name = directory.join(temp_shard_file_name());", "let shard_hash = self.write_to_temp_shard_file(&temp_file_name)?;",
           "let full_file_name = directory.join(shard_file_name(&shard_hash));", "std::fs::rename(&temp_file_name, &full_file_name)?;"]
    pos = [wd.find(x) for x in seq]
    if -1 in pos or pos != sorted(pos):
        raise TranslateError("write_to_directory: temp / hash / rename sequence changed")
    wr = fh.fn_body("write_out_from_reader")
    seq = ["let temp_file_name = target_directory.join(temp_shard_file_name());", "std::io::copy(reader, &mut hashed_write)?; hashed_write.flush()?;",
           "let shard_hash = hashed_write.hash();", "std::fs::rename(&temp_file_name, &full_file_name)?;"]
    pos = [wr.find(x) for x in seq]
    if -1 in pos or pos != sorted(pos):
        raise TranslateError("write_out_from_reader: temp / hash / rename sequence changed")
    ut.pin('static ref MERKLE_DB_FILE_PATTERN: Regex = Regex::new(r"^(?P<hash>[0-9a-fA-F]{64})\\.mdb$").unwrap();', "final shard name pattern")
    if 'format!("{}.mdb", hash.hex())' not in ut.fn_body("shard_file_name") or 'format!(".{uuid}.mdb_temp")' not in ut.fn_body("temp_shard_file_name"):
        raise TranslateError("shard file names changed")
    cs = sd.fn_body("consolidate_shards_in_directory")
    for p_ in ["shards.sort_unstable_by_key(|si| si.last_modified_time);",
               "if idx == shards.len() || shards[idx].shard.num_bytes() + current_size >= target_max_size { ub_idx = idx; break; } current_size += shards[idx].shard.num_bytes()",
               "if ub_idx == cur_idx + 1 {", "finished_shard_hashes.insert(new_sfi.shard_hash); finished_shards.push(new_sfi);",
               "if finished_shard_hashes.contains(shard_hash) {", "std::fs::remove_file(path)?;"]:
        if p_ not in cs:
            raise TranslateError("consolidate_shards_in_directory changed: %r" % p_)
    if not cs.index("MDBShardFile::write_out_from_reader(session_directory") < cs.index("std::fs::remove_file(path)?;"):
        raise TranslateError("consolidation: inputs are removed before the merged shard is written")
    pt = lc.fn_body("put")
    seq = ["let mut file = SafeFileCreator::new(&file_path)?;", "CasObject::serialize(", "file.close()?;"]
    pos = [pt.find(x) for x in seq]
    if -1 in pos or pos != sorted(pos):
        raise TranslateError("LocalClient::put: write protocol changed")
    if 'self.xorb_dir.join(format!("default.{hash:?}"))' not in lc.fn_body("get_path_for_entry"):
        raise TranslateError("LocalClient xorb file name changed")
    pi = dk.fn_body("put_impl")
    seq = ["let mut fw = SafeFileCreator::new(path)?;", "fw.write_all(&header_buf)?; fw.write_all(data)?; fw.close()?;", "let mut state = self.state.lock()?;",
           "for path in overlapping_item_paths { remove_file(&path)?; }"]
    pos = [pi.find(x) for x in seq]
    if -1 in pos or pos != sorted(pos):
        raise TranslateError("DiskCache::put_impl: write / commit / delete order changed")
    out.append("Definition write_protocols_pinned : bool := true.\n")
    return "".join(out), {x.path: x.digest for x in (sf, sm, fh, sd, ut, lc, dk)}


def gen_SfFacts():
    """Pins for utils::singleflight (C20): the atomic actions of the model are read off these statements."""
    sf = Src(os.path.join(REPO, "utils/src/singleflight.rs"))
    er = Src(os.path.join(REPO, "utils/src/errors.rs"))
    out = [PRELUDE]
    # exact bodies (debug! statements aside): an action that became conditional, or a new use of the waiter counter (a u16
    # that wraps at 65536 callers and must stay a statistic), is a changed action
    def body(name):
        return " ".join(re.sub(r'debug!\("(?:[^"\\]|\\.)*"(?:, [^;]*)?\);', "", sf.fn_body(name)).split())
    exact = {
        "complete": ("let mut val = self.res.write(); *val = Some(res); self.nt.notify_waiters(); let num_waiters = self.num_waiters.load(Ordering::SeqCst);",
                     "Call::complete: store-then-notify under the write lock changed"),
        "get_future": ("let res = self.res.read(); if let Some(result) = res.clone() { Either::Left(async move { result }) } else { self.num_waiters.fetch_add(1, Ordering::SeqCst); "
                       "let notified = self.nt.notified(); Either::Right(async move { notified.await; self.get() }) }",
                       "Call::get_future: check-or-register under the read lock changed"),
        "get": ("let res = self.res.read(); res.clone().unwrap_or(Err(SingleflightError::NoResult))", "Call::get changed"),
        "work": ("let (call, created) = self.get_call_or_create(key).await; let results_future = call.get_future(); if created { let owner_task = OwnerTask::new(fut, call.clone()); "
                 "let owner_handle = Handle::current().spawn(owner_task); let (handle_result, future_result) = tokio::join!(owner_handle, results_future); "
                 "let result = handle_result .map_err(|e| SingleflightError::JoinError(e.to_string())) .and(future_result); "
                 "if let Err(e) = self.remove_call(key).await { return (Err(e), true); } (result, true) } else { (results_future.await, false) }",
                 "Group::work: sequence of actions changed"),
    }
    for name, (want, msg) in exact.items():
        if body(name) != want:
            raise TranslateError(msg)
    if len(re.findall(r"\bnum_waiters\b", sf.flat.split("#[cfg(test)]")[0])) != 6:
        raise TranslateError("the waiter counter of Call is used in a new place")
    gc = sf.fn_body("get_call_or_create")
    if "let mut m = self.call_map.lock().await; if let Some(c) = m.get(key).cloned() { (c, false) } else { let c = Arc::new(Call::new()); let our_call = c.clone(); m.insert(key.to_owned(), c); (our_call, true) }" not in gc:
        raise TranslateError("get_call_or_create changed")
    if "let mut m = self.call_map.lock().await; m.remove(key).ok_or(SingleflightError::CallMissing)?;" not in sf.fn_body("remove_call"):
        raise TranslateError("remove_call changed")
    pl = sf.fn_body("poll")
    seq = ["let res: Result<T, E> = ready!(this.fut.poll(cx));", "let res = res.map_err(|e| SingleflightError::InternalError(e));", "this.got_response.store(true, Ordering::SeqCst);",
           "call.complete(res.clone());", "Poll::Ready(res)"]
    pos = [pl.find(x) for x in seq]
    if -1 in pos or pos != sorted(pos):
        raise TranslateError("OwnerTask::poll changed")
    if "if !this.got_response.load(Ordering::SeqCst) { let call = this.call; call.complete(Err(SingleflightError::OwnerPanicked)) }" not in sf.fn_body("drop"):
        raise TranslateError("OwnerTask drop handler changed")
    if 'SingleflightError::InternalError(e) => SingleflightError::WaiterInternalError(format!("{e:?}")),' not in er.flat:
        raise TranslateError("SingleflightError::clone changed")
    out.append("Definition singleflight_shape_pinned : bool := true.\n")
    return "".join(out), {x.path: x.digest for x in (sf, er)}


def gen_ReconFacts():
    """Pins for cas_client::remote_client's reconstruction path (C17)."""
    rc = Src(os.path.join(REPO, "cas_client/src/remote_client.rs"))
    out = [PRELUDE]
    sq = rc.fn_body("reconstruct_file_to_writer")
    for p_ in ["let total_len = if let Some(range) = byte_range { range.end - range.start } else { terms.iter().fold(0, |acc, x| acc + x.unpacked_length as u64) };",
               "let start = if term_idx == 0 { max(0, offset_into_first_range as usize) } else { 0 };",
               "let end: usize = min(remaining_len + start as u64, term_data.len() as u64) as usize; writer.write_all(&term_data[start..end])?; let len_written = (end - start) as u64; remaining_len -= len_written;",
               ".buffered(*NUM_CONCURRENT_RANGE_GETS) .enumerate();", "Ok(total_len)"]:
        if p_ not in sq:
            raise TranslateError("reconstruct_file_to_writer changed: %r" % p_)
    pr = rc.fn_body("reconstruct_file_to_writer_parallel")
    for p_ in ["let total_len = if let Some(range) = byte_range { range.end - range.start } else { terms.iter().fold(0, |acc, x| acc + x.unpacked_length as u64) };",
               "let mut bytes_written = 0; let mut remaining = total_len;", "let mut total_written = 0;",
               "let start = if idx == 0 { offset_into_first_range as usize } else { 0 }; let end = min(start as u64 + remaining, term.unpacked_length as u64) as usize; let file_offset = bytes_written; let len = (end - start) as u64; bytes_written += len; remaining -= len;",
               "task.write_term(term, start..end, file_offset)", "total_written += len_written;", "Ok(total_written)"]:
        if p_ not in pr:
            raise TranslateError("reconstruct_file_to_writer_parallel changed: %r" % p_)
    wt = rc.fn_body("write_term")
    for p_ in ["if term_range.end > term_data.len() {", "let mut writer = self.output.get_writer_at(file_offset)?; writer.write_all(&term_data[term_range])?; writer.flush()?; Ok(len)"]:
        if p_ not in wt:
            raise TranslateError("write_term changed: %r" % p_)
    g1 = rc.fn_body("get_one_term")
    for p_ in ["if let Ok(Some(cached)) = cache.get(&key, &term.range).log_error(\"cache error\") { return Ok(cached.data.to_vec()); }",
               ".find(|fterm| fterm.range.start <= term.range.start && fterm.range.end >= term.range.end)",
               ".work_dump_caller_info(&fetch_term.url, download_range(http_client, fetch_term.clone(), term.hash))",
               "cache.put(&key, &fetch_term.range, &chunk_byte_indices, &data)?;",
               "if term.range != fetch_term.range { let start_idx = term.range.start - fetch_term.range.start; let end_idx = term.range.end - fetch_term.range.start; let start_byte_index = chunk_byte_indices[start_idx as usize] as usize; let end_byte_index = chunk_byte_indices[end_idx as usize] as usize;",
               "data.truncate(end_byte_index); data = data.split_off(start_byte_index);",
               "if data.len() != term.unpacked_length as usize { return Err("]:
        if p_ not in g1:
            raise TranslateError("get_one_term changed: %r" % p_)
    if 'format!("bytes={}-{}", range.start, range.end)' not in rc.fn_body("range_header"):
        raise TranslateError("range_header changed")
    out.append("Definition reconstruction_shape_pinned : bool := true.\n")
    return "".join(out), {rc.path: rc.digest}


def gen_UploadFacts():
    """Facts and pins for the upload session's task handling (C16)."""
    us = Src(os.path.join(REPO, "data/src/file_upload_session.rs"))
    si = Src(os.path.join(REPO, "data/src/shard_interface.rs"))
    di = Src(os.path.join(REPO, "data/src/deduplication_interface.rs"))
    out = [PRELUDE]
    rg = us.fn_body("register_new_xorb_for_upload")
    if "while let Some(result) = upload_tasks.try_join_next() {" not in rg:
        raise TranslateError("register_new_xorb_for_upload: reaping loop changed")
    for p_ in ["let upload_permit = acquire_upload_permit().await?;", "self.xorb_upload_tasks.lock().await.spawn(async move {",
               ".put(&cas_prefix, &xorb_hash, xorb_data, chunks_and_boundaries) .await?;"]:
        if p_ not in rg:
            raise TranslateError("register_new_xorb_for_upload changed: %r" % p_)
    fi = us.fn_body("finalize_impl")
    sticky_reg = "self.check_no_xorb_upload_failed()?;" in rg and rg.index("self.check_no_xorb_upload_failed()?;") < rg.index("try_join_next")
    sets = "self.xorb_upload_failed.store(true, Ordering::SeqCst); return Err(e);" in rg
    sticky_fin = "self.check_no_xorb_upload_failed()?;" in fi and fi.index("self.check_no_xorb_upload_failed()?;") < fi.index("process_aggregated_data_as_xorb")
    if sticky_reg and sets and sticky_fin:
        if "if self.xorb_upload_failed.load(Ordering::SeqCst) { return Err(" not in us.fn_body("check_no_xorb_upload_failed"):
            raise TranslateError("check_no_xorb_upload_failed changed")
        out.append("Definition upload_failure_is_sticky : bool := true.\n")
    elif "result??;" in rg and not (sticky_reg or sets or sticky_fin):
        out.append("Definition upload_failure_is_sticky : bool := false.\n")
    else:
        raise TranslateError("register_new_xorb_for_upload / finalize_impl: failure handling not recognised")
    if "while let Some(result) = upload_tasks.join_next().await { result??; }" not in fi:
        raise TranslateError("finalize_impl: join loop changed")
    rn = di.fn_body("register_new_xorb")
    if rn.strip() != "self.session.shard_interface.add_cas_block(xorb.cas_info.clone()).await?; self.session.register_new_xorb_for_upload(xorb).await?; Ok(())":
        raise TranslateError("register_new_xorb: body changed (record in the session shard, then hand to the upload path)")
    up = si.fn_body("upload_and_register_session_shards")
    for p_ in [".upload_shard(&shard_prefix, &si.shard_hash, false, &data, &salt) .await?;", "while let Some(jh) = shard_uploads.join_next().await { jh??; }"]:
        if p_ not in up:
            raise TranslateError("upload_and_register_session_shards changed: %r" % p_)
    # the session's shards are whatever lies in the session directory after the final flush: files flushed on the way (size
    # target reached inside add_cas_block / add_file_reconstruction_info) and the last one alike (seed C16-r3m2)
    if not re.match(r"self\.session_shard_manager\.flush\(\)\.await\?; let shard_list = consolidate_shards_in_directory\(self\.session_shard_manager\.shard_directory\(\), \*MDB_SHARD_MIN_TARGET_SIZE\)\?; let mut shard_uploads = JoinSet::<Result<\(\)>>::new\(\); let shard_bytes_uploaded = Arc::new\(AtomicUsize::new\(0\)\); for si in shard_list \{", up.strip()):
        raise TranslateError("upload_and_register_session_shards: no longer flush, then scan the session directory, then upload every shard found")
    if "let dry_run = self.dry_run;" not in up or "if dry_run { return Ok(()); }" not in up or not up.index("if dry_run { return Ok(()); }") < up.index(".upload_shard("):
        raise TranslateError("upload_and_register_session_shards: a dry run no longer stops before the shard is uploaded and cached")
    # whatever the store answers to a successful upload (synced now / held already), the shard goes on to the cache
    m = re.search(r"shard_client \.upload_shard\(&shard_prefix, &si\.shard_hash, false, &data, &salt\) \.await\?; drop\(upload_permit\); info!\([^;]*\); let new_shard_path = si\.export_with_expiration\(", up)
    if not m:
        raise TranslateError("upload_and_register_session_shards: the steps between the shard upload and its move to the cache changed")
    if not up.index(".upload_shard(") < up.index("si.export_with_expiration("):
        raise TranslateError("upload_and_register_session_shards: a shard is moved to the cache before its upload succeeded")
    out.append("Definition shard_upload_errors_propagated : bool := true.\n")
    return "".join(out), {x.path: x.digest for x in (us, si, di)}


def gen_ManagerFacts():
    """Facts and pins for ShardFileManager's bookkeeping of registered shard files (C05/C11/C18, Model/Manager.v)."""
    fm = Src(os.path.join(REPO, "mdb_shard/src/shard_file_manager.rs"))
    cs = Src(os.path.join(REPO, "mdb_shard/src/constants.rs"))
    sf = Src(os.path.join(REPO, "mdb_shard/src/shard_format.rs"))
    out = [PRELUDE]
    m = cs.one(r"\bref CHUNK_INDEX_TABLE_MAX_SIZE\s*:\s*usize\s*=\s*([^;]+);", "CHUNK_INDEX_TABLE_MAX_SIZE")
    out.append("Definition chunk_index_table_max_size : N := %s.\n" % ExprTr({}).tr(m.group(1)))
    # the element stored per truncated hash
    fm.pin("struct ChunkCacheElement { cas_start_index: u32, cas_chunk_offset: u16, shard_index: u16, }", "ChunkCacheElement")
    fm.pin("struct KeyedShardCollection { hmac_key: HMACKey, shard_list: Vec<Arc<MDBShardFile>>, chunk_lookup: HashMap<u64, ChunkCacheElement>, }", "KeyedShardCollection")
    nb = fm.fn_body("new", 1)
    if "shard_collections: vec![KeyedShardCollection::new(HMACKey::default())], collection_by_key: HashMap::from([(HMACKey::default(), 0)])," not in nb:
        raise TranslateError("ShardBookkeeper::new: the unkeyed collection is no longer created first")
    rg = fm.fn_body("register_shards")
    seq = ["let mut new_shards = Vec::from(new_shards);", "new_shards.sort_by(|s1, s2| s2.last_modified_time.cmp(&s1.last_modified_time));", "for s in new_shards {",
           "if sbkp_lg.shard_lookup_by_shard_hash.contains_key(&s.shard_hash) { continue; }",
           "let shard_hmac_key = s.shard.metadata.chunk_hash_hmac_key;",
           "let n_current_collections = sbkp_lg.shard_collections.len();",
           "let shard_col_index: usize = *sbkp_lg.collection_by_key.entry(shard_hmac_key).or_insert(n_current_collections);",
           "if shard_col_index == n_current_collections { sbkp_lg.shard_collections.push(KeyedShardCollection::new(shard_hmac_key)); }",
           "let update_chunk_lookup = sbkp_lg.total_indexed_chunks < *CHUNK_INDEX_TABLE_MAX_SIZE;",
           "let shard_col = &mut sbkp_lg.shard_collections[shard_col_index];",
           "shard_index = shard_col.shard_list.len();",
           "shard_col.shard_list.push(s.clone());",
           "let old_chunk_lookup_size = shard_col.chunk_lookup.len();",
           "if update_chunk_lookup { let insert_hashes = s.read_all_truncated_hashes()?;",
           "for (h, (cas_start_index, cas_chunk_offset)) in insert_hashes { if cas_chunk_offset > u16::MAX as u32 { continue; }",
           "let cas_chunk_offset = cas_chunk_offset as u16;",
           "shard_col.chunk_lookup.insert( h, ChunkCacheElement { cas_start_index, cas_chunk_offset, shard_index: shard_index as u16, }, );",
           "sbkp_lg .shard_lookup_by_shard_hash .insert(s.shard_hash, (shard_col_index, shard_index));"]
    at = 0
    for p_ in seq:
        k = rg.find(p_, at)
        if k < 0:
            raise TranslateError("register_shards: statement missing or out of order: %r" % p_)
        at = k + len(p_)
    if rg.count("chunk_lookup.insert(") != 1 or rg.count("total_indexed_chunks") != 2 or rg.count("shard_list.push(") != 1:
        raise TranslateError("register_shards: the index or the counter is touched in another place")
    exact = ("num_inserted_chunks = shard_col.chunk_lookup.len() - old_chunk_lookup_size;" in rg
             and "sbkp_lg.total_indexed_chunks += num_inserted_chunks;" in rg)
    whole = re.search(r"total_indexed_chunks \+= insert_hashes\.len\(\)|num_inserted_chunks = insert_hashes\.len\(\)", rg) is not None
    if exact == whole:
        raise TranslateError("register_shards: cannot tell what total_indexed_chunks is advanced by")
    out.append("Definition index_counts_inserted_entries : bool := %s.\n" % ("true" if exact else "false"))
    # the routed query: the in-memory shard first, then every collection in order, under the collection's key
    q = fm.fn_body("chunk_hash_dedup_query")
    body = ("{ let lg = self.current_state.read().await; let ret = lg.chunk_hash_dedup_query(query_hashes); if ret.is_some() { return Ok(ret); } } "
            "let shard_lg = self.shard_bookkeeper.read().await; for shard_col in shard_lg.shard_collections.iter() { let query_hash = { "
            "if shard_col.hmac_key == HMACKey::default() { truncate_hash(&query_hashes[0]) } else { truncate_hash(&query_hashes[0].hmac(shard_col.hmac_key)) } }; "
            "if let Some(cce) = shard_col.chunk_lookup.get(&query_hash) { let si = &shard_col.shard_list[cce.shard_index as usize]; "
            "if let Some((count, fdse)) = si.chunk_hash_dedup_query_direct(query_hashes, cce.cas_start_index, cce.cas_chunk_offset as u32)? { "
            "return Ok(Some((count, fdse))); } } } Ok(None)")
    if q.strip() != body:
        raise TranslateError("ShardFileManager::chunk_hash_dedup_query: body changed")
    # flush: the in-memory shard is written, replaced by an empty one, and the file is registered
    fl = fm.fn_body("flush")
    for p_ in ["if lg.is_empty() { return Ok(None); }", "new_shard_path = lg.write_to_directory(&self.shard_directory)?; *lg = MDBInMemoryShard::default();",
               "self.register_shards(&[MDBShardFile::load_from_file(&new_shard_path)?]).await?;"]:
        if p_ not in fl:
            raise TranslateError("ShardFileManager::flush changed: %r" % p_)
    if not fl.index("write_to_directory") < fl.index("self.register_shards("):
        raise TranslateError("flush: order changed")
    ac = fm.fn_body("add_cas_block")
    if ac.strip() != ("let mut lg = self.current_state.write().await; lg.add_cas_block(cas_block_contents)?; "
                      "if lg.shard_file_size() >= self.target_shard_min_size { drop(lg); self.flush().await?; } Ok(())"):
        raise TranslateError("ShardFileManager::add_cas_block: body changed")
    # what a shard file contributes: its chunk table, or a walk over the CAS section when it carries none
    rt = sf.fn_body("read_all_truncated_hashes")
    for p_ in ["if self.metadata.chunk_lookup_num_entry != 0 {", "for _ in 0..self.metadata.chunk_lookup_num_entry { ret.push((read_u64(reader)?, (read_u32(reader)?, read_u32(reader)?))); }",
               "ret.push((truncate_hash(&chunk.chunk_hash), (cas_index, chunk_index)));", "cas_index += 1 + cas_header.num_entries;"]:
        if p_ not in rt:
            raise TranslateError("read_all_truncated_hashes changed: %r" % p_)
    return "".join(out), {x.path: x.digest for x in (fm, cs, sf)}


GROUPS = {
    "GearTable": gen_GearTable,
    "ChunkConsts": gen_ChunkConsts,
    "HashConsts": gen_HashConsts,
    "ShardLayout": gen_ShardLayout,
    "ShardFacts": gen_ShardFacts,
    "XorbLayout": gen_XorbLayout,
    "DedupFacts": gen_DedupFacts,
    "CacheFacts": gen_CacheFacts,
    "CrashFacts": gen_CrashFacts,
    "SfFacts": gen_SfFacts,
    "ReconFacts": gen_ReconFacts,
    "UploadFacts": gen_UploadFacts,
    "ManagerFacts": gen_ManagerFacts,
}
