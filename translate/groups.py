"""Translation groups: each returns (coq_text, {source_path: sha256})."""
import os
import re

from rx import REPO, ExprTr, Src, TranslateError, find_registry, rust_int

PRELUDE = "From Coq Require Import NArith Bool List.\nImport ListNotations.\nOpen Scope N_scope.\n\n"


def cc_const(src, name):
    """Value of `ref NAME: ty = [release_fixed(]expr[)];` inside configurable_constants!."""
    m = src.one(r"\bref %s\s*:\s*\w+\s*=\s*(release_fixed\()?([^;]+?)\)?\s*;" % re.escape(name), "constant " + name)
    expr = m.group(2)
    if m.group(1) is None and expr.count("(") != expr.count(")"):
        expr = expr + ")"
    return rust_int(expr)


def plain_const(src, name):
    m = src.one(r"\bconst %s\s*:\s*[\w:<>\[\]; ]+?\s*=\s*([^;]+);" % re.escape(name), "const " + name)
    return m.group(1).strip()


# ---------------------------------------------------------------------------
def gen_GearTable():
    d = find_registry("gearhash-0.1.3")
    t = Src(os.path.join(d, "src", "table.rs"))
    sc = Src(os.path.join(d, "src", "scalar.rs"))
    lib = Src(os.path.join(d, "src", "lib.rs"))
    m = t.one(r"pub static DEFAULT_TABLE\s*:\s*Table\s*=\s*\[([^\]]*)\]", "DEFAULT_TABLE")
    vals = [v.strip() for v in m.group(1).split(",") if v.strip()]
    if len(vals) != 256:
        raise TranslateError("gear table has %d entries" % len(vals))
    ints = [rust_int(v) for v in vals]
    # the update rule's shape is pinned (its behaviour, incl. the SIMD paths, is tied by the correspondence)
    sc.pin("*hash = (*hash << 1).wrapping_add(table[*b as usize]);", "gear scalar update rule")
    sc.pin("if *hash & mask == 0 { return Some(i + 1); }", "gear scalar match rule")
    lib.pin("Self { table, hash: 0 }", "gear initial hash")
    out = [PRELUDE, "Definition gear (b : N) : N :=\n  match b with\n"]
    for i, v in enumerate(ints):
        out.append("  | %d => 0x%016x\n" % (i, v))
    out.append("  | _ => 0\n  end.\n")
    return "".join(out), {t.path: t.digest, sc.path: sc.digest, lib.path: lib.digest}


def gen_ChunkConsts():
    c = Src(os.path.join(REPO, "deduplication/src/constants.rs"))
    k = Src(os.path.join(REPO, "deduplication/src/chunking.rs"))
    out = [PRELUDE]
    for name in ["TARGET_CHUNK_SIZE", "MINIMUM_CHUNK_DIVISOR", "MAXIMUM_CHUNK_MULTIPLIER", "MAX_XORB_BYTES", "MAX_XORB_CHUNKS"]:
        out.append("Definition %s : N := %d.\n" % (name, cc_const(c, name)))
    body_new = k.fn_body("new")
    body_next = k.fn_body("next")
    hw = re.search(r"const HASH_WINDOW_SIZE\s*:\s*usize\s*=\s*(\d+)\s*;", body_next)
    if not hw:
        raise TranslateError("HASH_WINDOW_SIZE not found in Chunker::next")
    out.append("Definition HASH_WINDOW_SIZE : N := %s.\n\n" % hw.group(1))

    # --- Chunker::new: derived parameters and the assertions, translated
    env = {"target_chunk_size": "target", "*MINIMUM_CHUNK_DIVISOR": "MINIMUM_CHUNK_DIVISOR", "MINIMUM_CHUNK_DIVISOR": "MINIMUM_CHUNK_DIVISOR",
           "*MAXIMUM_CHUNK_MULTIPLIER": "MAXIMUM_CHUNK_MULTIPLIER", "MAXIMUM_CHUNK_MULTIPLIER": "MAXIMUM_CHUNK_MULTIPLIER",
           "maximum_chunk": "maximum_chunk", "minimum_chunk": "minimum_chunk", "u32::MAX": "4294967295"}
    tr = ExprTr(env)
    m = re.search(r"let minimum_chunk = ([^;]+);", body_new)
    if not m:
        raise TranslateError("minimum_chunk definition not found")
    out.append("Definition chunker_minimum (target : N) : N := %s.\n" % tr.tr(m.group(1)))
    m = re.search(r"let maximum_chunk = ([^;]+);", body_new)
    if not m:
        raise TranslateError("maximum_chunk definition not found")
    out.append("Definition chunker_maximum (target : N) : N := %s.\n" % tr.tr(m.group(1)))
    # mask: pinned shape  (target-1) as u64  <<  leading_zeros
    for lit in ["let mask = (target_chunk_size - 1) as u64;", "let mask = mask << mask.leading_zeros();"]:
        if re.sub(r"\s+", " ", lit) not in body_new:
            raise TranslateError("mask construction changed: %r not found" % lit)
    out.append("Definition chunker_mask (target : N) : N := N.shiftl (target - 1) (64 - N.size (target - 1)).\n")
    # assertions
    asserts = re.findall(r"assert!\(([^;]+)\);", body_new)
    aeq = re.findall(r"assert_eq!\(([^;]+)\);", body_new)
    if aeq != ["target_chunk_size.count_ones(), 1"]:
        raise TranslateError("Chunker::new assert_eq! set changed: %r" % aeq)
    if len(asserts) != 3:
        raise TranslateError("Chunker::new assert! set changed: %r" % asserts)
    conds = []
    for a in asserts:
        a = a.replace("u32::MAX as usize", "u32::MAX")
        conds.append(tr.tr(a))
    out.append("Definition chunker_new_asserts (target minimum_chunk maximum_chunk : N) : bool :=\n  %s.\n\n" % " && ".join(conds))

    # --- Chunker::next: the four guard expressions
    env2 = {"self.cur_chunk_len": "cur_chunk_len", "HASH_WINDOW_SIZE": "HASH_WINDOW_SIZE", "self.minimum_chunk": "minimum_chunk",
            "self.maximum_chunk": "maximum_chunk", "n_bytes": "n_bytes", "consume_len": "consume_len",
            "bytes_to_next_boundary": "bytes_to_next_boundary"}
    tr2 = ExprTr(env2)
    m = re.search(r"if n_bytes != 0 \{ if ([^{]+) \{ let max_advance = min\(([^,]+), ([^)]+)\);", body_next)
    if not m:
        raise TranslateError("skip-ahead branch of Chunker::next not found")
    out.append("Definition next_skip_cond (cur_chunk_len minimum_chunk : N) : bool := %s.\n" % tr2.tr(m.group(1)))
    out.append("Definition next_skip_amount (cur_chunk_len minimum_chunk : N) : N := %s.\n" % tr2.tr(m.group(2)))
    out.append("Definition next_skip_avail (n_bytes consume_len : N) : N := %s.\n" % tr2.tr(m.group(3)))
    if "consume_len += max_advance; self.cur_chunk_len += max_advance;" not in body_next:
        raise TranslateError("skip-ahead bookkeeping changed")
    m = re.search(r"let read_end = n_bytes\.min\(([^;]+)\);", body_next)
    if not m:
        raise TranslateError("read_end clamp not found")
    out.append("Definition next_read_end (n_bytes consume_len maximum_chunk cur_chunk_len : N) : N := N.min n_bytes %s.\n" % tr2.tr(m.group(1)))
    m = re.search(r"\} if ([^{}]+) \{ bytes_to_next_boundary = ([^;]+); create_chunk = true; \} self\.cur_chunk_len \+=", body_next)
    if not m:
        raise TranslateError("forced-cut branch not found")
    out.append("Definition next_force_cond (bytes_to_next_boundary cur_chunk_len maximum_chunk : N) : bool := %s.\n" % tr2.tr(m.group(1)))
    out.append("Definition next_force_amount (maximum_chunk cur_chunk_len : N) : N := %s.\n" % tr2.tr(m.group(2)))
    # pinned statements whose order/shape the hand model transcribes
    pins = [
        "if let Some(boundary) = self.hash.next_match(&data[consume_len..read_end], self.mask) { bytes_to_next_boundary = boundary; create_chunk = true; } else { bytes_to_next_boundary = read_end - consume_len; }",
        "self.cur_chunk_len += bytes_to_next_boundary; consume_len += bytes_to_next_boundary; self.chunkbuf.extend_from_slice(&data[0..consume_len]);",
        "if create_chunk || (is_final && !self.chunkbuf.is_empty()) {",
        "hash: compute_data_hash(&self.chunkbuf[..]), data: std::mem::take(&mut self.chunkbuf).into(),",
        "self.cur_chunk_len = 0; self.hash.set_hash(0); (Some(chunk), consume_len) } else { (None, consume_len) }",
    ]
    for p in pins:
        if p not in body_next:
            raise TranslateError("Chunker::next statement changed: %r" % p)
    nb = k.fn_body("next_block")
    for p in ["if pos == data.len() { return ret; }", "let (maybe_chunk, bytes_consumed) = self.next(&data[pos..], is_final);",
              "if let Some(chunk) = maybe_chunk { ret.push(chunk); } pos += bytes_consumed;"]:
        if p not in nb:
            raise TranslateError("Chunker::next_block statement changed: %r" % p)
    if "self.next(&[], true).0" not in k.fn_body("finish"):
        raise TranslateError("Chunker::finish changed")
    return "".join(out), {c.path: c.digest, k.path: k.digest}


def byte_array_const(src, name):
    m = src.one(r"\bconst %s\s*:\s*\[u8;\s*32\]\s*=\s*\[([^\]]*)\]" % re.escape(name), "key " + name)
    vals = [int(v) for v in m.group(1).replace(" ", "").split(",") if v]
    if len(vals) != 32 or any(v < 0 or v > 255 for v in vals):
        raise TranslateError("%s is not 32 bytes" % name)
    return vals


def gen_HashConsts():
    dh = Src(os.path.join(REPO, "merklehash/src/data_hash.rs"))
    cv = Src(os.path.join(REPO, "mdb_shard/src/chunk_verification.rs"))
    mc = Src(os.path.join(REPO, "merkledb/src/constants.rs"))
    im = Src(os.path.join(REPO, "merkledb/src/internal_methods.rs"))
    mn = Src(os.path.join(REPO, "merkledb/src/merklenode.rs"))
    ag = Src(os.path.join(REPO, "merkledb/src/aggregate_hashes.rs"))
    mm = Src(os.path.join(REPO, "merkledb/src/merklememdb.rs"))
    out = [PRELUDE]
    for name, src in [("DATA_KEY", dh), ("INTERNAL_NODE_HASH", dh), ("VERIFICATION_KEY", cv)]:
        out.append("Definition %s : list N := [%s].\n" % (name, "; ".join(str(v) for v in byte_array_const(src, name))))
    bf = rust_int(plain_const(mc, "MEAN_TREE_BRANCHING_FACTOR"))
    out.append("Definition MEAN_TREE_BRANCHING_FACTOR : N := %d.\n" % bf)
    for nm in ["TARGET_CDC_CHUNK_SIZE", "MAXIMUM_CHUNK_MULTIPLIER"]:
        out.append("Definition MERKLEDB_%s : N := %d.\n" % (nm, rust_int(plain_const(mc, nm))))
    # cut rule of merge_one_level
    body = im.fn_body("merge_one_level")
    m = re.search(r"let num_children_so_far = idx - cur_children_start_idx; (?:#\[[^\]]*\] )?if (.+?) \{ let parent_node = node_from_children\(db, &nodes\[cur_children_start_idx\.\.=idx\], cur_children_total_len\);", body)
    if not m:
        raise TranslateError("cut rule of merge_one_level not found")
    cond = m.group(1).replace("test_hash[3]", "test_hash_3").replace("(MEAN_TREE_BRANCHING_FACTOR as usize)", "MEAN_TREE_BRANCHING_FACTOR")
    tr = ExprTr({"num_children_so_far": "num_children_so_far", "test_hash_3": "test_hash_3", "MEAN_TREE_BRANCHING_FACTOR": "MEAN_TREE_BRANCHING_FACTOR",
                 "idx": "idx", "total_children": "total_children"})
    out.append("Definition merkle_cut (num_children_so_far test_hash_3 idx total_children : N) : bool :=\n  %s.\n" % tr.tr(cond))
    for p in ["cur_children_total_len += node.len(); let test_hash = node.hash();", "cur_children_total_len = 0; cur_children_start_idx = idx + 1;"]:
        if p not in body:
            raise TranslateError("merge_one_level bookkeeping changed: %r" % p)
    mb = im.fn_body("merge")
    for p in ["while nodes.len() > 1 {", "let (parent_of_node, mut parents) = merge_one_level(db, &nodes);", "nodes = std::mem::take(&mut parents);", "nodes[0].clone()"]:
        if p not in mb:
            raise TranslateError("merge changed: %r" % p)
    # child text format and key use
    mn.pin('writeln!(buf, "{:x} : {}", node.hash(), node.len()).unwrap();', "child text format")
    mn.pin("compute_internal_node_hash(buf.as_bytes())", "interior hash")
    dh.pin('format!("{:016x}{:016x}{:016x}{:016x}", self.0[0], self.0[1], self.0[2], self.0[3])', "hex format")
    dh.pin("let digest = blake3::keyed_hash(&DATA_KEY, slice);", "data hash key")
    dh.pin("let digest = blake3::keyed_hash(&INTERNAL_NODE_HASH, slice);", "internal hash key")
    dh.pin("Self::from(*blake3::keyed_hash(&key.into(), self.as_bytes()).as_bytes())", "hmac")
    dh.pin("self[3] % rhs", "Rem uses word 3")
    cv.pin("let range_hash = blake3::keyed_hash(&VERIFICATION_KEY, combined.as_slice());", "range hash")
    ag.pin("let salted_hash = blake3::keyed_hash(salt, hash.as_bytes());", "salt")
    ag.pin("if chunks.is_empty() { return MerkleHash::default(); }", "empty cas list", count=1)
    ag.pin("if chunks.is_empty() { return Ok(MerkleHash::default()); }", "empty file list", count=1)
    mm.pin("ret.hashdb.insert(MerkleHash::default(), 0);", "node 0 is the zero hash")
    # HashedWrite::write: does it hash the whole buffer before the (possibly short) inner write?
    wb = dh.fn_body("write")
    if wb.strip() == "self.hasher.update(buf); self.writer.write(buf)":
        fact = "true"
    elif re.fullmatch(r"let (\w+) = self\.writer\.write\(buf\)\?; self\.hasher\.update\(&buf\[\.\.\1\]\); Ok\(\1\)", wb.strip()):
        fact = "false"
    else:
        raise TranslateError("HashedWrite::write has an unrecognised shape: %r" % wb.strip())
    out.append("Definition hashed_write_hashes_whole_buffer : bool := %s.\n" % fact)
    return "".join(out), {x.path: x.digest for x in (dh, cv, mc, im, mn, ag, mm)}


GROUPS = {
    "GearTable": gen_GearTable,
    "ChunkConsts": gen_ChunkConsts,
    "HashConsts": gen_HashConsts,
}
