"""Small fact-extraction kit: anchored regexes over Rust sources, a precedence-climbing
translator for a Rust integer/boolean expression subset into Gallina over N, and
write-if-changed output.  Everything fails closed: a missing anchor raises TranslateError,
which the caller turns into exit status 2 ("obligation broken: the source no longer has
the shape the model was written against")."""
import hashlib
import os
import re


class TranslateError(Exception):
    pass


REPO = os.environ.get("XV_REPO", "/repo")


def find_registry(crate_dir):
    base = os.path.expanduser("~/.cargo/registry/src")
    for d in sorted(os.listdir(base)):
        p = os.path.join(base, d, crate_dir)
        if os.path.isdir(p):
            return p
    raise TranslateError("registry crate %s not found" % crate_dir)


class Src:
    def __init__(self, path):
        self.path = path
        try:
            with open(path, "r", encoding="utf-8") as f:
                self.text = f.read()
        except OSError as e:
            raise TranslateError("cannot read %s: %s" % (path, e))
        self.digest = hashlib.sha256(self.text.encode()).hexdigest()
        # comment-stripped view used for all matching (line comments and block comments)
        t = re.sub(r"/\*.*?\*/", " ", self.text, flags=re.S)
        t = re.sub(r"//[^\n]*", "", t)
        self.code = t
        self.flat = re.sub(r"\s+", " ", t)

    def one(self, pattern, what, flags=0):
        """Exactly one match of pattern in the whitespace-flattened code."""
        ms = list(re.finditer(pattern, self.flat, flags))
        if len(ms) != 1:
            raise TranslateError("%s: expected exactly one match for %s (%r), found %d" % (self.path, what, pattern, len(ms)))
        return ms[0]

    def pin(self, literal, what, count=1):
        """The flattened code must contain this literal text (whitespace-normalised) exactly `count` times."""
        lit = re.sub(r"\s+", " ", literal.strip())
        n = self.flat.count(lit)
        if n != count:
            raise TranslateError("%s: pinned text for %s occurs %d times (expected %d): %r" % (self.path, what, n, count, lit))
        return True

    def fn_body(self, name, nth=0):
        """Body (between braces) of the nth `fn name` in the flattened code."""
        ms = list(re.finditer(r"\bfn\s+%s\b" % re.escape(name), self.flat))
        if len(ms) <= nth:
            raise TranslateError("%s: fn %s (#%d) not found" % (self.path, name, nth))
        i = self.flat.find("{", ms[nth].end())
        # skip generics/where: find the first '{' at paren depth 0
        depth = 0
        j = ms[nth].end()
        while j < len(self.flat):
            c = self.flat[j]
            if c in "(<[":
                depth += 1 if c != "<" else 0
            elif c in ")]":
                depth -= 1
            elif c == "{" and depth == 0:
                i = j
                break
            elif c == ";" and depth == 0:
                raise TranslateError("%s: fn %s has no body" % (self.path, name))
            j += 1
        depth = 0
        k = i
        while k < len(self.flat):
            if self.flat[k] == "{":
                depth += 1
            elif self.flat[k] == "}":
                depth -= 1
                if depth == 0:
                    return self.flat[i + 1:k]
            k += 1
        raise TranslateError("%s: unbalanced braces in fn %s" % (self.path, name))


# ---------------------------------------------------------------------------
# Rust expression subset -> Gallina (N_scope, booleans)

TOK = re.compile(r"\s*(?:(0x[0-9a-fA-F_]+|\d[\d_]*)(?:usize|u64|u32|u16|u8|i32|i64)?|([A-Za-z_][A-Za-z0-9_]*(?:(?:\.|::)[A-Za-z_][A-Za-z0-9_]*)*(?:\(\))?)|(<<|>>|<=|>=|==|!=|&&|\|\||[-+*/%<>()!&|*]))")


def tokenize(s):
    out = []
    i = 0
    s = s.strip()
    while i < len(s):
        m = TOK.match(s, i)
        if not m or m.end() == i:
            raise TranslateError("cannot tokenize expression at %r" % s[i:i + 30])
        if m.group(1) is not None:
            out.append(("num", m.group(1).replace("_", "")))
        elif m.group(2) is not None:
            out.append(("id", m.group(2)))
        else:
            out.append(("op", m.group(3)))
        i = m.end()
        while i < len(s) and s[i].isspace():
            i += 1
    return out


PREC = {"||": 1, "&&": 2, "==": 3, "!=": 3, "<": 3, "<=": 3, ">": 3, ">=": 3, "|": 4, "&": 5, "<<": 6, ">>": 6,
        "+": 7, "-": 7, "*": 8, "/": 8, "%": 8}


class ExprTr:
    """env maps Rust identifiers/paths (e.g. 'self.cur_chunk_len', '*MINIMUM_CHUNK_DIVISOR') to Gallina names."""

    def __init__(self, env):
        self.env = env

    def tr(self, s):
        self.toks = tokenize(s)
        self.pos = 0
        r = self.expr(0)
        if self.pos != len(self.toks):
            raise TranslateError("trailing tokens in expression %r" % s)
        return r

    def peek(self):
        return self.toks[self.pos] if self.pos < len(self.toks) else (None, None)

    def atom(self):
        k, v = self.peek()
        if k == "num":
            self.pos += 1
            return "%s" % (v if not v.startswith("0x") else v)
        if k == "id":
            self.pos += 1
            if v == "as":
                raise TranslateError("unexpected 'as'")
            if v not in self.env:
                raise TranslateError("identifier %r not in translation environment" % v)
            return self.env[v]
        if k == "op" and v == "(":
            self.pos += 1
            r = self.expr(0)
            if self.peek() != ("op", ")"):
                raise TranslateError("expected )")
            self.pos += 1
            return "(%s)" % r
        if k == "op" and v == "!":
            self.pos += 1
            return "(negb %s)" % self.atom()
        if k == "op" and v == "*":  # deref
            self.pos += 1
            return self.atom()
        raise TranslateError("unexpected token %r" % (v,))

    def expr(self, minp):
        lhs = self.atom()
        while True:
            k, v = self.peek()
            if k == "id" and v == "as":
                # casts between unsigned integer types: value-preserving in the anchored uses (checked by pins)
                self.pos += 2
                continue
            if k != "op" or v not in PREC or PREC[v] < minp:
                return lhs
            self.pos += 1
            rhs = self.expr(PREC[v] + 1)
            lhs = self.binop(v, lhs, rhs)

    @staticmethod
    def binop(op, a, b):
        if op == "||":
            return "(%s || %s)" % (a, b)
        if op == "&&":
            return "(%s && %s)" % (a, b)
        if op == "==":
            return "(%s =? %s)" % (a, b)
        if op == "!=":
            return "(negb (%s =? %s))" % (a, b)
        if op == "<":
            return "(%s <? %s)" % (a, b)
        if op == "<=":
            return "(%s <=? %s)" % (a, b)
        if op == ">":
            return "(%s <? %s)" % (b, a)
        if op == ">=":
            return "(%s <=? %s)" % (b, a)
        if op == "+":
            return "(%s + %s)" % (a, b)
        if op == "-":
            return "(%s - %s)" % (a, b)
        if op == "*":
            return "(%s * %s)" % (a, b)
        if op == "/":
            return "(%s / %s)" % (a, b)
        if op == "%":
            return "(%s mod %s)" % (a, b)
        if op == "<<":
            return "(N.shiftl %s %s)" % (a, b)
        if op == ">>":
            return "(N.shiftr %s %s)" % (a, b)
        if op == "&":
            return "(N.land %s %s)" % (a, b)
        if op == "|":
            return "(N.lor %s %s)" % (a, b)
        raise TranslateError("operator %s" % op)


def rust_int(s):
    """Evaluate a Rust integer constant expression made of literals, + - * / << and parentheses."""
    s = re.sub(r"(?<=[0-9a-fA-F])_(?=[0-9a-fA-F])", "", s)
    s = re.sub(r"\b(\d+|0x[0-9a-fA-F]+)(usize|u64|u32|u16|u8|i32|i64)\b", r"\1", s)
    s = re.sub(r"\bas\s+(usize|u64|u32|u16|u8)\b", "", s)
    s = s.replace("u32::MAX", str(2**32 - 1)).replace("u64::MAX", str(2**64 - 1)).replace("u16::MAX", str(2**16 - 1))
    if not re.fullmatch(r"[0-9a-fA-Fx+\-*/<>() ]+", s):
        raise TranslateError("not a constant integer expression: %r" % s)
    try:
        return int(eval(s.replace("/", "//"), {"__builtins__": {}}, {}))
    except Exception as e:  # noqa
        raise TranslateError("cannot evaluate %r: %s" % (s, e))


def write_if_changed(path, content):
    try:
        with open(path) as f:
            if f.read() == content:
                return False
    except OSError:
        pass
    tmp = path + ".tmp%d" % os.getpid()
    with open(tmp, "w") as f:
        f.write(content)
    os.replace(tmp, path)
    return True
