#!/bin/bash
# Build the framework from files on disk only (offline): regenerate coq/Gen from /repo, build the whole
# Coq development (full .vo), extract the models + OCaml driver, build the Rust harness against /repo.
set -u
cd "$(dirname "$0")"
export CARGO_NET_OFFLINE=true
mkdir -p .cache evidence replay
python3 translate/run.py || echo "setup: translator reported failures (checks will report them)"
( cd coq && coq_makefile -f _CoqProject -o Makefile >/dev/null && timeout 3000 make -j16 2>&1 | grep -v "^COQ\|^Closed under" | tail -20 )
python3 - <<'PY'
import sys
sys.path.insert(0, "lib")
import core
ok, out = core.build_model()
print("setup: model build", "ok" if ok else "FAILED\n" + out[-2000:])
ok, out, xv = core.build_harness("dev")
print("setup: harness build", "ok" if ok else "FAILED\n" + out[-2000:])
PY
exit 0
