"""C10 -- shard union, difference and consolidation neither lose nor invent records."""
import hashlib

from . import shardgen as sg
from .base import BaseProp


def variant(rng, f, flags):
    """the same file (same key and segments) with another flag set"""
    g = dict(f)
    g["flags"] = flags
    g["verif"] = [sg.mk_hash(rng) for _ in f["segs"]] if flags & (1 << 31) else []
    g["ext"] = sg.mk_hash(rng) if flags & (1 << 30) else None
    g["unused"] = rng.choice([0, rng.getrandbits(64)])
    return g


class Prop(BaseProp):
    id = "C10"
    both_profiles = True      # the resegmented-* cases also run in the release-like profile (thorough tier): there K2 shows as lost records
    groups = ["HashConsts", "ShardLayout", "ShardFacts", "CrashFacts"]
    prop_file = "Props/C10.v"
    trusted_base = [
        "directory consolidation (mtime order, file deletion) is checked by the direct oracle on real directories; its grouping loop is not modelled in Coq in this revision",
        "sort_unstable of the chunk table: compared as a key-sorted multiset",
    ]
    assumptions = [
        "inputs are shards produced by the serialiser (sorted sections, well-formed records); the theorems speak of unions that are well-formed shards, which excludes the merge of two records of one file whose segment lists differ (known finding K2, exhibited by the resegmented-* cases)",
    ]
    rule = ("stream c10: pairs of shards (disjoint, overlapping, identical, empty, all 4x4 flag pairs for a shared file, shared 64-bit prefixes, duplicate chunk hashes) through "
            "shard_set_union/shard_set_difference and MDBInMemoryShard::union/difference, output bytes compared with the model and re-read by the oracle; "
            "the same file under two different segment lists for all 4x4 flag pairs (oracle only; known finding K2); stream c10c: sequences of shards (one in five in the streaming form without lookup tables) written to a directory and consolidated under thresholds {0,1,sum,large} (oracle only); "
            "non-trivial = both inputs non-empty; distinct by sha256 of the case text")

    def streams(self, rng, tier):
        big = tier == "thorough"
        cases = []
        FL = [0, 1 << 31, 1 << 30, (1 << 31) | (1 << 30)]

        def add(fa, ca, fb, cb, kind):
            ops = [sg.fmt_cas(c) for c in ca] + [sg.fmt_file(f) for f in fa] + ["=="] + [sg.fmt_cas(c) for c in cb] + [sg.fmt_file(f) for f in fb]
            cases.append({"id": "u%d" % len(cases), "text": " | ".join(ops), "meta": {"kind": kind, "na": len(fa) + len(ca), "nb": len(fb) + len(cb)}})

        for rep in range(3 if big else 1):
            pool = []
            fa, ca = sg.gen_shard(rng, 6, 4, "random", chunk_pool=pool, dup_rate=0.3)
            fb, cb = sg.gen_shard(rng, 5, 5, "random", chunk_pool=pool, dup_rate=0.3)
            add(fa, ca, fb, cb, "disjoint")
            add(fa, ca, [], [], "right-empty")
            add([], [], fb, cb, "left-empty")
            add([], [], [], [], "both-empty")
            add(fa, ca, fa, ca, "identical")
            add(fa, ca, fa[:3] + fb[:2], ca[:2] + cb, "overlap")
            add(fa[:2], ca[:1], fa + fb, ca + cb, "subsumed")
            # all 4x4 flag pairs for one shared file
            base = sg.gen_file(rng, sg.mk_hash(rng), 3, ca, flags=0)
            for x in FL:
                for y in FL:
                    add(fa[:2] + [variant(rng, base, x)], ca[:2], fb[:2] + [variant(rng, base, y)], cb[:1], "flags-%d-%d" % (FL.index(x), FL.index(y)))
            # prefix collisions across the two inputs
            w = rng.getrandbits(64)
            pa = [sg.gen_file(rng, sg.mk_hash(rng, w), 1, ca) for _ in range(3)]
            pb = [sg.gen_file(rng, sg.mk_hash(rng, w), 1, cb) for _ in range(4)]
            add(fa[:2] + pa, ca + [sg.gen_cas(rng, sg.mk_hash(rng, w), 3)], fb[:2] + pb + pa[:1], cb + [sg.gen_cas(rng, sg.mk_hash(rng, w), 2)], "prefix")
            # larger
            fa2, ca2 = sg.gen_shard(rng, 150 if not big else 600, 40, "cluster", max_chunks=6)
            fb2, cb2 = sg.gen_shard(rng, 120 if not big else 500, 30, "cluster", max_chunks=6)
            add(fa2, ca2, fb2 + fa2[::3], cb2 + ca2[::2], "large-overlap")
        # consolidation
        ccases = []
        for i in range(12 if not big else 40):
            n = rng.randrange(1, 7)
            groups = []
            seen = []
            for g in range(n):
                kind = rng.choice(["fresh", "fresh", "fresh", "dup-of-earlier", "empty-ish", "subset"])
                if kind == "dup-of-earlier" and seen:
                    fs, cs = rng.choice(seen)
                elif kind == "subset" and seen:
                    fs0, cs0 = rng.choice(seen)
                    fs, cs = fs0[:1], cs0[:1]
                elif kind == "empty-ish":
                    fs, cs = sg.gen_shard(rng, 1, 0, "random")
                else:
                    fs, cs = sg.gen_shard(rng, rng.randrange(0, 6), rng.randrange(0, 4), "random", max_chunks=5)
                if not fs and not cs:
                    fs, cs = sg.gen_shard(rng, 1, 1, "random", max_chunks=2)
                seen.append((fs, cs))
                # one shard in five lies in the directory in the streaming form: records and footer, no lookup tables (what the
                # minimal reader writes back; a keyed export without its tables has the same shape) -- its table counts are zero,
                # its records are there all the same (seed C10-r4m1)
                groups.append((["nolookup"] if rng.random() < 0.2 else []) + [sg.fmt_cas(c) for c in cs] + [sg.fmt_file(f) for f in fs])
            target = rng.choice([0, 1, 1500, 4000, 1 << 20, 1 << 30])
            ops = []
            for g in groups:
                ops += g + ["=="]
            ops.append("target %d" % target)
            ccases.append({"id": "k%d" % i, "text": " | ".join(ops), "meta": {"kind": "consolidate-%d" % target, "na": n, "nb": 1}})
        for i in range(3):
            gs = []
            for g in range(3):
                fs, cs = sg.gen_shard(rng, rng.randrange(1, 4), rng.randrange(1, 3), "random", max_chunks=4)
                gs.append((["nolookup"] if g == (i % 3) or g == 1 else []) + [sg.fmt_cas(c) for c in cs] + [sg.fmt_file(f) for f in fs])
            ops = []
            for g in gs:
                ops += g + ["=="]
            ops.append("target %d" % (1 << 20))
            ccases.append({"id": "n%d" % i, "text": " | ".join(ops), "meta": {"kind": "consolidate-with-lookup-free-shards", "na": 3, "nb": 1}})
        # interrupted-consolidation histories: A, B, U = A u B (written by an earlier run that did not get to delete
        # A and B), then C; thresholds chosen so that {A,B} re-creates U byte-for-byte and {U,C} is merged next
        def shard_size(fs, cs):
            n = 200 + 48 + 48 + 48
            for f in fs:
                n += 48 * (1 + len(f["segs"]) * (2 if f["flags"] & (1 << 31) else 1) + (1 if f["flags"] & (1 << 30) else 0)) + 12
            for c in cs:
                n += 48 * (1 + len(c["chunks"])) + 12 + 16 * len(c["chunks"])
            return n
        for i in range(6 if not big else 20):
            fa, ca = sg.gen_shard(rng, rng.randrange(1, 4), rng.randrange(1, 3), "random", max_chunks=4)
            fb, cb = sg.gen_shard(rng, rng.randrange(1, 4), rng.randrange(1, 3), "random", max_chunks=4)
            fc, cc = sg.gen_shard(rng, rng.randrange(1, 3), rng.randrange(0, 2), "random", max_chunks=3)
            sa, sb, su, sc = shard_size(fa, ca), shard_size(fb, cb), shard_size(fa + fb, ca + cb), shard_size(fc, cc)
            lo = max(sa + sb, su + sc) + 1
            hi = sa + sb + su
            target = rng.randrange(lo, hi + 1) if lo <= hi else lo
            groups = [(fa, ca), (fb, cb), (fa + fb, ca + cb), (fc, cc)]
            if i % 3 == 2:
                groups.append(sg.gen_shard(rng, 2, 1, "random", max_chunks=2))
            ops = []
            for fs, cs in groups:
                ops += [sg.fmt_cas(c) for c in cs] + [sg.fmt_file(f) for f in fs] + ["=="]
            ops.append("target %d" % target)
            ccases.append({"id": "r%d" % i, "text": " | ".join(ops), "meta": {"kind": "consolidate-after-interrupted-run", "na": len(groups), "nb": 1}})
        # the same file under two different segment lists (the same bytes deduplicated differently by two sessions), all 4x4 flag
        # pairs: known finding K2 (the union grafts one list's verification entries onto the other list's segments; debug builds
        # stop at the assertion that states the assumption).  Oracle only: the failures are reported under K2's marker.
        rcases = []
        for rep in range(2 if big else 1):
            fa, ca = sg.gen_shard(rng, 2, 2, "random", max_chunks=3)
            fb, cb = sg.gen_shard(rng, 2, 1, "random", max_chunks=3)
            key = sg.mk_hash(rng)
            for x in FL:
                for y in FL:
                    na, nb = rng.choice([(2, 3), (3, 1), (1, 2)])
                    ra = variant(rng, sg.gen_file(rng, key, na, ca, flags=0), x)
                    rb = variant(rng, sg.gen_file(rng, key, nb, cb, flags=0), y)
                    ops = [sg.fmt_cas(c) for c in ca] + [sg.fmt_file(f) for f in fa + [ra]] + ["=="] + [sg.fmt_cas(c) for c in cb] + [sg.fmt_file(f) for f in fb + [rb]]
                    rcases.append({"id": "g%d" % len(rcases), "text": " | ".join(ops), "meta": {"kind": "resegmented-%d-%d" % (FL.index(x), FL.index(y)), "na": 3, "nb": 3}})
        return [{"name": "c10", "cases": cases}, {"name": "c10c", "cases": ccases, "model": False}, {"name": "c10", "cases": rcases, "model": False, "both_profiles": True}]

    def known_match(self, failure, known):
        if failure["kind"] != "oracle":
            return None
        lines = [o for o in (failure.get("oracle") or []) if o.startswith("FAIL")]
        for k in known:
            marker = k.get("marker")
            if marker and lines and all(marker in l for l in lines):
                return k["id"]
        return None

    def nontrivial(self, stream, case, io):
        m = case["meta"]
        if m["na"] and m["nb"]:
            return hashlib.sha256(case["text"].encode()).hexdigest()
        return None

    def count(self, counters, stream, case, io):
        k = case["meta"]["kind"]
        k = "pairs_flag_combinations" if k.startswith("flags-") else ("pairs_resegmented" if k.startswith("resegmented-") else "cases_" + k)
        counters[k] = counters.get(k, 0) + 1

    def selfcheck(self, counters, tier):
        return ["only %d of 16 flag pairs ran" % counters.get("pairs_flag_combinations", 0)] if counters.get("pairs_flag_combinations", 0) < 16 else []
