"""Generator of crash-injection cases (stream `crash`, C19)."""
from . import shardgen as sg
from . import cachegen


def shard_ops(rng, nf, nc, pool=None):
    files, cas = sg.gen_shard(rng, nf, nc, "random", max_chunks=4, chunk_pool=pool, dup_rate=0.0)
    return [sg.fmt_cas(c) for c in cas] + [sg.fmt_file(f) for f in files]


def shard_len(ops):
    # the serialised size is not needed exactly: an estimate that orders shards (48 bytes per record line, see C09)
    n = 0
    for o in ops:
        t = o.split(" ")
        if t[0] == "C":
            n += 48 + 48 * (0 if t[5] == "-" else len(t[5].split(",")))
        else:
            n += 48 + 48 * (0 if t[4] == "-" else len(t[4].split(","))) + (48 * (0 if t[5] == "-" else len(t[5].split(",")))) + (48 if t[6] != "-" else 0)
    return n


def gen_case(rng, kind, big=False):
    if kind == "flush":
        groups = [shard_ops(rng, rng.randrange(1, 4), rng.randrange(1, 4)) for _ in range(rng.choice([0, 1, 2]))]
        groups.append(shard_ops(rng, rng.randrange(0, 6 if not big else 60), rng.randrange(1, 5 if not big else 40)))
        return "flush 0 | " + " | == | ".join(" | ".join(g) for g in groups)
    if kind == "consol":
        n = rng.choice([2, 3, 4, 5] if not big else [3, 5, 8])
        pool = []
        groups = [shard_ops(rng, rng.randrange(0, 4), rng.randrange(1, 4), pool) for _ in range(n)]
        sizes = [shard_len(g) + 400 for g in groups]
        # targets: everything merges, nothing merges, cut after some shard, exactly at a boundary
        target = rng.choice([10 ** 9, 1, sum(sizes[:2]) + 1, sum(sizes[:2]), sum(sizes) // 2, sizes[0] + 1, max(sizes) + min(sizes) + 10])
        return "consol %d | " % target + " | == | ".join(" | ".join(g) for g in groups)
    if kind == "xorb":
        return "xorb %d" % rng.choice([0, 1, 3])
    if kind == "cput":
        u = cachegen.Uni(rng, nkeys=rng.choice([1, 2]))
        ops = u.ops()
        mx = u.max_item()
        evict = rng.random() < 0.3
        cap = rng.choice([mx + 5, 2 * mx]) if evict else 1000000
        ranges = []
        for _ in range(rng.choice([0, 1, 3, 6])):
            k = rng.randrange(len(u.keys))
            s, e = u.rand_range(rng, k)
            ops.append("P %d %d %d" % (k, s, e))
            ranges.append((k, s, e))
        # the interrupted put: fresh, subsuming earlier entries, nested in one, or identical to one
        if ranges and rng.random() < 0.7:
            k, s, e = rng.choice(ranges)
            n = len(u.keys[k][1])
            s2, e2 = rng.choice([(0, n), (s, e), (max(0, s - 1), min(n, e + 1)), (s, min(n, e + 2))])
        else:
            k = rng.randrange(len(u.keys))
            s2, e2 = u.rand_range(rng, k)
        return "cput %d | %s | == | P %d %d %d%s" % (cap, " | ".join(ops), k, s2, e2, " | == | evicting" if evict else "")
    raise ValueError(kind)


def streams(rng, tier, kinds=("flush", "consol", "xorb", "cput")):
    big = tier == "thorough"
    cases = []
    for kind in kinds:
        n = {"flush": 4, "consol": 8, "xorb": 2, "cput": 8}[kind] * (5 if big else 1)
        for i in range(n):
            cases.append({"id": "%s%d" % (kind, i), "text": gen_case(rng, kind, big), "meta": {"kind": kind}})
    out = [{"name": "crash", "cases": cases, "prep": "crash", "prep_impl": True, "timeout": 1500, "env": {"XET_VERIF_SKIP_SHARD_INTEGRITY_CHECK": "1"}}]
    if "consol" in kinds:
        # two crashes: the operation is run again on what the first crash left, and interrupted again at every call
        # (quadratic in the number of calls: small directories that merge completely)
        two = []
        for i in range(2 if not big else 8):
            pool = []
            groups = [shard_ops(rng, rng.randrange(0, 3), rng.randrange(1, 3), pool) for _ in range(rng.choice([2, 3]))]
            two.append({"id": "twice%d" % i, "text": "consol %d | " % (10 ** 9) + " | == | ".join(" | ".join(g) for g in groups), "meta": {"kind": "consol2"}})
        out.append({"name": "crash", "cases": two, "prep": "crash", "prep_impl": True, "timeout": 1500,
                    "env": {"XET_VERIF_SKIP_SHARD_INTEGRITY_CHECK": "1", "XV_CRASH_TWO_LEVEL": "1"}})
    return out
