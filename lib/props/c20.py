"""C20 -- singleflight runs one task per key and every caller gets its outcome."""
import hashlib

from .base import BaseProp


def gen_case(rng, big=False):
    nc = rng.choice([2, 3, 4, 6] if not big else [3, 5, 8])
    nk = rng.choice([1, 1, 2, 3])
    ops = []
    arrived, finished = [], set()
    order = list(range(nc))
    pending = list(order)
    while pending or any(c not in finished for c in arrived):
        r = rng.random()
        if pending and r < 0.45:
            c = pending.pop(0)
            ops.append("A %d k%d" % (c, rng.randrange(nk)))
            arrived.append(c)
        elif r < 0.75 and any(c not in finished for c in arrived):
            c = rng.choice([c for c in arrived if c not in finished])
            o = rng.choice(["v", "v", "e", "p"])
            ops.append("F %d %s" % (c, "e %d" % rng.randrange(1, 9) if o == "e" else o))
            finished.add(c)
        else:
            ops.append("Y %d" % rng.choice([1, 1, 2, 4]))
    ops.append("Y 3")
    return " | ".join(ops)


def gen_burst(rng, big=False):
    """Many callers arrive at once on one or two keys; the tasks finish on their own right away: the completion races with
    the registration of the waiters.  Repeated on the multi-thread runtime."""
    nc = rng.choice([4, 6, 8])
    nk = rng.choice([1, 1, 2])
    ops = ["X %d" % (60 if not big else 400)]
    for c in range(nc):
        ops.append("A %d k%d auto:%s" % (c, rng.randrange(nk), rng.choice(["v", "v", "v", "e3", "p"])))
        if rng.random() < 0.2:
            ops.append("Y 1")
    ops.append("Y 2")
    return " | ".join(ops)


class Prop(BaseProp):
    id = "C20"
    groups = ["SfFacts"]
    prop_file = "Props/C20.v"
    trusted_base = [
        "tokio's Notify (a Notified future created before notify_waiters is woken by it), JoinHandle, the task scheduler and parking_lot's RwLock are modelled by their documented contracts (atomic lock sections, wake-up of every registered waiter); they are exercised, not verified",
        "the model's atomic actions are the lock sections of Group::work; an interleaving inside one lock section does not exist in the implementation either",
    ]
    assumptions = [
        "no caller future is cancelled (dropped) before it returns: the property quantifies over arrival times and task outcomes, not over cancellation",
        "progress is stated as: a caller that has not returned is never stuck (some internal step is enabled) unless its task still runs; that the runtime eventually schedules enabled steps (fairness) is the runtime's contract",
    ]
    rule = ("stream sf: scripts of 2-8 callers over 1-3 keys arriving before, while and after the owning task runs, each task released by the script with a value, an error or a panic; "
            "the real Group::work runs the script on a current-thread and on a 3-worker runtime with gated task futures; the real-time log (arrive / task start / task end / return) must be accepted by the model "
            "(a search over the model's internal steps finds a run that produces exactly these observations) and is judged by direct oracles: owner flag <=> own task executed, every result is the outcome of an "
            "executed task of the same key whose flight overlaps the call, tasks of one key never overlap, no caller is still waiting 3 s after every task was released; "
            "non-trivial = at least two callers share a key; distinct by sha256 of the case text")

    def streams(self, rng, tier):
        big = tier == "thorough"
        n = 40 if not big else 400
        cases = [{"id": "sf%d" % i, "text": gen_case(rng, big), "meta": {}} for i in range(n)]
        cases += [{"id": "burst%d" % i, "text": gen_burst(rng, big), "meta": {}} for i in range(8 if not big else 40)]
        # wide flights: as many callers on one key as the u16 waiter statistic of Call can count, one fewer and one more
        # (oracle only: the model has no such counter, and its theorems hold for any number of callers)
        wide = [{"id": "wide%d" % n, "text": "W %d k0 | Q | F 0 v | Y 3" % n, "meta": {"model_may_be_silent": True}} for n in ([65536, 65537, 65535] if not big else [65536, 65537, 65535, 131072, 65538])]
        # back-to-back calls of a key's only caller while other keys keep the group's map contended (8 workers): a call made after
        # the owner of a finished flight has returned starts a new flight
        wide += [{"id": "b2b%d" % i, "text": "B %d %d %d" % t, "meta": {"model_may_be_silent": True}} for i, t in enumerate([(4, 8, 3000), (8, 8, 2000)] if not big else [(4, 8, 20000), (8, 8, 20000), (2, 16, 20000), (8, 0, 5000)])]
        return [{"name": "sf", "cases": cases, "prep": "sf", "prep_impl": True, "timeout": 900, "panic_ok": False},
                {"name": "sf", "cases": wide, "model": False, "timeout": 900, "panic_ok": False}]

    def nontrivial(self, stream, case, io):
        keys = [o.split()[2] for o in case["text"].split(" | ") if o.startswith("A ")]
        if len(keys) > len(set(keys)):
            return hashlib.sha256(case["text"].encode()).hexdigest()
        return None

    def count(self, counters, stream, case, io):
        t = case["text"]
        counters["callers"] = counters.get("callers", 0) + t.count("A ")
        counters["tasks_failing"] = counters.get("tasks_failing", 0) + t.count(" e ")
        counters["tasks_panicking"] = counters.get("tasks_panicking", 0) + t.count(" p")
        counters["runs_accepted_by_model"] = counters.get("runs_accepted_by_model", 0) + sum(1 for o in io if o.endswith("accepted"))

    def selfcheck(self, counters, tier):
        return ["counter %s is zero" % k for k in ["callers", "tasks_failing", "tasks_panicking", "runs_accepted_by_model"] if counters.get(k, 0) == 0]
