"""Generator for stream mgr: scripts against the shard manager's index of registered shard files.

Shards never repeat a chunk hash (nor a 64-bit prefix) within themselves: the manager's table then has one candidate per
shard and the answer is determined by the registration order alone.  Across shards chunks are shared, some under another
key, and some chunks of different shards share their 64-bit prefix on purpose."""
from . import shardgen


def gen_case(rng, cap, tgt=64 * 1024 * 1024, adds=False, big=False, many=False):
    # many: many small shards and a cap that the number of chunks told stays below, so that every unambiguous chunk must be found
    nsh = rng.choice([2, 3, 4] if not big else [3, 5, 7]) if not many else rng.choice([6, 7, 8])
    pool = []          # chunk hashes used so far (for sharing across shards)
    prefixes = []      # first words used so far
    shards = []
    keys = [shardgen.mk_hash(rng).hex() for _ in range(2)]
    for s in range(nsh):
        blocks = []
        used = set()
        for _ in range(rng.choice([1, 2, 3]) if not many else 1):
            chunks = []
            pos = 0
            style = rng.choice(["sum", "zero", "any"])
            for _ in range(rng.choice([1, 2, 3, 5, 8]) if not many else rng.choice([2, 3, 4])):
                r = rng.random()
                if pool and r < 0.3:
                    ch = rng.choice(pool)                       # a chunk another shard holds as well
                elif prefixes and r < 0.4:
                    ch = shardgen.mk_hash(rng, rng.choice(prefixes))   # another chunk with the 64-bit prefix of an earlier one
                else:
                    ch = shardgen.mk_hash(rng)
                if ch[:8] in used:
                    continue
                used.add(ch[:8])
                ln = rng.choice([1, 100, 8192, 65536, rng.randrange(1, 131073)])
                chunks.append((ch, ln, shardgen.start_of(rng, style, pos), 0))
                pos += ln
            if chunks:
                blocks.append({"hash": shardgen.mk_hash(rng), "flags": rng.choice([0, 0, 5]), "nbytes": pos & 0xFFFFFFFF, "ndisk": pos & 0xFFFFFFFF, "chunks": chunks})
        if not blocks:
            continue
        for b in blocks:
            for c in b["chunks"]:
                pool.append(c[0])
                prefixes.append(int.from_bytes(c[0][:8], "little"))
        key = rng.choice([None, None, keys[0], keys[1]]) if not many else rng.choice([None, None, None, keys[0]])
        shards.append((blocks, key))
    ops = ["cap %d" % cap, "tgt %d" % tgt]
    for blocks, key in shards:
        ops += [shardgen.fmt_cas(b) for b in blocks]
        if key:
            ops.append("key %s %d" % (key, rng.choice([7, 7, 3, 6])))
        # the file's modification time (few distinct values: ties are kept in argument order)
        ops.append("mt %d" % rng.choice([1000, 2000, 2000, 3000, 4000]))
        ops.append("==")
    order = list(range(len(shards)))
    rng.shuffle(order)
    added = []          # blocks handed to the manager itself
    added_used = set()  # their chunk prefixes: unique among added blocks (a flushed file's table is sorted unstably)

    def new_block():
        chunks = []
        pos = 0
        style = rng.choice(["sum", "zero", "any"])
        for _ in range(rng.choice([1, 2, 3, 5]) if not many else rng.choice([1, 2])):
            r = rng.random()
            if pool and r < 0.25:
                ch = rng.choice(pool)                                  # a chunk a shard file holds as well
            elif prefixes and r < 0.35:
                ch = shardgen.mk_hash(rng, rng.choice(prefixes))       # shares its first 64 bits with a chunk of a shard file
            else:
                ch = shardgen.mk_hash(rng)
            if ch[:8] in added_used:
                continue
            added_used.add(ch[:8])
            ln = rng.choice([1, 100, 8192, rng.randrange(1, 131073)])
            chunks.append((ch, ln, shardgen.start_of(rng, style, pos), 0))
            pos += ln
        if not chunks:
            return None
        b = {"hash": shardgen.mk_hash(rng), "flags": 0, "nbytes": pos & 0xFFFFFFFF, "ndisk": pos & 0xFFFFFFFF, "chunks": chunks}
        added.append(b)
        return "A" + shardgen.fmt_cas(b)[1:]

    def query():
        src = rng.random()
        if added and src < (0.5 if adds else 0.0):
            b = rng.choice(added)
        else:
            blocks, _ = rng.choice(shards)
            b = rng.choice(blocks)
        n = len(b["chunks"])
        s = rng.randrange(n)
        e = rng.randrange(s + 1, n + 1)
        qs = [c[0] for c in b["chunks"][s:e]]
        r = rng.random()
        if r < 0.25:
            qs.append(shardgen.mk_hash(rng))
        elif r < 0.4:
            qs.append(rng.choice(pool))
        elif r < 0.5:
            qs = [shardgen.mk_hash(rng)] + qs
        return "qd " + ",".join(h.hex() for h in qs)

    # some shards are registered together in one call: the code then orders them from the newest to the oldest modification
    # time (a stable sort), which decides whose entry a shared chunk keeps
    batch_of = {}
    if len(order) >= 2 and rng.random() < 0.6:
        a = rng.randrange(0, len(order) - 1)
        b = rng.randrange(a + 2, len(order) + 1)
        members = [order[a + j] for j in range(b - a)]
        # the call may name files that are registered already (a directory refresh hands over everything it finds): they are
        # skipped, wherever the sort puts them
        if a > 0 and rng.random() < 0.6:
            for x in rng.sample(order[:a], min(a, rng.choice([1, 2]))):
                members.insert(rng.randrange(len(members) + 1), x)
        batch_of[order[a]] = "RB " + ",".join(str(x) for x in members)
        for j in range(a + 1, b):
            batch_of[order[j]] = None
    for k, i in enumerate(order):
        if i in batch_of:
            if batch_of[i] is None:
                continue
            ops.append(batch_of[i])
        else:
            ops.append("R %d" % i)
        if rng.random() < 0.15 and i not in batch_of:
            ops.append("R %d" % rng.choice([x for x in order[:k + 1] if x not in batch_of] or [i]))       # registering a known shard again changes nothing
        if adds:
            for _ in range(rng.choice([0, 1, 2, 3]) if not many else rng.choice([0, 1])):
                b = new_block()
                if b:
                    ops.append(b)
                if rng.random() < 0.3:
                    ops.append("FL")
                if rng.random() < 0.5:
                    ops.append(query())
        for _ in range(rng.choice([0, 1, 2, 3])):
            ops.append(query())
    if adds and rng.random() < 0.5:
        ops.append("FL")
    for _ in range(rng.choice([2, 4, 6])):
        ops.append(query())
    if many:
        # every block is asked for once at the end
        for blocks, _ in shards:
            for b in blocks:
                ops.append("qd " + b["chunks"][rng.randrange(len(b["chunks"]))][0].hex())
        for b in added:
            ops.append("qd " + b["chunks"][0][0].hex())
    return " | ".join(ops)


DEFAULT_TGT = 64 * 1024 * 1024


def streams(rng, tier):
    big = tier == "thorough"
    out = []
    # the cap and the size target are process-wide constants: one stream per pair (cap never reached / reached after a few
    # shards / at once; target never reached / reached every two or three blocks)
    for cap, tgt, adds, many in ((2000, DEFAULT_TGT, False, False), (9, DEFAULT_TGT, False, False), (1, DEFAULT_TGT, False, False),
                                 (2000, DEFAULT_TGT, True, False), (2000, 900, True, False), (12, 700, True, False), (48, 700, True, True)):
        n = 8 if not big else 60
        cases = [{"id": "g%d_%d_%d_%d" % (cap, tgt % 1000, adds, i), "text": gen_case(rng, cap, tgt, adds, big, many), "meta": {"cap": cap, "tgt": tgt}} for i in range(n)]
        out.append({"name": "mgr", "cases": cases, "env": {"HF_XET_CHUNK_INDEX_TABLE_MAX_SIZE": str(cap), "HF_XET_MDB_SHARD_MIN_TARGET_SIZE": str(tgt),
                                                           "XET_VERIF_SKIP_SHARD_INTEGRITY_CHECK": "1"}, "timeout": 900})
    return out


def nontrivial(case, io):
    import hashlib
    if any(o.startswith("qd") and " n=" in o for o in io):
        return hashlib.sha256(case["text"].encode()).hexdigest()
    return None


def count(counters, case, io):
    counters["mgr_cases"] = counters.get("mgr_cases", 0) + 1
    counters["mgr_queries_answered"] = counters.get("mgr_queries_answered", 0) + sum(1 for o in io if o.startswith("qd") and " n=" in o)
    counters["mgr_queries_unanswered"] = counters.get("mgr_queries_unanswered", 0) + sum(1 for o in io if o.startswith("qd") and o.endswith("none"))
    t = case["text"]
    counters["mgr_registrations"] = counters.get("mgr_registrations", 0) + t.count("| R ")
    counters["mgr_batch_registrations"] = counters.get("mgr_batch_registrations", 0) + t.count("| RB ")
    counters["mgr_blocks_added"] = counters.get("mgr_blocks_added", 0) + t.count("| A ")
    counters["mgr_flushes"] = counters.get("mgr_flushes", 0) + t.count("| FL")


SELFCHECK = ["mgr_queries_answered", "mgr_queries_unanswered", "mgr_registrations", "mgr_batch_registrations", "mgr_blocks_added", "mgr_flushes"]


def big_streams(rng):
    """Xorbs of more than 65536 chunks (another client's; this one cuts at 8192): the manager's index holds 16-bit chunk
    offsets, so chunks past offset 65535 are not indexed -- a query that starts there may go unanswered but must never be
    answered wrongly.  Oracle only (the executable model sorts by insertion; 70000 entries are out of its reach)."""
    from . import shardgen
    cases = []
    for i, n in enumerate([65530, 65537, 66000, 70000]):
        seed = rng.getrandbits(40)
        h = shardgen.mk_hash(rng).hex()
        small = {"hash": shardgen.mk_hash(rng), "flags": 0, "nbytes": 300, "ndisk": 300,
                 "chunks": [(shardgen.mk_hash(rng), 100, 100 * k, 0) for k in range(3)]}
        qs = []
        for a, ln in [(0, 3), (65534, 1), (65535, 1), (65535, 3), (65536, 1), (65536, 2), (n - 2, 2), (n - 1, 1), (40000, 5)]:
            if a + ln <= n:
                qs.append("qbig %d %d %d" % (seed, a, ln))
        if i % 2 == 0:
            ops = ["cap 100000000", "tgt %d" % DEFAULT_TGT, "Cbig %s %d %d" % (h, n, seed), shardgen.fmt_cas(small), "==", "R 0"] + qs
        else:
            ops = ["cap 100000000", "tgt %d" % DEFAULT_TGT, shardgen.fmt_cas(small), "==", "R 0", "Abig %s %d %d" % (h, n, seed)] + qs[:4] + ["FL"] + qs
        cases.append({"id": "big%d" % i, "text": " | ".join(ops), "meta": {"cap": 100000000, "tgt": DEFAULT_TGT, "big": n}})
    return [{"name": "mgr", "cases": cases, "model": False, "timeout": 1500,
             "env": {"HF_XET_CHUNK_INDEX_TABLE_MAX_SIZE": "100000000", "HF_XET_MDB_SHARD_MIN_TARGET_SIZE": str(DEFAULT_TGT), "XET_VERIF_SKIP_SHARD_INTEGRITY_CHECK": "1"}}]
