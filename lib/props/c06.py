"""C06 -- content hashes are stable pure functions and all code paths agree."""
import hashlib

from .base import BaseProp, hexs


def rbytes(rng, n):
    return bytes(rng.getrandbits(8) for _ in range(n))


def node_list(rng, n, mode):
    """n (hash,len) entries; mode controls byte 24 (word 3's low byte, which drives the cut rule)."""
    out = []
    for i in range(n):
        h = bytearray(rbytes(rng, 32))
        if mode == "nocut":
            h[24] |= 1
        elif mode == "allcut":
            h[24] &= 0xFC
        elif mode.startswith("every"):
            k = int(mode[5:])
            if i % k == k - 1:
                h[24] &= 0xFC
            else:
                h[24] |= 1
        out.append((bytes(h), rng.choice([0, 1, 100, 65536, 131072, rng.randrange(1, 1 << 20)])))
    return out


def fmt_nodes(ns):
    return ",".join("%s:%d" % (h.hex(), l) for h, l in ns) if ns else "-"


class Prop(BaseProp):
    id = "C06"
    groups = ["HashConsts", "XorbLayout"]
    prop_file = "Props/C06.v"
    trusted_base = [
        "blake3 crate == Model/Blake3.v (independent Gallina implementation of the published construction; tied by the correspondence, not proved)",
        "base64 crate URL_SAFE_NO_PAD semantics as modelled (strict trailing bits, no padding); tied by the correspondence",
        "collision-freeness of keyed BLAKE3 is NOT assumed: injectivity theorems conclude with an explicit collision",
    ]
    assumptions = [
        'injectivity theorems: collision freedom is a hypothesis about the finitely many texts hashed while aggregating the two lists (NoCollision) and about the 8-byte lookup keys of the nodes of each tree (KeysOk); hashes are 32 byte values',
        "MerkleMemDB modelled as hash -> first length stored (hash-consing); node attributes and ids are not modelled (they do not reach any hash)",
        "HashedWrite modelled over a scripted inner writer (accepted byte count or error per call)",
    ]
    rule = ("one hash operation per case (data/internal/hmac/range/cas+validator/file/inequality of mutated lists/hex,base64 encode+decode/"
            "HashedWrite scripts); non-trivial = input of at least 2 bytes or 2 list entries; distinct by sha256 of the case text")

    def streams(self, rng, tier):
        big = tier == "thorough"
        cases = []

        def add(text, kind):
            cases.append({"id": "h%d" % len(cases), "text": text, "meta": {"kind": kind}})

        for sz in [0, 1, 2, 63, 64, 65, 127, 128, 1023, 1024, 1025, 2047, 2048, 2049, 3072, 3073, 4096, 5000, 7168, 8192, 8193, 9300] + \
                  [rng.randrange(0, 12000) for _ in range(20 if big else 6)] + ([131072, 70000] if big else []):
            add("dh %s" % hexs(rbytes(rng, sz)), "dh")
        for sz in [0, 1, 64, 1024, 1025, 3000]:
            add("ih %s" % hexs(rbytes(rng, sz)), "ih")
        for _ in range(6):
            add("hmac %s %s" % (rbytes(rng, 32).hex(), rbytes(rng, 32).hex()), "hmac")
        add("hmac %s %s" % (rbytes(rng, 32).hex(), (b"\0" * 32).hex()), "hmac")
        for n in [0, 1, 2, 3, 17, 40]:
            add("range %s" % (",".join(rbytes(rng, 32).hex() for _ in range(n)) or "-"), "range")
        sizes = [1, 2, 3, 4, 5, 8, 9, 10, 17, 30, 64, 100, 257] + ([1000, 5000] if big else [400])
        modes = ["random", "nocut", "allcut", "every2", "every3", "every5"]
        for i, n in enumerate(sizes):
            for mode in (modes if n <= 64 or big else [modes[i % len(modes)]]):
                ns = node_list(rng, n, mode)
                add("cas %s" % fmt_nodes(ns), "cas")
            ns = node_list(rng, n, "random")
            add("file %s %s" % (rbytes(rng, 32).hex(), fmt_nodes(ns)), "file")
        add("cas -", "cas")
        add("file %s -" % rbytes(rng, 32).hex(), "file")
        # repeated hashes with different lengths (first length wins), zero hash as a leaf, extreme lengths
        for _ in range(6):
            ns = node_list(rng, rng.randrange(2, 30), "random")
            j = rng.randrange(len(ns))
            ns.insert(rng.randrange(len(ns) + 1), (ns[j][0], ns[j][1] + 7))
            ns.insert(rng.randrange(len(ns) + 1), (ns[j][0], 0))
            add("cas %s" % fmt_nodes(ns), "cas-repeated")
        ns = node_list(rng, 5, "random")
        ns[2] = (b"\0" * 32, 55)
        add("cas %s" % fmt_nodes(ns), "cas-zero-leaf")
        for ext in [(1 << 32) - 1, 1 << 32, 1 << 62]:
            ns = node_list(rng, 7, "random")
            ns[3] = (ns[3][0], ext)
            add("cas %s" % fmt_nodes(ns), "cas-extreme")
        # inequality under mutation (lists with pairwise distinct hashes => length-consistent)
        for _ in range(40 if big else 16):
            ns = node_list(rng, rng.randrange(2, 40), rng.choice(modes))
            ms = list(ns)
            kind = rng.choice(["change", "swap", "insert", "drop", "len"])
            j = rng.randrange(len(ms))
            if kind == "change":
                h = bytearray(ms[j][0])
                h[rng.randrange(32)] ^= 1 << rng.randrange(8)
                ms[j] = (bytes(h), ms[j][1])
            elif kind == "swap":
                k = (j + 1) % len(ms)
                ms[j], ms[k] = ms[k], ms[j]
            elif kind == "insert":
                ms.insert(j, (rbytes(rng, 32), 10))
            elif kind == "drop":
                del ms[j]
            else:
                ms[j] = (ms[j][0], ms[j][1] + 1)
            if len(ms) == 1 and len(ns) == 1:
                continue
            if ms != ns:
                add("casneq %s %s" % (fmt_nodes(ns), fmt_nodes(ms)), "casneq-" + kind)
        # text forms
        for h in [b"\0" * 32, b"\xff" * 32, bytes(range(32))] + [rbytes(rng, 32) for _ in range(8)]:
            add("hexof %s" % h.hex(), "hexof")
        good = rbytes(rng, 32).hex()
        for s in [good, good.upper(), good[:30] + good[30:].upper(), good[:63], good + "0", "g" + good[1:], good[:10] + " " + good[11:], "+" + good[1:],
                  "", good[:62] + "zz", "0" * 64, "f" * 64, "F" * 64]:
            add("fromhex %s" % hexs(s.encode()), "fromhex")
        import base64 as b64
        g64 = b64.urlsafe_b64encode(rbytes(rng, 32)).decode().rstrip("=")
        lastbad = g64[:-1] + "B" if g64[-1] != "B" else g64[:-1] + "C"
        for s in [g64, g64 + "=", g64[:-1], g64 + "A", g64[:10] + "+" + g64[11:], g64[:10] + "/" + g64[11:], lastbad, "", "A" * 43, "_" * 42 + "w", "-" * 43,
                  b64.urlsafe_b64encode(rbytes(rng, 31)).decode().rstrip("="), b64.urlsafe_b64encode(rbytes(rng, 33)).decode().rstrip("=")]:
            add("fromb64 %s" % hexs(s.encode()), "fromb64")
        # HashedWrite over full, short and failing writers
        for i in range(24 if big else 12):
            calls = []
            for _ in range(rng.randrange(1, 6)):
                buf = rbytes(rng, rng.choice([0, 1, 5, 64, 100, 1500]))
                mode = ["full", "short", "mixed", "error"][i % 4]
                if mode == "full" or not buf:
                    acc = str(len(buf))
                elif mode == "short":
                    acc = str(rng.randrange(1, len(buf) + 1))
                elif mode == "mixed":
                    acc = str(rng.choice([len(buf), rng.randrange(1, len(buf) + 1)]))
                else:
                    acc = rng.choice(["e", str(len(buf))])
                calls.append("%s:%s" % (hexs(buf), acc))
            add("hw %s" % ";".join(calls), "hw-" + ["full", "short", "mixed", "error"][i % 4])
        # both xorb validators recompute the hash from the chunks: a serialized xorb whose footer attests another hash (and is
        # validated against that hash), dropped / duplicated chunks, a wrong claimed hash -- all four entry points of stream c08z
        from .c07 import gen_chunk
        vcases = []
        for i in range(3 if not big else 10):
            chunks = [gen_chunk(rng, rng.choice(["random", "text", "zeros"]), rng.choice([1, 7, 64, 300])) for _ in range(rng.choice([1, 2, 3, 5]))]
            for sch in ["none", rng.choice(["lz4", "bg4", "auto"])]:
                for mut, extra in [("id", ""), ("id", "otherhash"), ("sethash", "otherhash"), ("sethash", ""), ("dropchunk", ""), ("dupchunk", "")]:
                    vcases.append({"id": "xv%d" % len(vcases), "text": "%s %s %s%s" % (sch, ",".join(hexs(c) for c in chunks), mut, (" " + extra) if extra else ""),
                                   "meta": {"kind": "validators-" + mut}})
        return [{"name": "c06", "cases": cases}, {"name": "c08z", "cases": vcases, "model": False, "panic_ok": True}]

    def nontrivial(self, stream, case, io):
        if stream == "c08z":
            return hashlib.sha256(case["text"].encode()).hexdigest()
        t = case["text"]
        if len(t) > 12 and ("," in t or len(t.split(" ", 1)[1]) >= 4):
            return hashlib.sha256(t.encode()).hexdigest()
        return None

    def count(self, counters, stream, case, io):
        k = "cases_" + case["meta"]["kind"]
        counters[k] = counters.get(k, 0) + 1

    def known_match(self, failure, known):
        return None
