"""C11 -- data uploaded once is deduplicated by every later session"""
import hashlib

from . import ddgen, mgrgen, sessgen
from .base import BaseProp


class Prop(BaseProp):
    id = "C11"
    groups = ["HashConsts", "ShardLayout", "ChunkConsts", "GearTable", "DedupFacts", "ShardFacts", "ManagerFacts", "UploadFacts"]
    prop_file = "Props/C11.v"
    trusted_base = [
        "real sessions (FileUploadSession, SingleFileCleaner, ShardFileManager, LocalClient, FileDownloader) are judged by an independent oracle in the harness "
        "(own xorb/shard readers, blake3/sha2 called directly); the Coq model covers FileDeduper, DataAggregator and the session's aggregation logic over an oracle data interface",
        "tokio scheduling of concurrently cleaned files: sampled (fp files), covered in the model by the oracle quantifier",
        "Model/Manager.v is hand-written; tied to mdb_shard/src/shard_file_manager.rs by stream mgr (answer-by-answer) and by the ManagerFacts pins (exact bodies of chunk_hash_dedup_query and add_cas_block, statement order of register_shards, flush; fact index_counts_inserted_entries regenerated)",
        "the manager model gives every flushed shard file a fresh identity (the real identity is the hash of its bytes, which include the creation time); a register_shards call with several files is the sequence of single registrations in descending order of modification time (stable; Manager.batch_order, scripts set the times explicitly)",
    ]
    assumptions = [
        "configurations: HF_XET_TARGET_CHUNK_SIZE/MAX_XORB_BYTES/MAX_XORB_CHUNKS/NRANGES/INGESTION_BLOCK_SIZE scaled down through the code's own environment overrides (dev profile), one process per configuration",
        "the crate's debug-only shard self-check is switched off through the xet_verif hook (see DESIGN.md, observations)",
        "C11_known_file_stores_nothing / C11_reupload_after_session: AllowAll (fragmentation prevention refuses no answer, e.g. MIN_N_CHUNKS_PER_RANGE = 0); "
        "C11_refusal_stores_known_chunk_again shows the hypothesis is necessary (designed behaviour of DefragPrevention)",
        "C11_added_chunk_found_across_flushes / C11_registered_chunk_found: counter below the cap at the end (b_total < cap), at most 65536 operations, chunk offset <= 65535 in its block, no two different chunk hashes of the collection share their first 64 bits (NoTruncClash), 32-byte hashes, added blocks with one xorb hash are equal",
        "C11_session_shard_covers_its_files: StoreOk (no two xorbs with one hash, no zero xorb hash, distinct 8-byte chunk-hash prefixes, non-empty chunks) and op_ok as for C01; first session on an empty store",
    ]
    rule = ("stream mgr: scripts against a real ShardFileManager (shard files registered one by one, some under keys, blocks added through the manager, explicit flushes and flushes by the size target, "
            "cap on indexed chunks never reached / reached after a few shards / at once) compared answer by answer with the model (Model/Manager.v), every answer judged truthful and, below the cap, "
            "every unambiguous chunk the manager was told about required to be found; stream sess (as C01): every xorb stored by a session must be recorded in its shards; re-uploads in later sessions must not transfer chunk bytes unless fragmentation prevention refused an answer; non-trivial = at least one non-empty file cleaned and a session finalized; distinct by sha256 of the case text")
    use_dd = False

    def streams(self, rng, tier):
        big = tier == "thorough"
        out = []
        if self.use_dd:
            for k, cfg in enumerate(ddgen.CONFIGS):
                cases = [{"id": "d%d_%d" % (k, i), "text": ddgen.gen_case(rng, cfg, big), "meta": {"cfg": k}} for i in range(8 if not big else 40)]
                out.append({"name": "dd", "cases": cases, "env": ddgen.env_of(cfg)})
        out += sessgen.streams(rng, tier)
        skip = {"XET_VERIF_SKIP_SHARD_INTEGRITY_CHECK": "1"}
        # many sessions against one shard cache, with the cap on indexed chunks lowered but never reached: every file must
        # still be found by the session that re-uploads it
        cases = []
        for i in range(2 if not big else 6):
            nid = 1000 * (i + 1)
            ops, recs = [], []
            for s in range(rng.choice([22, 24])):
                nid += 1
                r = "%d:%d" % (nid, rng.randrange(15000, 26000))
                recs.append(r)
                ops += ["S", "f a%d %s all" % (s, r), "E"] + (["M"] if rng.random() < 0.2 else [])
            rng.shuffle(recs)
            for j, r in enumerate(recs):
                ops += ["S", "f b%d %s %s" % (j, r, rng.choice(["all", "4096"])), "E"]
            ops.append("D")
            cases.append({"id": "many%d" % i, "text": " | ".join(ops), "meta": {"cfg": "many"}})
        env = dict(skip)
        env.update({"HF_XET_TARGET_CHUNK_SIZE": "1024", "HF_XET_CHUNK_INDEX_TABLE_MAX_SIZE": "2000"})
        out.append({"name": "sess", "cases": cases, "env": env, "model": False, "timeout": 1200})
        # a session whose shard is flushed in mid-session (tiny shard target) while other files are still being cleaned
        cases = []
        for i in range(3 if not big else 10):
            nid = 5000 * (i + 1)
            recs = []
            ops = ["S"]
            for j in range(rng.choice([10, 14, 16])):
                nid += 1
                r = "%d:%d" % (nid, rng.randrange(40000, 90000))
                recs.append(r)
                ops.append("fp c%d %s %s" % (j, r, rng.choice(["all", "8192", "3000"])))
            ops += ["E", "S"]
            for j, r in enumerate(recs):
                ops.append("f d%d %s all" % (j, r))
            ops += ["E", "D"]
            cases.append({"id": "flush%d" % i, "text": " | ".join(ops), "meta": {"cfg": "flush"}})
        env = dict(skip)
        env.update({"HF_XET_TARGET_CHUNK_SIZE": "1024", "HF_XET_MAX_XORB_BYTES": "16384", "HF_XET_MDB_SHARD_MIN_TARGET_SIZE": "1024"})
        out.append({"name": "sess", "cases": cases, "env": env, "model": False, "timeout": 1200})
        # histories with a session that did not complete: (a) abandoned after its mid-file xorbs reached the store, (b) its shard
        # reached the store but the answer was lost; the retry (which meets xorbs / a shard the store already holds, the latter
        # answered with "exists" as the remote service does) is finalized, and a third session uploads the same content again
        cases = []
        for i in range(3 if not big else 8):
            nid = 9000 * (i + 1)
            nf = rng.choice([1, 2, 3])
            recs = ["%d:%d" % (nid + j, rng.randrange(40000, 90000)) for j in range(nf)]
            kind = ["abandon", "lost", "both"][i % 3]
            first = ["S - lost" if kind == "lost" else "S"] + ["f a%d %s %s" % (j, r, rng.choice(["all", "8192"])) for j, r in enumerate(recs)] + ["E" if kind == "lost" else "X"]
            if kind == "both":
                first += ["S - lost"] + ["f a%d %s all" % (j, r) for j, r in enumerate(recs)] + ["E"]
            second = ["S - exists"] + ["f b%d %s %s" % (j, r, rng.choice(["all", "3000"])) for j, r in enumerate(recs)] + ["E"]
            third = (["M"] if rng.random() < 0.3 else []) + ["S"] + ["f c%d %s %s" % (j, r, rng.choice(["all", "4096"])) for j, r in enumerate(recs)] + ["E", "D"]
            cases.append({"id": "retry%d" % i, "text": " | ".join(first + second + third), "meta": {"cfg": "retry"}})
        env = dict(skip)
        env.update({"HF_XET_TARGET_CHUNK_SIZE": "1024", "HF_XET_MAX_XORB_BYTES": "16384"})
        out.append({"name": "sess", "cases": cases, "env": env, "model": False, "timeout": 1200})
        # the shard manager itself: scripts of register / add / flush / query against the model of its index
        out += mgrgen.streams(rng, tier)
        return out

    def nontrivial(self, stream, case, io):
        if stream == "mgr":
            return mgrgen.nontrivial(case, io)
        if stream == "dd":
            return hashlib.sha256(case["text"].encode()).hexdigest() if case["text"].count(":") >= 5 else None
        if any(o.startswith("E") for o in io) and any(o.startswith("file ") and " size=0 " not in o for o in io):
            return hashlib.sha256(case["text"].encode()).hexdigest()
        return None

    def count(self, counters, stream, case, io):
        if stream == "mgr":
            return mgrgen.count(counters, case, io)
        if stream == "dd":
            counters["dd_cases"] = counters.get("dd_cases", 0) + 1
            return
        counters["sessions"] = counters.get("sessions", 0) + sum(1 for o in io if o.startswith("E"))
        counters["downloads"] = counters.get("downloads", 0) + sum(1 for o in io if o.startswith("D "))
        for o in io:
            if o.startswith("file "):
                counters["files"] = counters.get("files", 0) + 1
                if " dedup=0 " not in o:
                    counters["files_with_dedup"] = counters.get("files_with_dedup", 0) + 1
                if " new=0 " in o and " size=0 " not in o:
                    counters["files_fully_deduplicated"] = counters.get("files_fully_deduplicated", 0) + 1
        counters["reupload_or_repeat_ops"] = counters.get("reupload_or_repeat_ops", 0) + case["text"].count(" fp ")

    def selfcheck(self, counters, tier):
        return ["counter %s is zero" % k for k in ["sessions", "downloads", "files_with_dedup", "files_fully_deduplicated"] + mgrgen.SELFCHECK if counters.get(k, 0) == 0]
