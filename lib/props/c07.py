"""C07 -- xorb serialization round-trips for every chunk range and compression."""
import hashlib
import struct

from .base import BaseProp, hexs


def gen_chunk(rng, kind, n):
    if kind == "random":
        return bytes(rng.getrandbits(8) for _ in range(n))
    if kind == "zeros":
        return b"\0" * n
    if kind == "text":
        words = [b"lorem", b"ipsum", b"dolor", b"sit", b"amet", b"xet", b"core", b"chunk", b" ", b"\n"]
        out = b""
        while len(out) < n:
            out += rng.choice(words) + b" "
        return out[:n]
    if kind == "f32":
        out = b"".join(struct.pack("<f", 1.0 + rng.random() * 0.001) for _ in range(n // 4 + 1))
        return out[:n]
    if kind == "f16ish":
        out = b"".join(bytes([rng.getrandbits(8), 0x3C + rng.randrange(2)]) for _ in range(n // 2 + 1))
        return out[:n]
    if kind == "periodic4":
        pat = bytes(rng.getrandbits(8) for _ in range(4))
        return (pat * (n // 4 + 1))[:n]
    raise ValueError(kind)


class Prop(BaseProp):
    id = "C07"
    groups = ["HashConsts", "XorbLayout"]
    prop_file = "Props/C07.v"
    trusted_base = [
        "lz4_flex frame codec: a parameter (lz4c/lz4d) of the model with the round-trip hypothesis lz4d (lz4c x) = Some x; in the executable model it is a table of "
        "(plaintext, frame) pairs produced by calling lz4_flex directly in the harness (not through xet-core)",
        "CompressionScheme::choose_from_data (BG4Predictor heuristics): an arbitrary oracle in the theorems, supplied per chunk to the executable model",
        "the unsafe pointer writes of bg4 are modelled as explicit index arithmetic (bg4_index); the theorem shows every index is in bounds and regroup . split = id",
    ]
    assumptions = [
        "chunks are non-empty, at most MAXIMUM_CHUNK_SIZE bytes, total below 2^32 (the C15 limits)",
    ]
    rule = ("stream c07: chunk lists (1..40 chunks; lengths covering every residue mod 4, 1 byte, zeros, text, f32/f16-like arrays, random) x schemes none/lz4/bg4/auto; "
            "exact file bytes compared with the model, every requested chunk range (all ranges for small lists) read back through CasObject and through the sync/async/stream "
            "decoders; stream c07big (oracle only): xorbs at the size limits (64 MiB in 512 maximum-size chunks, raw and compressed) serialized, reloaded and read back; stream bg4: split/regroup variants on lengths 0..N (exhaustive in thorough); non-trivial = at least 2 chunks; distinct by sha256 of the case text")

    def streams(self, rng, tier):
        big = tier == "thorough"
        cases = []
        kinds = ["random", "zeros", "text", "f32", "f16ish", "periodic4"]
        schemes = ["none", "lz4", "bg4", "auto"]
        plans = [1, 2, 3, 4, 5, 8, 13, 40] if not big else [1, 2, 3, 4, 5, 8, 13, 40, 100, 200]
        for n in plans:
            for sch in schemes:
                chunks = []
                for j in range(n):
                    ln = rng.choice([1, 2, 3, 4, 5, 6, 7, 8, 63, 64, 65, 100, 257, 1000, rng.randrange(1, 2000)])
                    if big and n <= 40 and rng.random() < 0.02:
                        ln = rng.choice([65536, 131072, 100003])
                    chunks.append(gen_chunk(rng, rng.choice(kinds), ln))
                if n <= 5:
                    ranges = ["%d-%d" % (a, b) for a in range(n + 1) for b in range(n + 2)]
                else:
                    ranges = []
                    for _ in range(12):
                        a = rng.randrange(n)
                        ranges.append("%d-%d" % (a, rng.randrange(a + 1, n + 1)))
                    ranges += ["0-%d" % n, "%d-%d" % (n - 1, n), "0-%d" % (n + 1), "3-3", "5-2"]
                cases.append({"id": "x%d" % len(cases), "text": "%s %s %s" % (sch, ",".join(hexs(c) for c in chunks), ",".join(ranges)),
                              "meta": {"n": n, "scheme": sch}})
        # many tiny chunks: chunk counts around and above the footer reader's pre-allocation clamp (1152) and beyond
        for n, sch in ([(1152, "none"), (1153, "none"), (1500, "lz4")] if not big else [(1152, "none"), (1153, "none"), (1153, "lz4"), (1500, "lz4"), (1300, "none")]):
            chunks = [gen_chunk(rng, "random", rng.choice([1, 1, 2, 3])) for _ in range(n)]
            ranges = ["0-%d" % n, "%d-%d" % (n - 1, n), "1151-1153", "1000-1200", "0-1", "%d-%d" % (n // 2, n // 2 + 3), "0-%d" % (n + 1)]
            cases.append({"id": "x%d" % len(cases), "text": "%s %s %s" % (sch, ",".join(hexs(c) for c in chunks), ",".join(ranges)),
                          "meta": {"n": n, "scheme": sch}})
        bcases = []
        lens = range(0, 70) if not big else range(0, 4100)
        for ln in lens:
            bcases.append({"id": "g%d" % ln, "text": hexs(bytes(rng.getrandbits(8) for _ in range(ln))), "meta": {"n": 2 if ln > 4 else 1, "scheme": "bg4raw"}})
        # xorbs at the size limits (the data is generated in the harness from a seed; oracle only): 64 MiB of incompressible data in
        # maximum-size chunks stored raw (the physical offsets exceed 64 MiB by the chunk headers), the same compressible, and
        # many chunks just below the limit
        gcases = [{"id": "g0", "text": "none 512 131072 %d r" % rng.randrange(1, 1 << 30), "meta": {"n": 512, "scheme": "none"}},
                  {"id": "g1", "text": "auto 512 131072 %d t" % rng.randrange(1, 1 << 30), "meta": {"n": 512, "scheme": "auto"}},
                  {"id": "g2", "text": "lz4 1023 65600 %d r" % rng.randrange(1, 1 << 30), "meta": {"n": 1023, "scheme": "lz4"}}]
        if big:
            gcases += [{"id": "g3", "text": "bg4 512 131072 %d r" % rng.randrange(1, 1 << 30), "meta": {"n": 512, "scheme": "bg4"}},
                       {"id": "g4", "text": "none 8192 8192 %d r" % rng.randrange(1, 1 << 30), "meta": {"n": 8192, "scheme": "none"}}]
        return [{"name": "c07", "cases": cases, "prep": "c07prep", "timeout": 1500 if not big else 3000}, {"name": "bg4", "cases": bcases},
                {"name": "c07big", "cases": gcases, "model": False}]

    def nontrivial(self, stream, case, io):
        if case["meta"]["n"] >= 2:
            return hashlib.sha256(case["text"].encode()).hexdigest()
        return None

    def count(self, counters, stream, case, io):
        k = "cases_scheme_" + case["meta"]["scheme"]
        counters[k] = counters.get(k, 0) + 1
        for o in io:
            if o.startswith("ranges "):
                counters["ranges_read"] = counters.get("ranges_read", 0) + o.count(":") - o.count(":err")
                counters["ranges_refused"] = counters.get("ranges_refused", 0) + o.count(":err")

    def selfcheck(self, counters, tier):
        return ["counter %s is zero" % k for k in ["cases_scheme_auto", "cases_scheme_bg4", "ranges_read", "ranges_refused"] if counters.get(k, 0) == 0]
