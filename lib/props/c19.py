"""C19 -- interrupted writes never leave a partial file under a final name."""
import hashlib

from . import crashgen
from .base import BaseProp


class Prop(BaseProp):
    id = "C19"
    groups = ["CrashFacts", "CacheFacts", "ShardLayout", "HashConsts"]
    prop_file = "Props/C19.v"
    trusted_base = [
        "crash model: a prefix of the operation's file-system calls persists (completed calls persist, no torn or reordered page cache), as the property states; strace (ptrace) delivers SIGKILL at the entry of the chosen call",
        "the file system is modelled per directory as a map from names to contents with create/truncate, append, rename-over and unlink",
        "the records of a merged shard cover those of its inputs: hypothesis of the write-before-delete theorem, supplied at record level by the C10 union theorems and checked on every crash state by the re-open oracle",
    ]
    assumptions = [
        "LMDB files of the local client (global dedup table) are outside the property (it names shards, xorbs and cache items)",
    ]
    rule = ("stream crash: shard flush (0-2 shards already present), consolidation of 2-5 shards under targets that merge all / none / some groups, local xorb put into stores with 0-3 xorbs, "
            "chunk-cache put (fresh, subsuming, nested, identical; with and without eviction): the real operation runs in a child process under strace; (1) its sequence of create / write / rename / unlink "
            "calls on the directory, with temporary and merged names normalised, must equal the effect list of the model's plan; (2) for every file-system call of the operation the child is run again and "
            "killed at the entry of that call, then a fresh process re-opens the directory with the crate's readers: every file under a final name must be complete and consistent with its name "
            "(shard: content hash and parse; xorb: parse and validate against the name; cache item: length and CRC) and every record retrievable before must still be retrievable; "
            "non-trivial = the operation makes at least one file-system effect; distinct by sha256 of the case text")

    def streams(self, rng, tier):
        return crashgen.streams(rng, tier)

    def nontrivial(self, stream, case, io):
        if any(o.startswith("trace ") and len(o) > 7 for o in io):
            return hashlib.sha256(case["text"].encode()).hexdigest()
        return None

    def count(self, counters, stream, case, io):
        k = case["meta"]["kind"]
        counters["ops_" + k] = counters.get("ops_" + k, 0) + 1
        for o in io:
            if o.startswith("trace "):
                counters["effects"] = counters.get("effects", 0) + len(o.split(" ")) - 1
                if " U:" in o:
                    counters["ops_with_unlinks"] = counters.get("ops_with_unlinks", 0) + 1

    def selfcheck(self, counters, tier):
        return ["counter %s is zero" % k for k in ["ops_flush", "ops_consol", "ops_xorb", "ops_cput", "ops_with_unlinks"] if counters.get(k, 0) == 0]
