"""C08 -- xorb validation accepts only hash-consistent objects and never panics."""
import hashlib

from .base import BaseProp, hexs
from .c07 import gen_chunk


class Prop(BaseProp):
    id = "C08"
    groups = ["HashConsts", "XorbLayout"]
    prop_file = "Props/C08.v"
    both_profiles = True
    trusted_base = [
        "lz4_flex: outside the model; mutated compressed payloads are judged by the direct oracle only (stream c08z), uncompressed xorbs by model and oracle (stream c08)",
        "keyed BLAKE3 = Model/Blake3.v (tied by C06); no collision-freeness assumed",
        "allocation is observed through a counting global allocator in the harness (largest single request per call)",
    ]
    assumptions = [
        "categories: accept / reject (format error) / error (I/O or codec error) / PANIC; the property allows reject and error on malformed input",
    ]
    rule = ("valid xorbs (1..12 small chunks) under mutations: identity, every single-bit flip position class in the last 200 bytes and in chunk headers, truncation at many offsets, "
            "inflated/zeroed 32-bit footer fields (0,1,2^24-1,2^31,2^32-1,2^32-2) at every field position, chunk-header length fields, spliced/duplicated/dropped chunks, appended bytes, "
            "footer removed, wrong claimed hash, random strings; four entry points each (seekable validator, streaming validator, footer parser, boundaries-only parser); "
            "non-trivial = mutated input (not identity); distinct by sha256 of the case text")

    def streams(self, rng, tier):
        big = tier == "thorough"
        out = {"c08": [], "c08z": []}

        def add(stream, sch, chunks, mut, extra=""):
            out[stream].append({"id": "%s%d" % ("v" if stream == "c08" else "z", len(out[stream])),
                                "text": "%s %s %s%s" % (sch, ",".join(hexs(c) for c in chunks), mut, (" " + extra) if extra else ""),
                                "meta": {"mut": mut.split(":")[0]}})

        vals = [0, 1, (1 << 24) - 1, 1 << 31, (1 << 32) - 1, (1 << 32) - 2, 7]
        for rep in range(2 if not big else 8):
            n = rng.choice([1, 2, 3, 5, 12])
            chunks = [gen_chunk(rng, rng.choice(["random", "text", "zeros"]), rng.choice([1, 7, 64, 300, 900])) for _ in range(n)]
            flen = 92 + 40 * n + 4
            for stream, sch in [("c08", "none"), ("c08z", rng.choice(["lz4", "bg4", "auto"]))]:
                add(stream, sch, chunks, "id")
                add(stream, sch, chunks, "id", "otherhash")
                # a footer that describes the chunks exactly but records another hash, validated against that other hash -- and
                # against the true one
                add(stream, sch, chunks, "sethash", "otherhash")
                add(stream, sch, chunks, "sethash")
                # the same chunks under a legacy (version 0) footer: accepted for its own hash by both validators, refused for
                # another; then damaged
                add(stream, sch, chunks, "v0")
                add(stream, sch, chunks, "v0", "otherhash")
                v0len = 60 + 36 * n + 4
                for o in rng.sample(range(1, v0len + 8), 6):
                    add(stream, sch, chunks, "v0+flip:%d:%d" % (o, rng.randrange(8)))
                add(stream, sch, chunks, "v0+trunc:%d" % rng.randrange(1, v0len))
                add(stream, sch, chunks, "nofooter")
                add(stream, sch, chunks, "dropchunk")
                add(stream, sch, chunks, "dupchunk")
                # bytes between the last listed chunk and the footer: junk, and a whole chunk the footer does not list
                add(stream, sch, chunks, "gap:00")
                add(stream, sch, chunks, "gap:%s" % hexs(bytes(rng.getrandbits(8) for _ in range(9))))
                add(stream, sch, chunks, "gapchunk")
                add(stream, sch, chunks, "append:00")
                add(stream, sch, chunks, "append:%s" % hexs(bytes(rng.getrandbits(8) for _ in range(9))))
                # bit flips over the footer region and beyond
                offs = list(range(1, min(flen + 40, 200))) if (big or rep == 0) else rng.sample(range(1, flen + 40), 40)
                for o in offs:
                    add(stream, sch, chunks, "flip:%d:%d" % (o, rng.randrange(8)))
                # chunk header bytes of the first two chunks
                for o in range(0, 8):
                    add(stream, sch, chunks, "flipat:%d:%d" % (o, rng.randrange(8)))
                for v in [0, 1, 5, (1 << 24) - 1, 262145, 131073]:
                    add(stream, sch, chunks, "set24:1:%d" % v)
                    add(stream, sch, chunks, "set24:5:%d" % v)
                # two cooperating edits: section version bytes together with the fields they guard
                add(stream, sch, chunks, "flip:%d:0+set32:%d:12345" % (37 + 8 * n, 32 + 4 * n))
                add(stream, sch, chunks, "flip:%d:0+set32:%d:0" % (37 + 8 * n, 32 + 4 * n))
                add(stream, sch, chunks, "flip:%d:0" % (37 + 8 * n))
                add(stream, sch, chunks, "flip:%d:1+set32:%d:7" % (37 + 8 * n, 32 + 4 * n))
                add(stream, sch, chunks, "set32:%d:%d+set32:%d:%d" % (24, 40 + 8 * n + 4, 28, 52 + 40 * n + 4))
                # truncations
                for k in ([1, 2, 3, 4, 5, 8, 16, 20, 24, 28, flen - 1, flen, flen + 1, flen + 9] + [rng.randrange(1, flen + 200) for _ in range(6)]):
                    add(stream, sch, chunks, "trunc:%d" % k)
                for k in [0, 1, 7, 8, 9, 15]:
                    add(stream, sch, chunks, "cut:%d" % k)
                # every 32-bit footer field position (offsets from the end, 4-aligned to the tail fields, plus the counts)
                field_offs = [4, 24, 28, 32, 32 + 8 * n + 4, flen - 40 - 8 - 4 + 4] + [4 * k for k in range(1, 12)]
                for o in sorted(set(field_offs)):
                    for v in (vals if (big or o in (4, 24, 28, 32)) else vals[:4]):
                        add(stream, sch, chunks, "set32:%d:%d" % (o, v))
        for _ in range(20 if not big else 200):
            ln = rng.choice([0, 1, 3, 4, 7, 8, 23, 24, 25, 60, 92, 96, 200, 1000])
            add("c08", "none", [b"x"], "random:%s" % hexs(bytes(rng.getrandbits(8) for _ in range(ln))))
        # random strings that start like a footer
        for _ in range(6):
            add("c08", "none", [b"x"], "random:%s" % hexs(b"XETBLOB" + bytes([rng.choice([0, 1, 2])]) + bytes(rng.getrandbits(8) for _ in range(rng.choice([0, 30, 100])))))
        return [{"name": "c08", "cases": out["c08"], "prep": "c08prep", "both_profiles": True, "panic_ok": True},
                {"name": "c08z", "cases": out["c08z"], "model": False, "both_profiles": True, "panic_ok": True}]

    def nontrivial(self, stream, case, io):
        if case["meta"]["mut"] != "id":
            return hashlib.sha256(case["text"].encode()).hexdigest()
        return None

    def count(self, counters, stream, case, io):
        k = "mut_" + case["meta"]["mut"]
        counters[k] = counters.get(k, 0) + 1
        for o in io:
            for part in o.split(" "):
                if "=" in part:
                    kk = "outcome_" + part
                    counters[kk] = counters.get(kk, 0) + 1

    def selfcheck(self, counters, tier):
        return ["counter %s is zero" % k for k in ["outcome_seek=accept", "outcome_seek=reject", "outcome_seek=error", "outcome_stream=accept", "outcome_stream=reject", "outcome_bnd=reject"]
                if counters.get(k, 0) == 0]

    def known_match(self, failure, known):
        return None
