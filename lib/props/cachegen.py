"""Generator of chunk-cache histories (stream `cache`) shared by C12 and C13 (and read by C19 for its cache part)."""
import base64

PREFIXES = [b"default", b"", "péx".encode(), b"a/b"]


def b64(b):
    return base64.urlsafe_b64encode(b)


def key_buf(rng, group):
    # keys of one group share the first 12 bits of the hash, hence the prefix directory
    h = bytearray(rng.getrandbits(8) for _ in range(32))
    h[0] = (group * 37 + 11) % 256
    h[1] = (h[1] & 0x0F) | (((group * 5 + 3) % 16) << 4)
    return bytes(h) + rng.choice(PREFIXES)


class Uni:
    def __init__(self, rng, nkeys=None):
        self.keys = []
        n = nkeys or rng.choice([1, 2, 3, 4])
        for k in range(n):
            grp = rng.choice([0, 0, 1, 2])
            nch = rng.choice([4, 6, 8, 12])
            self.keys.append((key_buf(rng, grp), [rng.choice([1, 2, 3, 5, 8, 13, 21, 40]) for _ in range(nch)]))

    def ops(self):
        return ["U %s %s" % (kb.hex(), ",".join(map(str, lens))) for kb, lens in self.keys]

    def item_len(self, k, s, e):
        return 4 * (e - s + 2) + sum(self.keys[k][1][s:e])

    def max_item(self):
        return max(self.item_len(k, 0, len(l)) for k, (_, l) in enumerate(self.keys))

    def rand_range(self, rng, k, maxw=None):
        n = len(self.keys[k][1])
        s = rng.randrange(0, n)
        e = rng.randrange(s + 1, n + 1)
        if maxw:
            e = min(e, s + maxw)
        return s, e


def rand_put_get(rng, u, ops, nops, maxw=None, bad=True):
    ranges = []
    for _ in range(nops):
        k = rng.randrange(len(u.keys))
        r = rng.random()
        if r < 0.45 or not ranges:
            s, e = u.rand_range(rng, k, maxw)
            ops.append("P %d %d %d" % (k, s, e))
            ranges.append((k, s, e))
        elif r < 0.85:
            # a get related to a stored range: the range itself, a sub-range, a wider or shifted range
            k, s, e = rng.choice(ranges)
            kind = rng.choice(["same", "sub", "sub", "wider", "shift", "other"])
            n = len(u.keys[k][1])
            if kind == "sub":
                a = rng.randrange(s, e)
                b = rng.randrange(a + 1, e + 1)
                s, e = a, b
            elif kind == "wider":
                e = min(n + 1, e + 1)
                s = max(0, s - rng.choice([0, 1]))
            elif kind == "shift":
                s, e = s + 1, e + 1
            elif kind == "other":
                k = rng.randrange(len(u.keys))
                s, e = u.rand_range(rng, k)
            ops.append("G %d %d %d" % (k, s, e))
        elif bad:
            k, s, e = rng.choice(ranges)
            v = rng.choice(["len", "first", "last", "incr", "range", "data", "data", "lens", "lens"])
            if v == "range":
                ops.append("PB %d %d %d range" % (k, e, s if rng.random() < 0.5 else e))
            else:
                ops.append("PB %d %d %d %s" % (k, s, e, v))
        else:
            k, s, e = rng.choice(ranges)
            ops.append("G %d %d %d" % (k, s, e))
    return ranges


def junk_name(rng, kind):
    if kind == "short":
        return rng.choice([b"a", b"x", b"ab", b"abc", b"zz9"])
    if kind == "nonb64":
        return rng.choice([b"ab$$", b"not base64!", b"tmp.123", b".DS_Store", b"ab cd", b"====", b"A==="])
    if kind == "nonutf8":
        return bytes([0x61, 0x62, 0xff, 0xfe])
    if kind == "long":
        return b"L" * rng.choice([100, 200])
    raise ValueError(kind)


def planted_key_name(rng, base_key, kind):
    """A valid base64 directory name under the prefix directory of base_key (same first 12 bits)."""
    n = {"b3": 3, "b31": 31, "b32": 32, "b33bad": 33, "b40": 40, "b40bad": 40}[kind]
    buf = bytearray(rng.getrandbits(8) for _ in range(n))
    buf[0] = base_key[0]
    buf[1] = (buf[1] & 0x0F) | (base_key[1] & 0xF0)
    if kind.endswith("bad"):
        buf[-1] = 0xFF      # invalid UTF-8 suffix
    elif n > 32:
        for i in range(32, n):
            buf[i] = 0x61 + (buf[i] % 26)
    return b64(bytes(buf))


def item_like_name(rng, kind):
    import struct
    s, e = rng.randrange(0, 5), rng.randrange(5, 9)
    if kind == "rev":
        s, e = e, s
    if kind == "eq":
        e = s
    b = struct.pack("<IIQI", s, e, rng.choice([0, 7, 20, 1 << 40]), rng.getrandbits(32))
    if kind == "b19":
        b = b[:19]
    if kind == "b21":
        b = b + b"\x01"
    return b64(b)


def damage_ops(rng, u, ranges, allow_known):
    ops = []
    for _ in range(rng.choice([1, 1, 2, 3, 5])):
        k = rng.randrange(len(u.keys))
        kind = rng.choice(["flip", "flip", "trunc", "ext", "del", "rn_len", "rn_crc", "rn_junk", "rn_samekey", "rn_wider", "plant1", "plant2", "plant2", "plant3", "plant3"]
                          + (["rn_range", "rn_key", "forge"] if allow_known else []))
        n = rng.randrange(0, 4)
        if kind == "flip":
            width = rng.randrange(1, 33)
            pat = 1 | (1 << (width - 1)) | (rng.getrandbits(32) & ((1 << width) - 1))
            ops.append("DF %d %d %d %d" % (k, n, rng.randrange(0, 4000), pat))
        elif kind == "trunc":
            ops.append("DT %d %d %d" % (k, n, rng.choice([1, 1, 2, 4, 1000])))
        elif kind == "ext":
            ops.append("DX %d %d %d" % (k, n, rng.choice([1, 4, 100])))
        elif kind == "del":
            ops.append("DD %d %d" % (k, n))
        elif kind == "rn_len":
            ops.append("DR %d %d len" % (k, n))
        elif kind == "rn_crc":
            ops.append("DR %d %d crc" % (k, n))
        elif kind == "rn_junk":
            nm = rng.choice([junk_name(rng, "nonb64"), item_like_name(rng, rng.choice(["rev", "eq", "b19", "b21"])), junk_name(rng, "nonutf8")])
            ops.append("DR %d %d junk %s" % (k, n, nm.hex()))
        elif kind == "rn_samekey":
            ops.append("DR %d %d key %d" % (k, n, k))
        elif kind == "rn_range":
            ops.append("DR %d %d range %d" % (k, n, rng.choice([1, 2, 3])))
        elif kind == "rn_wider":
            ops.append("DR %d %d wider %d" % (k, n, rng.choice([1, 2, 5])))
        elif kind == "rn_key":
            ops.append("DR %d %d key %d" % (k, n, rng.randrange(len(u.keys))))
        elif kind == "forge":
            lens = [rng.choice([1, 3, 7]) for _ in range(rng.choice([1, 2, 4, 4, 5]))]
            offs = [0]
            for l in lens:
                offs.append(offs[-1] + l)
            hv = rng.choice(["ok", "ok", "short", "long", "hugecount", "unordered", "unordered"])
            hoffs = list(offs)
            if hv == "unordered" and len(hoffs) >= 4:
                # offsets out of order across a pair boundary: the header must be rejected, never served or sliced
                j = rng.randrange(1, len(hoffs) - 2)
                hoffs[j], hoffs[j + 1] = hoffs[j + 1], hoffs[j]
            if hv == "short":
                hoffs = hoffs[:-1]
            elif hv == "long":
                hoffs = hoffs + [hoffs[-1] + 5]
            import struct
            cnt = len(hoffs) if hv != "hugecount" else 0x00FFFFFF
            content = struct.pack("<I", cnt) + b"".join(struct.pack("<I", o) for o in hoffs) + bytes((7 * i + 1) % 256 for i in range(offs[-1]))
            s = rng.randrange(0, 4)
            ops.append("DV %d %d %d %s" % (k, s, s + len(lens), content.hex()))
        elif kind == "plant1":
            nm = rng.choice([junk_name(rng, "short"), junk_name(rng, "nonb64"), junk_name(rng, "nonutf8"), junk_name(rng, "long")])
            ops.append("DP 1 - %s %s -" % (nm.hex(), rng.choice("fd")))
        elif kind == "plant2":
            parent = rng.choice(["k%d" % k, "k%d" % k, b"zz".hex(), b"Zz".hex()])
            if parent.startswith("k"):
                nm = rng.choice([planted_key_name(rng, u.keys[k][0], rng.choice(["b3", "b31", "b32", "b33bad", "b40", "b40bad"])),
                                 junk_name(rng, "short"), junk_name(rng, "nonb64"), junk_name(rng, "nonutf8"),
                                 b64(u.keys[k][0]).swapcase()[:2] + b64(u.keys[k][0])[2:]])
            else:
                nm = rng.choice([b"zzzz", b"zz", b"z", b"abcd", b64(u.keys[k][0]), junk_name(rng, "nonb64")])
            ops.append("DP 2 %s %s %s -" % (parent, nm.hex(), rng.choice("dddf")))
            if rng.random() < 0.5:
                # something inside the planted directory
                if parent.startswith("k"):
                    pp = b64(u.keys[k][0])[:2]
                else:
                    pp = bytes.fromhex(parent)
                inner = rng.choice([item_like_name(rng, "ok"), item_like_name(rng, "rev"), b"junk"])
                ops.append("DP 3 %s/%s %s f %s" % (pp.hex(), nm.hex(), inner.hex(), bytes(rng.getrandbits(8) for _ in range(rng.choice([0, 7, 20]))).hex() or "-"))
        else:
            nm = rng.choice([item_like_name(rng, rng.choice(["ok", "ok", "rev", "eq", "b19", "b21"])), junk_name(rng, "nonb64"), junk_name(rng, "short"),
                             junk_name(rng, "nonutf8"), b".tmp.safe_file_creator", junk_name(rng, "long")])
            content = bytes(rng.getrandbits(8) for _ in range(rng.choice([0, 1, 7, 20, 64])))
            ops.append("DP 3 k%d %s %s %s" % (k, nm.hex(), rng.choice("fffd"), content.hex() or "-"))
    return ops


def gen_case(rng, kind, big=False, allow_known=False):
    u = Uni(rng, nkeys=rng.choice([1, 2]) if kind == "conc" else None)
    ops = u.ops()
    nops = rng.choice([4, 8, 14]) if not big else rng.choice([10, 25, 50])
    mx = u.max_item()
    if kind == "seq":
        cap = 100000
        ops.append("O %d" % cap)
        rand_put_get(rng, u, ops, nops)
        ops += ["C", "O %d" % cap]
        rand_put_get(rng, u, ops, nops // 2 + 1)
    elif kind == "evict":
        cap = rng.choice([mx, mx + 7, 2 * mx, 3 * mx + 1])
        ops.append("O %d" % cap)
        rand_put_get(rng, u, ops, 2 * nops, bad=False)
        ops += ["C", "O %d" % cap]
        rand_put_get(rng, u, ops, nops, bad=False)
    elif kind == "exactcap":
        # an item whose file is exactly as long as the capacity: it is stored, survives a re-open and is replaced by the next put
        k = rng.randrange(len(u.keys))
        s, e = u.rand_range(rng, k)
        cap = u.item_len(k, s, e)
        ops.append("O %d" % cap)
        ops += ["P %d %d %d" % (k, s, e), "G %d %d %d" % (k, s, e), "C", "O %d" % cap, "G %d %d %d" % (k, s, e)]
        k2 = rng.randrange(len(u.keys))
        s2, e2 = u.rand_range(rng, k2, 2)
        ops += ["P %d %d %d" % (k2, s2, e2), "G %d %d %d" % (k, s, e), "C", "O %d" % cap]
        rand_put_get(rng, u, ops, 3, maxw=2, bad=False)
        # the property's premise: no single item is larger than the capacity
        def fits(o):
            t = o.split()
            return t[0] != "P" or u.item_len(int(t[1]), int(t[2]), int(t[3])) <= cap
        ops = [o if fits(o) else "G" + o[1:] for o in ops]
    elif kind == "capchange":
        cap = rng.choice([3 * mx, 5 * mx])
        ops.append("O %d" % cap)
        rand_put_get(rng, u, ops, 2 * nops, bad=False)
        ops += ["C", "O %d" % rng.choice([mx, mx // 2 + 1, cap // 3 + 1, 10 * mx])]
        rand_put_get(rng, u, ops, nops, bad=False)
    elif kind in ("damage", "known"):
        cap = rng.choice([100000, 100000, 3 * mx])
        ops.append("O %d" % cap)
        ranges = rand_put_get(rng, u, ops, nops, bad=False)
        ops.append("C")
        ops += damage_ops(rng, u, ranges, allow_known=(kind == "known"))
        ops.append("O %d" % cap)
        # read everything that was stored, and the ranges next to it, then store again
        wider = [(int(o.split()[1]), int(o.split()[4])) for o in ops if o.startswith("DR ") and o.split()[3] == "wider"]
        for (k, s, e) in ranges[:8]:
            for (wk, d) in wider:
                if wk == k:
                    # a put of exactly the range a renamed entry now claims
                    ops.append("%s %d %d %d" % (rng.choice(["P", "P", "G"]), k, s, e + d))
            ops.append("G %d %d %d" % (k, s, e))
            if rng.random() < 0.4:
                ops.append("G %d %d %d" % (k, s + 1, e + 1))
            if rng.random() < 0.4:
                ops.append("P %d %d %d" % (k, max(0, s - 1), e + rng.choice([0, 1, 2, 5])))
        rand_put_get(rng, u, ops, nops // 2 + 1)
        if rng.random() < 0.5:
            ops.append("C")
            ops += damage_ops(rng, u, ranges, allow_known=(kind == "known"))
            ops.append("O %d" % cap)
            rand_put_get(rng, u, ops, nops // 2 + 1)
    elif kind == "plantkeys":
        # key-like directories planted next to the real ones, every shape in one case: names that decode to fewer than 32 bytes
        # under their own prefix directory, under a foreign one, with invalid UTF-8 behind the hash, in another letter case
        cap = 100000
        ops.append("O %d" % cap)
        ranges = rand_put_get(rng, u, ops, 4, bad=False)
        ops.append("C")
        k = rng.randrange(len(u.keys))
        for nk in ["b3", "b31", "b32", "b33bad", "b40", "b40bad"]:
            ops.append("DP 2 k%d %s d -" % (k, planted_key_name(rng, u.keys[k][0], nk).hex()))
        for parent, nm in [(b"zz", b"zzzz"), (b"zz", b"zz"), (b"Zz", b"zzzz"), (b"ab", b"abcd"), (b"zz", b"zzzzzzzz")]:
            ops.append("DP 2 %s %s d -" % (parent.hex(), nm.hex()))
        ops.append("O %d" % cap)
        for (kk, a, b) in ranges:
            ops.append("G %d %d %d" % (kk, a, b))
        rand_put_get(rng, u, ops, 3, bad=False)
    elif kind == "dmgcap":
        # every cache file damaged while the cache is closed, then a re-open with a capacity so small that the scan stops early
        # and leaves damaged files untracked: a get misses (or drops the damaged entry), the range is put again, and the next get
        # must return what was put -- never what the damaged file holds
        cap = 100000
        ops.append("O %d" % cap)
        ranges = []
        for _ in range(rng.choice([6, 8, 12])):
            kk = rng.randrange(len(u.keys))
            a, b = u.rand_range(rng, kk, 2)
            if (kk, a, b) not in ranges:
                ranges.append((kk, a, b))
                ops.append("P %d %d %d" % (kk, a, b))
        ops.append("C")
        for kk in range(len(u.keys)):
            for n in range(8):
                # (in the chunk data at the end of the file: a damaged header makes the read fail instead of delivering bytes)
                ops.append("DF %d %d e%d %d" % (kk, n, rng.randrange(8, 33), 1 | (rng.getrandbits(7) << 1)))
        small = max(u.item_len(kk, a, b) for (kk, a, b) in ranges) + rng.choice([0, 3])
        ops.append("O %d" % rng.choice([small, small, 2 * small]))
        for (kk, a, b) in ranges:
            ops += ["G %d %d %d" % (kk, a, b), "P %d %d %d" % (kk, a, b), "G %d %d %d" % (kk, a, b)]
    elif kind == "forgehdr":
        # entries planted while the cache is closed whose names agree with their length and checksum but whose headers are
        # malformed in every way the parser must reject: too few / too many offsets, a huge count, offsets out of order (also
        # across a pair boundary); every chunk of the claimed range is then read on its own
        import struct
        cap = 100000
        ops.append("O %d" % cap)
        rand_put_get(rng, u, ops, 2, bad=False)
        ops.append("C")
        k = rng.randrange(len(u.keys))
        lens = [rng.choice([3, 7, 10]) for _ in range(rng.choice([4, 5, 6]))]
        offs = [0]
        for l in lens:
            offs.append(offs[-1] + l)
        variants = []
        for j in range(1, len(offs) - 2):
            h = list(offs)
            h[j], h[j + 1] = h[j + 1], h[j]
            variants.append(h)
        variants += [offs[:-1], offs + [offs[-1] + 5], [5] + offs[1:]]
        hoffs = rng.choice(variants)
        content = struct.pack("<I", len(hoffs)) + b"".join(struct.pack("<I", o) for o in hoffs) + bytes((7 * i + 1) % 256 for i in range(offs[-1]))
        s0 = rng.randrange(0, 3)
        ops.append("DV %d %d %d %s" % (k, s0, s0 + len(lens), content.hex()))
        ops.append("O %d" % cap)
        for i in range(len(lens)):
            ops.append("G %d %d %d" % (k, s0 + i, s0 + i + 1))
        ops.append("G %d %d %d" % (k, s0, s0 + len(lens)))
    elif kind == "dmgsub":
        # an entry of several chunks damaged in its last chunk while the cache is closed; after the re-open a sub-range that does
        # not touch the damage is put again (the put compares it with the stored file), then the whole range is read: the damaged
        # bytes must not come back as a hit
        cap = 100000
        ops.append("O %d" % cap)
        k = rng.randrange(len(u.keys))
        n = len(u.keys[k][1])
        a = rng.randrange(0, max(1, n - 2))
        b = min(n, a + rng.choice([3, 4, 5]))
        ops.append("P %d %d %d" % (k, a, b))
        ops.append("C")
        ops.append("DF %d 0 e%d %d" % (k, rng.randrange(1, 6), 1 | (rng.getrandbits(3) << 1)))
        ops.append("O %d" % cap)
        ops.append("P %d %d %d" % (k, a, a + 1))
        ops.append("G %d %d %d" % (k, a, b))
        ops.append("G %d %d %d" % (k, b - 1, b))
        ops.append("P %d %d %d" % (k, a, b))
        ops.append("G %d %d %d" % (k, a, b))
    elif kind == "openwhile":
        cap = 100000
        ops.append("O %d" % cap)
        ranges = rand_put_get(rng, u, ops, nops, bad=False)
        for _ in range(rng.choice([1, 2, 3])):
            k, s, e = rng.choice(ranges)
            ops.append("DD %d %d" % (k, rng.randrange(0, 3)))
            ops.append(rng.choice(["G %d %d %d" % (k, s, e), "P %d %d %d" % (k, s, e), "G %d %d %d" % (k, s, min(e, s + 1))]))
        rand_put_get(rng, u, ops, nops // 2 + 1)
    elif kind == "conc":
        cap = rng.choice([100000, 100000, mx + 3, 2 * mx])
        ops.append("O %d" % cap)
        if rng.random() < 0.6:
            rand_put_get(rng, u, ops, rng.choice([1, 2, 4]), bad=False)
        for _ in range(rng.choice([1, 1, 2])):
            nt = rng.choice([2, 2, 3])
            progs = []
            shape = rng.choice(["identical", "identical", "nested", "random", "putget", "heal"])
            k0 = rng.randrange(len(u.keys))
            s0, e0 = u.rand_range(rng, k0)
            if shape == "heal" and len(ops) > 0:
                ops.append("DD %d %d" % (k0, 0))
            total_ops = 0
            for t in range(nt):
                po = []
                for _ in range(rng.choice([1, 1, 2])):
                    if shape == "identical":
                        po.append("P,%d,%d,%d" % (k0, s0, e0))
                    elif shape == "nested":
                        a = rng.randrange(s0, e0)
                        b = rng.randrange(a + 1, e0 + 1)
                        po.append(rng.choice(["P,%d,%d,%d" % (k0, s0, e0), "P,%d,%d,%d" % (k0, a, b), "G,%d,%d,%d" % (k0, a, b)]))
                    elif shape in ("putget", "heal"):
                        po.append(rng.choice(["P", "G", "G"]) + ",%d,%d,%d" % (k0, s0, e0))
                    else:
                        k = rng.randrange(len(u.keys))
                        s, e = u.rand_range(rng, k)
                        po.append(rng.choice(["P", "P", "G"]) + ",%d,%d,%d" % (k, s, e))
                progs.append(";".join(po))
                total_ops += len(po)
            sched = "".join(str(rng.randrange(nt)) for _ in range(rng.randrange(0, 6 * total_ops)))
            ops.append("R %s %s" % ("/".join(progs), sched or "0"))
            rand_put_get(rng, u, ops, rng.choice([1, 2, 3]), bad=False)
        if rng.random() < 0.5:
            ops += ["C", "O %d" % cap]
            rand_put_get(rng, u, ops, 3, bad=False)
    else:
        raise ValueError(kind)
    return " | ".join(ops)


RACE_SHAPES = ["stale_get_vs_subsuming_put", "damaged_entry_two_gets", "identical_puts", "put_vs_put_nested", "get_vs_evicting_put", "deleted_file_two_gets", "deleted_last_item_two_gets"]


def gen_race(rng, shape, sched):
    """Two threads with one call each over a prepared cache; the schedule is given (systematic enumeration)."""
    u = Uni(rng, nkeys=2)
    # make sure key 0 has enough chunks
    kb, lens = u.keys[0]
    u.keys[0] = (kb, (lens + [3, 5, 2, 7, 4, 6, 3, 5, 2, 4, 6, 8])[:12])
    ops = u.ops()
    mx = u.max_item()
    cap = 1000000
    pre, progs, mid = [], [], []
    if shape == "stale_get_vs_subsuming_put":
        pre = ["P 0 2 4", "P 0 8 10"]
        progs = ["G,0,2,4", "P,0,0,6"]
    elif shape == "damaged_entry_two_gets":
        pre = ["P 0 1 5", "P 0 7 9"]
        # the burst lands in the data of the first stored chunk (after the 4*(4+2) header bytes), which both gets read
        nbits = 8 * u.keys[0][1][1]
        off = 8 * 4 * 6 + rng.randrange(0, nbits)
        pat = rng.choice([1, 3, 0x80000001]) if nbits > 40 else 1
        mid = ["C", "DF 0 0 %d %d" % (off, pat), "O %d" % cap]
        progs = ["G,0,1,5", rng.choice(["G,0,1,5", "G,0,1,3", "G,0,1,2"])]
    elif shape == "identical_puts":
        pre = ["P 0 7 9"] if rng.random() < 0.5 else []
        progs = ["P,0,1,5", "P,0,1,5"]
    elif shape == "put_vs_put_nested":
        pre = ["P 0 2 3"]
        progs = ["P,0,1,5", "P,0,0,6"]
    elif shape == "get_vs_evicting_put":
        cap = u.item_len(0, 1, 5) + u.item_len(0, 6, 9) + 3
        pre = ["P 0 1 5", "P 0 6 9"]
        progs = ["G,0,1,5", "P,0,9,12"]
    elif shape == "deleted_file_two_gets":
        pre = ["P 0 1 5", "P 0 7 9"]
        mid = ["DD 0 0"]
        progs = ["G,0,1,5", "G,0,1,3"]
    elif shape == "deleted_last_item_two_gets":
        # the key's only entry: the first remove takes the key out of the map, the second finds neither entry nor key
        pre = ["P 0 1 5"]
        mid = ["DD 0 0"]
        progs = ["G,0,1,5", "G,0,1,3"]
    else:
        raise ValueError(shape)
    ops.append("O %d" % cap)
    ops += pre + mid
    ops.append("R %s %s" % ("/".join(progs), sched))
    ops += ["G 0 1 5", "G 0 2 4", "C", "O %d" % cap, "G 0 1 5"]
    return " | ".join(ops)


def race_cases(rng, big):
    import itertools
    cases = []
    for shape in RACE_SHAPES:
        scheds = ["".join(t) for t in itertools.product("01", repeat=7)]
        if not big:
            scheds = rng.sample(scheds, 20)
        seed = rng.getrandbits(32)
        for i, sc in enumerate(scheds):
            import random
            r2 = random.Random(seed)       # the same universe for every schedule of a shape
            cases.append({"id": "race_%s_%d" % (shape[:12], i), "text": gen_race(r2, shape, sc), "meta": {"kind": "race"}})
    return cases


def streams(rng, tier, kinds, per_kind=None, allow_known=False, per_kind_override=None):
    big = tier == "thorough"
    cases = []
    for kind in kinds:
        if kind == "race":
            cases += race_cases(rng, big)
            continue
        n = per_kind if per_kind is not None else (24 if not big else 150)
        if per_kind_override and kind in per_kind_override:
            n = per_kind_override[kind] * (1 if not big else 5)
        for i in range(n):
            cases.append({"id": "%s%d" % (kind, i), "text": gen_case(rng, kind, big, allow_known), "meta": {"kind": kind}})
    return [{"name": "cache", "cases": cases, "prep": "cache", "prep_impl": True, "timeout": 1200}]


def count(counters, io):
    import re
    for o in io:
        def inc(k, n=1):
            counters[k] = counters.get(k, 0) + n
        if " G:hit" in o:
            inc("hits")
        elif " G:miss" in o:
            inc("misses")
        elif " G:err" in o:
            inc("get_errors")
        elif " P:ok" in o:
            inc("puts")
        elif " PB:err" in o or " P:err" in o:
            inc("rejected_puts")
        elif " open " in o:
            inc("opens")
        m = re.search(r" t\d@(\S+)", o)
        if m:
            inc("schedule_steps")
            if m.group(1).startswith("remove_item"):
                inc("schedule_steps_in_remove_item")
            if m.group(1) == "put:after_commit":
                inc("concurrent_commits")
