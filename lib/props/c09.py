"""C09 -- shard files answer every lookup exactly as the data they were built from."""
import hashlib

from . import shardgen as sg
from .base import BaseProp


class Prop(BaseProp):
    id = "C09"
    groups = ["HashConsts", "ShardLayout", "ShardFacts"]
    prop_file = "Props/C09.v"
    trusted_base = [
        "the interpolation probe is an oracle in the theorems (any clamped index); the executable model uses exact rationals, the code f64",
        "BTreeMap/HashMap as sorted association lists / finite maps; sort_unstable as 'sorted by key with the same multiset'",
    ]
    assumptions = [
        'whole-file theorems (ShardOk): well-formed records sorted by hash, byte-valued hashes, 64-bit totals, shard below 4 GiB, fewer than eight records under one truncated key (the code reports a collision error otherwise)',
        "records are well-formed: num_entries = number of entries, verification list present iff bit 31, metadata ext present iff bit 30, no stored key is the bookend value",
        "serialisers/parsers are generated from the write_*/read_* call sequences of the Rust serialize/deserialize functions",
    ]
    rule = ("case = sequence of add_file/add_cas_block operations (key distributions: random, clustered, dense, extreme, arithmetic, shared 64-bit prefixes; "
            "all four flag combinations; empty records; repeated keys; duplicate chunk hashes) followed by lookups of stored and absent keys; "
            "compared: serialised bytes (chunk table as sorted multiset), size accounting, full scans, every lookup; non-trivial = at least 2 records and 1 lookup; distinct by sha256 of the case text")

    def streams(self, rng, tier):
        big = tier == "thorough"
        cases = []
        plan = [(0, 0, "random"), (1, 0, "random"), (0, 1, "random"), (3, 2, "random"), (12, 6, "prefix"), (20, 5, "extreme"), (30, 10, "cluster"),
                (40, 8, "arith"), (25, 10, "dense"), (16, 16, "prefix"), (60, 20, "random"), (300, 20, "random"), (300, 10, "dense"), (320, 4, "prefix"),
                (700, 30, "cluster"), (280, 280, "random"), (600, 6, "densedup"), (10, 400, "densedup")]
        if big:
            plan += [(2000, 100, "random"), (1500, 300, "prefix"), (3000, 50, "dense"), (1200, 400, "extreme"), (4000, 10, "arith")]
            plan = plan * 2
        for i, (nf, nc, dist) in enumerate(plan):
            files, cas = sg.gen_shard(rng, nf, nc, dist, max_chunks=(3 if nf + nc > 400 else 12), dup_rate=0.3 if i % 3 == 0 else 0.0,
                                      max_segs=(1 if nf > 250 else 4))
            ops = [sg.fmt_cas(c) for c in cas] + [sg.fmt_file(f) for f in files]
            rng.shuffle(ops)
            # repeated keys (the later add replaces the earlier one)
            if i % 4 == 1 and files:
                f = dict(rng.choice(files))
                f2 = sg.gen_file(rng, f["hash"], rng.randrange(0, 4), cas)
                ops.append(sg.fmt_file(f2))
                files = [x for x in files if x["hash"] != f["hash"]] + [f2]
            if i % 4 == 3 and cas:
                c = rng.choice(cas)
                ops.append(sg.fmt_cas(c))
            qs = []
            lim = 120 if dist == "prefix" else 40
            fsample = files if len(files) <= lim else rng.sample(files, lim)
            for f in fsample:
                qs.append("qf %s" % f["hash"].hex())
            for f in fsample[:12]:
                for h in sg.neighbours(rng, f["hash"]):
                    qs.append("qf %s" % h.hex())
            csample = cas if len(cas) <= 20 else rng.sample(cas, 20)
            for c in csample:
                qs.append("qc %s" % c["hash"].hex())
                qs.append("qc %s" % sg.neighbours(rng, c["hash"])[2].hex())
            qs.append("qf %s" % sg.mk_hash(rng).hex())
            qs.append("qf %s" % (b"\0" * 32).hex())
            cases.append({"id": "s%d" % i, "text": " | ".join(ops + qs), "meta": {"nf": nf, "nc": nc, "dist": dist, "nq": len(qs)}})
        return [{"name": "c09", "cases": cases}]

    def nontrivial(self, stream, case, io):
        m = case["meta"]
        if m["nf"] + m["nc"] >= 2 and m["nq"] >= 1:
            return hashlib.sha256(case["text"].encode()).hexdigest()
        return None

    def count(self, counters, stream, case, io):
        m = case["meta"]
        counters["shards_dist_" + m["dist"]] = counters.get("shards_dist_" + m["dist"], 0) + 1
        counters["lookups"] = counters.get("lookups", 0) + m["nq"]
        counters["records"] = counters.get("records", 0) + m["nf"] + m["nc"]
        if m["nf"] > 256:
            counters["shards_with_file_table_above_read_window"] = counters.get("shards_with_file_table_above_read_window", 0) + 1
        for o in io:
            if " found " in o:
                counters["lookups_found"] = counters.get("lookups_found", 0) + 1
            elif o.endswith("notfound"):
                counters["lookups_notfound"] = counters.get("lookups_notfound", 0) + 1
            elif o.endswith(" error"):
                counters["lookups_collision_error"] = counters.get("lookups_collision_error", 0) + 1

    def selfcheck(self, counters, tier):
        out = []
        for k in ["shards_with_file_table_above_read_window", "lookups_found", "lookups_notfound", "lookups_collision_error"]:
            if counters.get(k, 0) == 0:
                out.append("counter %s is zero" % k)
        return out

    def known_match(self, failure, known):
        return None
