"""C16 -- shards follow their xorbs, and upload failures are never swallowed."""
import hashlib

from .base import BaseProp

ENV = {"HF_XET_MAX_XORB_BYTES": "60000", "HF_XET_TARGET_CHUNK_SIZE": "1024", "XET_VERIF_SKIP_SHARD_INTEGRITY_CHECK": "1"}


ENV_SMALL_SHARDS = dict(ENV, HF_XET_MDB_SHARD_MIN_TARGET_SIZE="2048")


def gen_case(rng, big=False, many_shards=False):
    ops = []
    nid = [0]

    def fresh(n):
        nid[0] += 3          # ids 3 apart: block contents are unrelated (consecutive ids give shifted copies, see "related")
        return "%d:%d" % (nid[0], n)

    all_prev = []
    # sometimes a dry-run session goes first and cleans what the real session will upload
    dry = rng.random() < 0.25
    dry_files = []
    for s in range(rng.choice([1, 1, 2, 2])):
        nfiles = rng.choice([1, 2, 3, 5]) if not many_shards else rng.choice([3, 5, 6])
        # how many store calls to expect: roughly one put per 60000 bytes, plus one at finalize
        kind = rng.choice(["none", "none", "put", "put", "put2", "shard", "delay", "putdelay"])
        if many_shards:
            kind = rng.choice(["shard", "shard", "shard", "none", "put"])
        nput_guess = 8
        fp, fs, dp = [], [], []
        if kind in ("put", "putdelay"):
            fp = [rng.randrange(1, nput_guess)]
        if kind == "put2":
            fp = sorted(set(rng.randrange(1, nput_guess) for _ in range(2)))
        if kind == "shard":
            fs = [1] if not many_shards else sorted(set(rng.randrange(1, 5) for _ in range(rng.choice([1, 1, 2]))))
        if kind in ("delay", "putdelay"):
            dp = ["%d:%d" % (rng.randrange(1, nput_guess), rng.choice([5, 20, 40])) for _ in range(rng.choice([1, 2, 3]))]
        # a later session under another repository salt that uploads what an earlier session uploaded: new file hashes, every
        # chunk known -- the session's leftover at finalize is records only
        resalt = s > 0 and all_prev and rng.random() < 0.5
        ops.append("S fp=%s fs=%s dp=%s%s" % (",".join(map(str, fp)) or "-", ",".join(map(str, fs)) or "-", ",".join(dp) or "-", " salt=%d" % rng.randrange(1, 200) if resalt else ""))
        if resalt:
            for f, r in enumerate(rng.sample(all_prev, min(len(all_prev), rng.choice([1, 2])))):
                ops.append("f n%d_%d %s" % (s, f, r))
            ops.append("E")
            continue
        prev = []
        for f in range(nfiles):
            k = rng.choice(["fresh", "fresh", "big", "related", "small", "again"])
            if k == "big":
                r = fresh(rng.choice([150000, 250000]))
            elif k == "related" and prev:
                # the same stream shifted by 8 bytes: deduplicates against the previous file's chunks
                i, l = prev[-1].split(",")[0].split(":")
                r = "%d:%s" % (int(i) + 1, l)
            elif k == "small":
                r = fresh(rng.choice([10, 500, 3000]))
            elif k == "again" and prev:
                r = rng.choice(prev)
            else:
                r = fresh(rng.choice([20000, 70000, 130000]))
            prev.append(r)
            all_prev.append(r)
            ops.append("f n%d_%d %s" % (s, f, r))
        ops.append("E")
        if dry and s == 0:
            dry_files = list(prev)
    if dry and dry_files:
        ops = ["S dry"] + ["f d%d %s" % (i, r) for i, r in enumerate(dry_files)] + ["E"] + ops
    return " | ".join(ops)


class Prop(BaseProp):
    id = "C16"
    groups = ["UploadFacts", "DedupFacts"]
    prop_file = "Props/C16.v"
    trusted_base = [
        "tokio JoinSet (try_join_next / join_next return each finished task's result exactly once), the upload semaphore and task scheduling are modelled by their contracts",
        "the store is the real LocalClient behind a wrapper that logs, fails and delays calls; a remote store's own failure modes (partial writes on the server) are outside the model",
    ]
    assumptions = [
        "a store call that returned Ok has stored the object (the wrapper checks with exists() for xorbs of earlier sessions)",
    ]
    rule = ("stream upl: 1-2 sessions of 1-5 files (fresh, several xorbs long, related to the previous file so that it deduplicates against xorbs still in flight, repeated, tiny) through the real FileUploadSession (also with a 2048-byte shard target, so that a session uploads several shards concurrently) "
            "with an injected client (guarded constructor) that fails chosen put / upload_shard calls (one, two, the shard) and delays others (5-40 ms, so that uploads finish out of order); the caller goes on after an error, "
            "as the property's quantifier allows; oracles: at the start of every shard upload every xorb named by a file record of that shard is stored; no shard upload after a failed put; a session whose calls all "
            "returned Ok had no failed store call and every file is rebuilt from the store and compared; the observed store-call log is replayed on the model's task bookkeeping, which must allow the shard upload it saw; "
            "a sweep of single sessions of 1..30 small files under the 2048-byte shard target (for some counts the last record triggers the automatic flush and finalize meets an empty in-memory shard); "
            "non-trivial = at least two store calls; distinct by sha256 of the case text")

    def streams(self, rng, tier):
        big = tier == "thorough"
        n = 40 if not big else 300
        cases = [{"id": "u%d" % i, "text": gen_case(rng, big), "meta": {}} for i in range(n)]
        # a second configuration in which a session writes several shards (the shard uploads run concurrently)
        cases2 = [{"id": "us%d" % i, "text": gen_case(rng, big, many_shards=True), "meta": {}} for i in range(n // 2)]
        # a sweep over the number of small files of one session under the small shard target: the session shard is flushed to a
        # file of its own whenever it reaches the target, so for some counts the very last record is the one that triggers the
        # flush and finalize finds the in-memory shard empty -- the shards are the files in the session directory all the same
        # (seed C16-r3m2 needs exactly that coincidence)
        sweep = []
        for size in ([500, 3000] if not big else [1, 500, 3000, 9000]):
            for k in range(1, 31 if not big else 61):
                ops = ["S fp=- fs=- dp=-"] + ["f w%d_%d %d:%d" % (size, j, 1000 + 3 * j, size) for j in range(k)] + ["E"]
                sweep.append({"id": "uw%d_%d" % (size, k), "text": " | ".join(ops), "meta": {}})
        return [{"name": "upl", "cases": cases, "env": ENV, "prep": "upl", "prep_impl": True, "timeout": 1200},
                {"name": "upl", "cases": cases2, "env": ENV_SMALL_SHARDS, "prep": "upl", "prep_impl": True, "timeout": 1200},
                {"name": "upl", "cases": sweep, "env": ENV_SMALL_SHARDS, "prep": "upl", "prep_impl": True, "timeout": 1200}]

    def nontrivial(self, stream, case, io):
        if case["text"].count("| f ") >= 1:
            return hashlib.sha256(case["text"].encode()).hexdigest()
        return None

    def count(self, counters, stream, case, io):
        for o in io:
            counters["sessions"] = counters.get("sessions", 0) + 1
            if "put_failed=true" in o:
                counters["sessions_with_failed_put"] = counters.get("sessions_with_failed_put", 0) + 1
            if "success=false" in o:
                counters["sessions_reporting_an_error"] = counters.get("sessions_reporting_an_error", 0) + 1
            if "shard_started=true" in o:
                counters["sessions_uploading_shards"] = counters.get("sessions_uploading_shards", 0) + 1

    def selfcheck(self, counters, tier):
        return ["counter %s is zero" % k for k in ["sessions", "sessions_with_failed_put", "sessions_reporting_an_error", "sessions_uploading_shards"] if counters.get(k, 0) == 0]
