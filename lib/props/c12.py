"""C12 -- a chunk-cache hit returns exactly the bytes that were put."""
import hashlib

from . import cachegen
from .base import BaseProp


class Prop(BaseProp):
    id = "C12"
    groups = ["CacheFacts"]
    prop_file = "Props/C12.v"
    trusted_base = [
        "base64 (URL_SAFE engine) and UTF-8 decoding of directory and file names are Section variables in the theorems and tables computed by the base64 crate / std::str in the correspondence run; CRC-32 is modelled bit by bit in Gallina and compared with crc32fast on every file written",
        "the file system is modelled as a map from the three-level cache paths to contents with atomic install (temp + rename), read and unlink; directory removal (check_remove_dir) is not modelled",
        "CRC-32 detects every single burst of at most 32 bits: a fact about the polynomial, not proved here; the theorems state the collision explicitly instead",
    ]
    assumptions = [
        're-open theorems: the directory is well formed (each key directory under the prefix directory named by its first characters, names unique), the base64 name decoder accepts canonical encodings only (b64d n = Some b -> encode b = n) and returns bytes; J1 (no undetectable foreign entry) separates the recorded finding K1',
        "every put carries the ground-truth slice of its key (one content per key and chunk index), as the xorb contents the cache is used for",
        "interleavings are at the granularity of the model's micro steps (one lock-protected block or one file-system action each); the implementation is driven at the coarser granularity of its guarded schedule points",
    ]
    rule = ("stream cache: histories of open / put / get / malformed put / close over 1-4 keys with overlapping and nested chunk ranges, with eviction under small capacities, "
            "re-opens (same and other capacity), damage between close and re-open (bit bursts up to 32 bits, truncation, extension, deletion, renames to names with another length / checksum / junk, "
            "junk files and directories planted at all three levels: short, non-base64, non-UTF-8, item-like and key-like names), deletion while open, and concurrent phases of 2-3 threads "
            "run under explicit schedules through the guarded schedule points; after every step the result, the tracked state and a digest of the cache files are compared with the model, which is "
            "given the directory listing order and the eviction victims the implementation chose; every hit is compared with the ground truth; "
            "non-trivial = at least 4 operations; distinct by sha256 of the case text")
    kinds = ["plantkeys", "dmgcap", "dmgsub", "forgehdr", "seq", "evict", "damage", "damage", "known", "openwhile", "conc", "capchange", "exactcap", "race"]
    per_kind_override = {"plantkeys": 3, "dmgcap": 6, "dmgsub": 8, "forgehdr": 8}
    allow_known = True

    def streams(self, rng, tier):
        return cachegen.streams(rng, tier, self.kinds, allow_known=self.allow_known, per_kind_override=getattr(self, 'per_kind_override', None))

    def nontrivial(self, stream, case, io):
        if case["text"].count("|") >= 5:
            return hashlib.sha256(case["text"].encode()).hexdigest()
        return None

    def count(self, counters, stream, case, io):
        cachegen.count(counters, io)
        counters["kind_" + case["meta"]["kind"]] = counters.get("kind_" + case["meta"]["kind"], 0) + 1

    def selfcheck(self, counters, tier):
        return ["counter %s is zero" % k for k in ["hits", "misses", "rejected_puts", "opens", "schedule_steps", "concurrent_commits"] if counters.get(k, 0) == 0]

    def known_match(self, failure, known):
        if failure["kind"] != "oracle":
            return None
        lines = [o for o in (failure.get("oracle") or []) if o.startswith("FAIL") and self.oracle_relevant(failure["stream"], o)]
        for k in known:
            marker = k.get("marker")
            if marker and lines and all(marker in l for l in lines):
                return k["id"]
        return None

    def shrink_candidates(self, stream, text):
        ops = text.split(" | ")
        for i in range(len(ops) - 1, -1, -1):
            if ops[i].startswith("U ") or ops[i].startswith("O "):
                continue
            yield " | ".join(ops[:i] + ops[i + 1:])
