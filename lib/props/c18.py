"""C18 -- keyed shards protect chunk hashes, keep dedup working, and expire."""
import hashlib

from . import mgrgen
from . import shardgen as sg
from .base import BaseProp
from .c05 import Prop as C05


class Prop(BaseProp):
    id = "C18"
    groups = ["HashConsts", "ShardLayout", "ShardFacts", "ManagerFacts"]
    prop_file = "Props/C18.v"
    trusted_base = [
        "HMAC = keyed BLAKE3 (Gallina implementation tied to the crate by the C06 correspondence); no collision-freeness assumed: the leak theorem concludes with an explicit collision",
        "the wall clock: creation/expiry fields are checked by the oracle against the interval in which the export ran; the expiry arithmetic is checked on shards whose footer times are set explicitly",
    ]
    assumptions = [
        "exported bytes are compared with the model's after zeroing the two timestamp fields",
        "manager-level query equivalence (original vs exported shard) is checked by the oracle on real ShardFileManagers; the manager's keyed collections are modelled in Model/Manager.v (C18_manager_answers_under_the_collection_key, C18_keyed_collection_chunk_found: below the cap, no two chunk hashes of the collection sharing 64 bits), tied to the code by stream mgr and the ManagerFacts pins",
    ]
    rule = ("case = shard (incl. segments whose cas_flags use the high bits, files with all four flag combinations, empty records) x exports under keys (zero key included) x all 8 include-flag "
            "triples, each export compared byte-for-byte with the model (timestamps zeroed) and characterised by the oracle; dedup queries through managers holding the original resp. the export; "
            "expiry cases with (expiry, grace) on both sides of now; non-trivial = at least one export with a non-empty xorb list; distinct by sha256 of the case text")

    def streams(self, rng, tier):
        big = tier == "thorough"
        cases = []
        q = C05()
        plan = [(2, 2, 4), (4, 3, 6), (8, 5, 3), (0, 3, 5), (3, 0, 0), (12, 6, 3), (5, 4, 8), (2, 7, 12)]
        if big:
            plan = plan * 3 + [(60, 40, 10)]
        for i, (nf, nc, mc) in enumerate(plan):
            files, cas = sg.gen_shard(rng, nf, nc, "random", max_chunks=mc, dup_rate=(0.3 if (nc * mc <= 18 or (nc, mc) == (7, 12)) else 0.0))
            if i % 3 == 1 and files:
                # segments carrying high cas_flags bits (legal: the field is opaque to the shard code)
                f = max(files, key=lambda x: len(x["segs"]))
                while len(f["segs"]) < 2:
                    f["segs"].append((sg.mk_hash(rng), 0, 1000, 0, 1))
                    if f["flags"] & (1 << 31):
                        f["verif"].append(sg.mk_hash(rng))
                s0 = f["segs"][0]
                f["segs"][0] = (s0[0], 1 << 31, s0[2], s0[3], s0[4])
                s1 = f["segs"][1]
                f["segs"][1] = (s1[0], (1 << 30) | 5, s1[2], s1[3], s1[4])
            ops = [sg.fmt_cas(c) for c in cas] + [sg.fmt_file(f) for f in files]
            keys = [sg.mk_hash(rng), b"\0" * 32] if i % 2 == 0 else [sg.mk_hash(rng)]
            for k in keys:
                for fl in range(8):
                    ops.append("exp %s %d %d" % (k.hex(), fl, rng.choice([0, 1, 3600, 1 << 40])))
            ops += [x for x in q._queries(rng, cas) if x != "qd -"][:10]   # the manager indexes query[0] unguarded: empty queries are outside its contract
            cases.append({"id": "x%d" % i, "text": " | ".join(ops), "meta": {"nc": nc, "exports": 8 * len(keys)}})
        # expiry orderings: expiry relative to now (encoded as now + x - 100000), grace
        files, cas = sg.gen_shard(rng, 2, 2, "random", max_chunks=3)
        base = [sg.fmt_cas(c) for c in cas] + [sg.fmt_file(f) for f in files]
        for j, (x, grace) in enumerate([(100000 + 5000, 0), (100000 - 5000, 0), (100000 - 5000, 10000), (100000 - 5000, 4000), (0, 0), (100000 - 50, 50 - 10), (100000 - 50, 200),
                                        ((1 << 64) - 1, 0), ((1 << 64) - 1, 1 << 63), (100000 + 5000, 1 << 63)]):
            # (every second case records a creation time other than now: in the local future, or long ago)
            ctime = "" if j % 2 == 0 else " c%d" % rng.choice([100000 + 3000, 100000 + 10 ** 7, 100000 - 90000, 100000 + 1])
            ops = base + ["expire %d %d %s%s" % (x, grace, sg.mk_hash(rng).hex(), ctime)]
            cases.append({"id": "e%d" % j, "text": " | ".join(ops), "meta": {"nc": 0, "exports": 0, "expire": True}})
        # mixtures: several shards with distinct content, each exported under its own key, one directory
        mcases = []
        for i in range(6 if not big else 20):
            ngroups = rng.choice([2, 3, 3, 4, 5])
            ops = []
            allcas = []
            for g in range(ngroups):
                files, cas = sg.gen_shard(rng, rng.randrange(0, 3), rng.randrange(1, 4), "random", max_chunks=5)
                cas = [c for c in cas if c["chunks"]] or [sg.gen_cas(rng, sg.mk_hash(rng), 3)]
                allcas += cas
                key = (b"\0" * 32) if (g == 0 and i % 2 == 0) else sg.mk_hash(rng)
                ops += [sg.fmt_cas(c) for c in cas] + [sg.fmt_file(f) for f in files] + ["key %s %d" % (key.hex(), rng.choice([7, 7, 6, 4, 3, 0]))] + ["=="]
            # one query per block, so every group is exercised
            for c in allcas:
                s0 = rng.randrange(len(c["chunks"]))
                ops.append("qd %s" % ",".join(x[0].hex() for x in c["chunks"][s0:]))
            ops.append("qd %s" % sg.mk_hash(rng).hex())
            mcases.append({"id": "mix%d" % i, "text": " | ".join(ops), "meta": {"nc": len(allcas), "exports": ngroups, "mix": True}})
        # a chunk stored only in a keyed shard while the unkeyed shard of the directory holds another chunk with the same
        # 64-bit prefix: the unkeyed collection is asked first, its candidate does not pan out, the search must go on
        for i in range(3 if not big else 8):
            files, cas = sg.gen_shard(rng, 1, 2, "random", max_chunks=5)
            cas = [c for c in cas if c["chunks"]] or [sg.gen_cas(rng, sg.mk_hash(rng), 3)]
            target = rng.choice(cas)
            j = rng.randrange(len(target["chunks"]))
            th = target["chunks"][j][0]
            decoy = sg.gen_cas(rng, sg.mk_hash(rng), rng.randrange(1, 4))
            dj = rng.randrange(len(decoy["chunks"]))
            dch = decoy["chunks"][dj]
            decoy["chunks"][dj] = (th[:8] + bytes(rng.getrandbits(8) for _ in range(24)),) + tuple(dch[1:])
            ops = [sg.fmt_cas(decoy), "key %s 7" % (b"\0" * 32).hex(), "=="]
            ops += [sg.fmt_cas(c) for c in cas] + [sg.fmt_file(f) for f in files] + ["key %s %d" % (sg.mk_hash(rng).hex(), rng.choice([7, 6, 4, 0])), "=="]
            ops.append("qdk %s" % ",".join(x[0].hex() for x in target["chunks"][j:]))
            ops.append("qdk %s" % th.hex())
            mcases.append({"id": "pfx%d" % i, "text": " | ".join(ops), "meta": {"nc": len(cas) + 1, "exports": 2, "mix": True}})
        # the manager's keyed collections against its model (first three configurations: registered files only)
        return [{"name": "c18", "cases": cases, "timeout": 900, "model_may_be_silent": True, "env": {"XET_VERIF_SKIP_SHARD_INTEGRITY_CHECK": "1"}},
                {"name": "c18m", "cases": mcases, "model": False, "timeout": 600}] + mgrgen.streams(rng, tier)[:3]

    def compare(self, stream, case, io, mo):
        if stream == "mgr":
            return BaseProp.compare(self, stream, case, io, mo)
        if stream != "c18":
            return None
        a = [o for o in io if (o.startswith("exp") or o.startswith("rex")) and " qd" not in o and not o.startswith("expire")]
        if a != mo:
            for x, y in zip(a, mo):
                if x != y:
                    return "exported bytes differ: impl=%s model=%s" % (x[:160], y[:160])
            return "different number of exports (%d vs %d)" % (len(a), len(mo))
        return None

    def nontrivial(self, stream, case, io):
        if stream == "mgr":
            return mgrgen.nontrivial(case, io)
        m = case["meta"]
        if m.get("expire") or (m["nc"] and m["exports"]):
            return hashlib.sha256(case["text"].encode()).hexdigest()
        return None

    def count(self, counters, stream, case, io):
        if stream == "mgr":
            return mgrgen.count(counters, case, io)
        for o in io:
            if o.startswith("expire"):
                counters["expiry_" + o.replace(" ", "_")] = counters.get("expiry_" + o.replace(" ", "_"), 0) + 1
            elif o.startswith("qdk"):
                counters["prefix_collision_queries"] = counters.get("prefix_collision_queries", 0) + 1
            elif o.startswith("qd"):
                k = "mixture_queries_" + ("hit" if not o.endswith("keyed=0") else "miss")
                counters[k] = counters.get(k, 0) + 1
            elif " qd" in o:
                k = "queries_" + ("same" if o.split("orig=")[1].split(" ")[0] == o.split("keyed=")[1] else "different_candidates")
                counters[k] = counters.get(k, 0) + 1
            elif o.startswith("exp"):
                counters["exports"] = counters.get("exports", 0) + 1

    def selfcheck(self, counters, tier):
        out = []
        for k in ["exports", "queries_same", "expiry_expire_loaded=1_deleted=false", "expiry_expire_loaded=0_deleted=true", "expiry_expire_loaded=0_deleted=false"]:
            if counters.get(k, 0) == 0:
                out.append("counter %s is zero" % k)
        return out

    def known_match(self, failure, known):
        for k in known:
            if k["id"] == "F10" and "export-of-a-valid-shard-failed" in failure["why"]:
                return "F10"
        return None
