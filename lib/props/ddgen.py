"""Generator of L1 dedup-pipeline cases (stream `dd`): scripted external xorbs, files as chunk-id sequences, blocks."""

CONFIGS = [
    {"nranges": 8, "maxb": 4000, "maxc": 6},
    {"nranges": 4, "maxb": 100000, "maxc": 3},
    {"nranges": 128, "maxb": 30000, "maxc": 40},
    {"nranges": 2, "maxb": 1500, "maxc": 1000},
]


def env_of(cfg):
    return {"HF_XET_NRANGES_IN_STREAMING_FRAGMENTATION_ESTIMATOR": str(cfg["nranges"]), "HF_XET_MAX_XORB_BYTES": str(cfg["maxb"]),
            "HF_XET_MAX_XORB_CHUNKS": str(cfg["maxc"])}


def clen(i):
    return 100 + (i * 37) % 900


def fmt(ids):
    return ",".join("%d:%d" % (i, clen(i)) for i in ids) or "-"


def gen_case(rng, cfg, big=False):
    fresh = [0]

    def new_ids(n):
        out = list(range(fresh[0] + 1, fresh[0] + 1 + n))
        fresh[0] += n
        return out

    ops = ["cfg %d %d %d" % (cfg["nranges"], cfg["maxb"], cfg["maxc"])]
    # external xorbs
    ext = []
    for x in range(rng.randrange(0, 4)):
        ids = new_ids(rng.randrange(1, 12))
        cap = rng.choice([1000000, 1000000, 1, 2, 3])
        ext.append(ids)
        ops.append("X %d %d %s" % (900000 + x, cap, fmt(ids)))
    nfiles = rng.choice([1, 1, 2, 3, 6])
    for _ in range(nfiles):
        ids = []
        kind = rng.choice(["fresh", "mixed", "fragmented", "tiny", "selfrepeat", "empty", "mixed", "refusedrun"])
        if kind == "empty":
            pass
        elif kind == "tiny":
            ids = new_ids(rng.randrange(1, 3))
        elif kind == "fresh":
            ids = new_ids(rng.randrange(1, 60 if big else 25))
        elif kind == "selfrepeat":
            base = new_ids(rng.randrange(2, 8))
            for _ in range(rng.randrange(2, 6)):
                ids += base[rng.randrange(len(base)):] if rng.random() < 0.5 else base
                if rng.random() < 0.4:
                    ids += new_ids(rng.randrange(1, 3))
        elif kind == "refusedrun":
            # short ranges fill the fragmentation estimator, then runs of two or more external chunks arrive: the estimator
            # refuses some of them, their first chunk is stored and the rest of the run is looked up (and accepted) again
            pool = max(ext, key=len) if ext else []
            if len(pool) < 4:
                pool = new_ids(5)
                ops.append("X %d %d %s" % (900000 + len(ext) + 50, 1000000, fmt(pool)))
                ext.append(pool)
            ids = [pool[-1]] + pool[:-1]
            for _ in range(rng.randrange(2, 7)):
                a = rng.randrange(len(pool) - 1)
                ids += pool[a:a + rng.choice([2, 2, 3])]
                if rng.random() < 0.4:
                    ids += [pool[-1]]
                if rng.random() < 0.3:
                    ids += new_ids(1)
        elif kind == "fragmented":
            # alternate single external chunks with fresh ones: many short dedup ranges -> defrag prevention fires
            pool = [i for e in ext for i in e] or new_ids(5)
            for _ in range(rng.randrange(10, 60 if big else 30)):
                ids.append(rng.choice(pool))
                ids += new_ids(rng.choice([1, 1, 2]))
        else:
            for _ in range(rng.randrange(2, 8)):
                r = rng.random()
                if r < 0.35 and ext:
                    e = rng.choice(ext)
                    a = rng.randrange(len(e))
                    ids += e[a:rng.randrange(a + 1, len(e) + 1)]
                elif r < 0.5 and ids:
                    a = rng.randrange(len(ids))
                    ids += ids[a:a + rng.randrange(1, 6)]
                else:
                    ids += new_ids(rng.randrange(1, 9))
        # blocks
        nb = rng.choice([1, 1, 2, 3])
        cuts = sorted(rng.randrange(0, len(ids) + 1) for _ in range(nb - 1))
        prev = 0
        for c in cuts + [len(ids)]:
            if c > prev:
                ops.append("B %s" % fmt(ids[prev:c]))
            prev = c
        salt = bytes(rng.getrandbits(8) for _ in range(32)).hex() if rng.random() < 0.5 else "00" * 32
        sha = bytes(rng.getrandbits(8) for _ in range(32)).hex() if rng.random() < 0.7 else "-"
        ops.append("F %s %s" % (salt, sha))
        if rng.random() < 0.3:
            ops.append("AGG")
    ops.append("AGG")
    return " | ".join(ops)
