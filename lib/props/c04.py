"""C04 -- chunking: deterministic, content-defined, bounded."""
import hashlib
import re

from .base import BaseProp, hexs


def gear_table():
    import os, sys
    sys.path.insert(0, os.path.join(os.path.dirname(os.path.dirname(os.path.dirname(os.path.abspath(__file__)))), "translate"))
    from rx import find_registry
    t = open(os.path.join(find_registry("gearhash-0.1.3"), "src", "table.rs")).read()
    return [int(x, 16) for x in re.findall(r"0x[0-9a-f]{16}", t)]


class Prop(BaseProp):
    id = "C04"
    groups = ["GearTable", "ChunkConsts"]
    prop_file = "Props/C04.v"
    trusted_base = [
        "gearhash SIMD paths == scalar rule (tied by the correspondence on this machine's CPU path, not proved)",
        "BLAKE3 chunk hash checked by the direct oracle against merklehash::compute_data_hash, not part of C04's model",
    ]
    assumptions = [
        "Model/Chunker.v transcribes Chunker::{new,next,next_block,finish}; guards and constants regenerated from chunking.rs/constants.rs",
        "bytes are modelled as N; usize arithmetic as N with the no-underflow side conditions proved under the invariant",
    ]
    rule = ("cases = (target, byte stream, partition into next_block calls with final flags); streams are random / constant / periodic / "
            "low-entropy / gear-table-adversarial; non-trivial = at least 2 chunks; distinct by sha256 of the case text")

    def streams(self, rng, tier):
        targets = [128, 256, 512, 1024, 2048, 4096] if tier == "quick" else [128, 256, 1024, 4096, 16384, 65536]
        per = 12 if tier == "quick" else 32
        table = gear_table()
        zero_top = [b for b in range(256) if (table[b] >> 56) == 0][:4]
        cases = []
        n = 0
        for t in targets:
            mn, mx = t // 8, t * 2
            for k in range(per):
                kind = ["random", "constant", "periodic", "lowent", "random", "adversarial"][k % 6]
                size = rng.choice([0, 1, mn - 65 if mn > 65 else 3, mn, mx - 1, mx, mx + 1, 3 * mx, rng.randrange(1, 6 * mx), rng.randrange(1, 12 * t)])
                if tier == "quick":
                    size = min(size, 40000)
                else:
                    size = min(size, 150000)
                if kind == "random":
                    data = bytes(rng.getrandbits(8) for _ in range(size))
                elif kind == "constant":
                    data = bytes([rng.getrandbits(8)]) * size
                elif kind == "periodic":
                    p = rng.randrange(1, 300)
                    pat = bytes(rng.getrandbits(8) for _ in range(p))
                    data = (pat * (size // p + 1))[:size]
                elif kind == "lowent":
                    alpha = [rng.getrandbits(8) for _ in range(rng.choice([2, 3, 4]))]
                    data = bytes(rng.choice(alpha) for _ in range(size))
                else:
                    # long runs of bytes whose gear value has a small top byte, interleaved with random bytes:
                    # drives the hash's top bits low so matches cluster right after the skip window
                    data = bytearray()
                    while len(data) < size:
                        if rng.random() < 0.5:
                            data += bytes([rng.choice(zero_top or [0])]) * rng.randrange(1, 90)
                        else:
                            data += bytes(rng.getrandbits(8) for _ in range(rng.randrange(1, 200)))
                    data = bytes(data[:size])
                # partition
                pk = ["whole", "random", "onebyte", "skipend", "atmax", "random"][(k // 6 + k) % 6]
                cuts = []
                if pk == "random":
                    cuts = sorted(rng.randrange(0, size + 1) for _ in range(rng.randrange(0, 8)))
                elif pk == "onebyte" and size <= 3000:
                    cuts = list(range(1, size))
                elif pk == "skipend":
                    cuts = [c for c in [max(mn - 65, 0), max(mn - 64, 0), mn] if c <= size]
                elif pk == "atmax":
                    cuts = [c for c in [mx - 1, mx, mx + 1] if c <= size]
                parts = []
                prev = 0
                for c in cuts + [size]:
                    parts.append(data[prev:c])
                    prev = c
                if rng.random() < 0.3:
                    parts.insert(rng.randrange(0, len(parts) + 1), b"")
                fin = rng.random() < 0.5
                calls = ";".join("%s:%d" % (hexs(p), 1 if (fin and i == len(parts) - 1) else 0) for i, p in enumerate(parts))
                if rng.random() < 0.05:
                    calls = ""
                cases.append({"id": "c%d" % n, "text": "%d %s" % (t, calls), "meta": {"kind": kind, "part": pk, "size": size, "target": t}})
                n += 1
        return [{"name": "c04", "cases": cases}]

    def nontrivial(self, stream, case, io):
        m = re.match(r"\[(.*)\]", io[0])
        if m and m.group(1).count(",") >= 1:
            return hashlib.sha256(case["text"].encode()).hexdigest()
        return None

    def count(self, counters, stream, case, io):
        meta = case["meta"]
        t = meta["target"]
        mn, mx = t // 8, t * 2
        m = re.match(r"\[(.*)\]", io[0])
        lens = [int(x) for x in m.group(1).split(",") if x] if m else []
        c = counters
        c["cases_kind_" + meta["kind"]] = c.get("cases_kind_" + meta["kind"], 0) + 1
        c["cases_part_" + meta["part"]] = c.get("cases_part_" + meta["part"], 0) + 1
        c["chunks"] = c.get("chunks", 0) + len(lens)
        c["bytes"] = c.get("bytes", 0) + sum(lens)
        if any(l == mx for l in lens):
            c["cases_with_forced_cut"] = c.get("cases_with_forced_cut", 0) + 1
        if mn > 65 and any(l >= mn - 64 for l in lens):
            c["cases_through_skip_branch"] = c.get("cases_through_skip_branch", 0) + 1
        if mn > 65 and any(mn - 64 <= l <= mn for l in lens[:-1]):
            c["cases_boundary_within_64_of_skip_end"] = c.get("cases_boundary_within_64_of_skip_end", 0) + 1

    def selfcheck(self, counters, tier):
        out = []
        for k in ["cases_with_forced_cut", "cases_through_skip_branch", "cases_boundary_within_64_of_skip_end"]:
            if counters.get(k, 0) == 0:
                out.append("branch counter %s is zero" % k)
        return out

    def shrink_candidates(self, stream, text):
        t, _, calls = text.partition(" ")
        parts = [c for c in calls.split(";") if c]
        # drop calls, then halve data of each call
        for i in range(len(parts)):
            yield "%s %s" % (t, ";".join(parts[:i] + parts[i + 1:]))
        for i, p in enumerate(parts):
            h, f = p.split(":")
            if h != "-" and len(h) >= 4:
                half = (len(h) // 4) * 2
                for nh in (h[:half], h[half:]):
                    yield "%s %s" % (t, ";".join(parts[:i] + ["%s:%s" % (nh or "-", f)] + parts[i + 1:]))
