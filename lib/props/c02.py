"""C02 -- everything a session uploads is self-consistent and server-verifiable"""
import hashlib

from . import ddgen, sessgen
from .base import BaseProp


class Prop(BaseProp):
    id = "C02"
    groups = ["HashConsts", "ShardLayout", "ChunkConsts", "GearTable", "DedupFacts"]
    prop_file = "Props/C02.v"
    trusted_base = [
        "real sessions (FileUploadSession, SingleFileCleaner, ShardFileManager, LocalClient, FileDownloader) are judged by an independent oracle in the harness "
        "(own xorb/shard readers, blake3/sha2 called directly); the Coq model covers FileDeduper, DataAggregator and the session's aggregation logic over an oracle data interface",
        "tokio scheduling of concurrently cleaned files: sampled (fp files), covered in the model by the oracle quantifier",
    ]
    assumptions = [
        "theorem hypotheses (StoreOk): no two xorbs of the store share a hash with different contents, no non-empty xorb hashes to zero, the first 8 bytes of distinct chunk hashes differ (the model keys the deduper's lookup by them), chunks are non-empty, every xorb the run uploads or registers is in the store, the data interface answers only with xorbs of the store (TableOk) and no xorb reaches 4 GiB",
        "configurations: HF_XET_TARGET_CHUNK_SIZE/MAX_XORB_BYTES/MAX_XORB_CHUNKS/NRANGES/INGESTION_BLOCK_SIZE scaled down through the code's own environment overrides (dev profile), one process per configuration",
        "the crate's debug-only shard self-check is switched off through the xet_verif hook (see DESIGN.md, observations)",
    ]
    rule = ("stream sess (as C01) with an independent validator re-reading every stored xorb and every uploaded shard: names, ranges, segment sizes, file hash, verification hashes, SHA-256; stream dd: verification entries and file hash recomputed from the fed chunks; non-trivial = at least one non-empty file cleaned and a session finalized; distinct by sha256 of the case text")
    use_dd = True

    def streams(self, rng, tier):
        big = tier == "thorough"
        out = []
        if self.use_dd:
            for k, cfg in enumerate(ddgen.CONFIGS):
                cases = [{"id": "d%d_%d" % (k, i), "text": ddgen.gen_case(rng, cfg, big), "meta": {"cfg": k}} for i in range(8 if not big else 40)]
                out.append({"name": "dd", "cases": cases, "env": ddgen.env_of(cfg)})
        return out + sessgen.streams(rng, tier)

    def search_streams(self, rng, tier):
        # xorbs of one or two chunks (a one-chunk xorb is named by its chunk's hash), the same files uploaded again by a session
        # that starts cold: its lookups go to the shard files of the first session (seed C02-r4m1: the on-disk lookup reads one
        # entry past a xorb's chunk list -- the header of the next xorb, which for a one-chunk xorb equals a chunk hash)
        env = {"HF_XET_TARGET_CHUNK_SIZE": "1024", "HF_XET_MAX_XORB_BYTES": "2048", "HF_XET_MAX_XORB_CHUNKS": "40",
               "HF_XET_NRANGES_IN_STREAMING_FRAGMENTATION_ESTIMATOR": "8", "XET_VERIF_SKIP_SHARD_INTEGRITY_CHECK": "1"}
        cases = []
        for i in range(24):
            n = rng.randrange(6000, 40000)
            cases.append({"id": "ru%d" % i, "text": "S | f a%d %d:%d all | E | M | S | f b%d %d:%d all | E | D" % (i, 100 + i, n, i, 100 + i, n), "meta": {"cfg": 9}})
        return [{"name": "sess", "cases": cases, "env": env, "model": False, "timeout": 1200}]

    def nontrivial(self, stream, case, io):
        if stream == "dd":
            return hashlib.sha256(case["text"].encode()).hexdigest() if case["text"].count(":") >= 5 else None
        if any(o.startswith("E") for o in io) and any(o.startswith("file ") and " size=0 " not in o for o in io):
            return hashlib.sha256(case["text"].encode()).hexdigest()
        return None

    def count(self, counters, stream, case, io):
        if stream == "dd":
            counters["dd_cases"] = counters.get("dd_cases", 0) + 1
            return
        counters["sessions"] = counters.get("sessions", 0) + sum(1 for o in io if o.startswith("E"))
        counters["downloads"] = counters.get("downloads", 0) + sum(1 for o in io if o.startswith("D "))
        for o in io:
            if o.startswith("file "):
                counters["files"] = counters.get("files", 0) + 1
                if " dedup=0 " not in o:
                    counters["files_with_dedup"] = counters.get("files_with_dedup", 0) + 1
                if " new=0 " in o and " size=0 " not in o:
                    counters["files_fully_deduplicated"] = counters.get("files_fully_deduplicated", 0) + 1
        counters["reupload_or_repeat_ops"] = counters.get("reupload_or_repeat_ops", 0) + case["text"].count(" fp ")

    def selfcheck(self, counters, tier):
        return ["counter %s is zero" % k for k in ["sessions", "downloads", "files_with_dedup", "files_fully_deduplicated"] if counters.get(k, 0) == 0]
