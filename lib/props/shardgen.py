"""Generators of shard descriptions shared by C05/C09/C10/C18."""
import struct

U64 = (1 << 64) - 1


def mk_hash(rng, w0=None):
    if w0 is None:
        w0 = rng.getrandbits(64)
    tail = bytes(rng.getrandbits(8) for _ in range(24))
    h = struct.pack("<Q", w0 & U64) + tail
    if h == b"\xff" * 32:
        h = h[:-1] + b"\x00"
    return h


def key_words(rng, n, dist):
    if dist == "random":
        return [rng.getrandbits(64) for _ in range(n)]
    if dist == "cluster":
        base = 1 << 63
        return [base + rng.randrange(1 << 20) for _ in range(n)]
    if dist == "dense":
        base = rng.getrandbits(63)
        return [base + i for i in range(n)]
    if dist == "densedup":
        base = rng.getrandbits(63)
        return [base + i // 2 for i in range(n)]
    if dist == "extreme":
        return [rng.choice([0, 1, U64, U64 - 1, 1 << 63, rng.getrandbits(64)]) for _ in range(n)]
    if dist == "arith":
        step = rng.randrange(1, 1 << 50)
        base = rng.getrandbits(60)
        return [(base + i * step) & U64 for i in range(n)]
    if dist == "prefix":
        # groups of up to 9 sharing word 0
        out = []
        while len(out) < n:
            w = rng.getrandbits(64)
            out += [w] * min(n - len(out), rng.choice([1, 2, 3, 7, 7, 8, 9]))
        return out
    raise ValueError(dist)


def start_of(rng, style, pos):
    if style == "zero":
        return 0
    if style == "any":
        return rng.getrandbits(32)
    return pos & 0xFFFFFFFF


def gen_cas(rng, h, nchunks, chunk_pool=None, dup_rate=0.0):
    chunks = []
    pos = 0
    # the start offsets recorded with the chunks: the running sum of the lengths (what this client writes), or -- the field is
    # data to the shard code, the byte count of an answer is the sum of the lengths whatever the offsets say -- all zero, with
    # gaps, or unrelated
    style = rng.choice(["sum", "sum", "zero", "gaps", "any"])
    for _ in range(nchunks):
        if chunk_pool and rng.random() < dup_rate:
            ch = rng.choice(chunk_pool)
        else:
            ch = mk_hash(rng)
            if chunk_pool is not None:
                chunk_pool.append(ch)
        ln = rng.choice([1, 100, 8192, 65536, 131072, rng.randrange(1, 131073)])
        chunks.append((ch, ln, start_of(rng, style, pos), rng.choice([0, 0, rng.getrandbits(64)])))
        pos += ln + (rng.randrange(0, 5000) if style == "gaps" else 0)
    if rng.random() < 0.06:
        # byte totals close to u32::MAX: the shard-wide sums must be carried in 64 bits
        big = rng.choice([0xFFFFFFFF, 0xFFFFFF00, 0x90000000])
        return {"hash": h, "flags": rng.choice([0, 0, 0, 5]), "nbytes": big, "ndisk": rng.choice([big, big - 7, 0x80000001]), "chunks": chunks}
    return {"hash": h, "flags": rng.choice([0, 0, 0, 5]), "nbytes": pos & 0xFFFFFFFF, "ndisk": rng.randrange(0, (pos & 0xFFFFFFFF) + 1), "chunks": chunks}


def gen_file(rng, h, nsegs, cas_list, flags=None):
    segs = []
    # one file in twelve carries segments whose byte counts add up past 2^32 (the record only holds metadata)
    huge = nsegs >= 2 and rng.random() < 0.08
    for _ in range(nsegs):
        if huge:
            segs.append((mk_hash(rng), 0, rng.choice([0xFFFFFFFF, 0x80000000, 0xC0000001, 0xFFFF0000]), 0, rng.randrange(1, 50)))
            continue
        if cas_list and rng.random() < 0.8:
            c = rng.choice(cas_list)
            n = len(c["chunks"])
            if n:
                s = rng.randrange(n)
                e = rng.randrange(s + 1, n + 1)
                segs.append((c["hash"], 0, sum(x[1] for x in c["chunks"][s:e]) & 0xFFFFFFFF, s, e))
                continue
        segs.append((mk_hash(rng), 0, rng.randrange(1, 1 << 20), 0, rng.randrange(1, 50)))
    if flags is None:
        flags = rng.choice([0, 1 << 31, 1 << 30, (1 << 31) | (1 << 30)])
    ver = [mk_hash(rng) for _ in segs] if flags & (1 << 31) else []
    ext = mk_hash(rng) if flags & (1 << 30) else None
    return {"hash": h, "flags": flags, "unused": rng.choice([0, rng.getrandbits(64)]), "segs": segs, "verif": ver, "ext": ext}


def fmt_file(f):
    segs = ",".join("%s:%d:%d:%d:%d" % (s[0].hex(), s[1], s[2], s[3], s[4]) for s in f["segs"]) or "-"
    ver = ",".join(h.hex() for h in f["verif"]) or "-"
    return "F %s %d %d %s %s %s" % (f["hash"].hex(), f["flags"], f["unused"], segs, ver, f["ext"].hex() if f["ext"] else "-")


def fmt_cas(c):
    ch = ",".join("%s:%d:%d:%d" % (x[0].hex(), x[1], x[2], x[3]) for x in c["chunks"]) or "-"
    return "C %s %d %d %d %s" % (c["hash"].hex(), c["flags"], c["nbytes"], c["ndisk"], ch)


def gen_shard(rng, nfiles, ncas, dist, max_chunks=12, dup_rate=0.0, max_segs=4, chunk_pool=None):
    pool = chunk_pool if chunk_pool is not None else []
    cas = []
    for w in key_words(rng, ncas, dist):
        cas.append(gen_cas(rng, mk_hash(rng, w), rng.randrange(0, max_chunks + 1), pool, dup_rate))
    files = []
    for w in key_words(rng, nfiles, dist):
        files.append(gen_file(rng, mk_hash(rng, w), rng.randrange(0, max_segs + 1), cas))
    return files, cas


def neighbours(rng, h):
    """absent-key candidates around a stored key: word0 +-1 and same word0 with a different tail."""
    w0 = struct.unpack("<Q", h[:8])[0]
    out = []
    for d in (-1, 1):
        out.append(struct.pack("<Q", (w0 + d) & U64) + h[8:])
    t = bytearray(h)
    t[8 + rng.randrange(24)] ^= 1 << rng.randrange(8)
    out.append(bytes(t))
    return out
