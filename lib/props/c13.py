"""C13 -- chunk-cache accounting is exact and the capacity bound holds."""
from . import c12


class Prop(c12.Prop):
    id = "C13"
    prop_file = "Props/C13.v"
    rule = c12.Prop.rule.replace("every hit is compared with the ground truth", "at every step num_items / total_bytes are compared with the tracked entries, every cache file must belong to a tracked "
                                 "entry, total_bytes <= capacity right after an insertion, and after reading every entry back the totals must equal the disk")
    kinds = ["seq", "evict", "evict", "damage", "openwhile", "conc", "conc", "capchange", "exactcap", "race"]
    allow_known = False

    def selfcheck(self, counters, tier):
        return ["counter %s is zero" % k for k in ["puts", "opens", "schedule_steps", "concurrent_commits"] if counters.get(k, 0) == 0]
