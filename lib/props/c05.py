"""C05 -- deduplication answers are truthful."""
import hashlib
import re

from . import ddgen, mgrgen
from . import shardgen as sg
from .base import BaseProp


class Prop(BaseProp):
    id = "C05"
    groups = ["HashConsts", "ShardLayout", "ShardFacts", "DedupFacts", "ManagerFacts"]
    prop_file = "Props/C05.v"
    trusted_base = [
        "HMAC = keyed BLAKE3 (Gallina implementation tied to the blake3 crate by the C06 correspondence)",
        "ShardFileManager: Model/Manager.v (collections, capped index with u16 narrowing, in-memory shard, flushes) is hand-written, tied to the code by stream mgr (answer by answer) and the ManagerFacts pins; C05_manager_truthful is about that model.  mtime ordering within one register_shards call, re-open and consolidation are covered by the direct oracle on real histories (stream c05m)",
    ]
    assumptions = [
        'local-lookup theorem: StoreOk key hypothesis and the C01 invariant; on-disk end-to-end theorem: well-formed records, byte-valued chunk hashes, shard below 4 GiB, 64-bit totals',
        "on-disk theorem: the bytes at the hinted block position are the serialisation of a well-formed block (proved of every producer in C09) and the hint points inside it",
        "C05_ondisk_complete: at most eight table entries share the truncated hash of the queried chunk (the code examines eight candidates)",
        "where several truthful candidates exist (equal truncated keys; unstable sort) the comparator accepts any member of the model's candidate set",
    ]
    rule = ("stream c05: one shard (duplicate chunk hashes within/across xorbs, engineered groups sharing the 64-bit prefix, optional keyed re-export) + query sequences "
            "(present, absent, partial, running past a xorb end, starting mid-xorb) through the in-memory index, the on-disk shard and the keyed shard; "
            "stream c05m: histories of add/flush/keyed-export/re-open/consolidate against a real ShardFileManager with queries in between (oracle only); "
            "stream mgr: register / add / flush / query scripts against a real ShardFileManager compared with Model/Manager.v, every answer judged truthful against the blocks the manager was told about; "
            "stream dd: the deduper's own lookup against the pending xorb (self-references): scripted files with internal repeats across xorb cuts, every "
            "segment compared with the model and resolved against the xorb it names (chunk identities and byte counts); "
            "non-trivial = at least one query answered with a hit; distinct by sha256 of the case text")

    def _queries(self, rng, cas):
        qs = []
        blocks = [c for c in cas if c["chunks"]]
        for _ in range(14):
            if not blocks:
                break
            c = rng.choice(blocks)
            n = len(c["chunks"])
            s = rng.randrange(n)
            kind = rng.choice(["run", "past_end", "partial", "single", "whole"])
            if kind == "whole":
                s = 0
            e = n if kind in ("past_end", "whole") else rng.randrange(s + 1, n + 1)
            hs = [x[0] for x in c["chunks"][s:e]]
            if kind == "past_end":
                hs += [sg.mk_hash(rng) for _ in range(rng.randrange(1, 4))]
            if kind == "partial" and len(hs) > 1:
                j = rng.randrange(1, len(hs))
                hs = hs[:j] + [sg.mk_hash(rng)] + hs[j + 1:]
            if kind == "single":
                hs = hs[:1]
            qs.append("qd %s" % ",".join(h.hex() for h in hs))
        for _ in range(3):
            qs.append("qd %s" % ",".join(sg.mk_hash(rng).hex() for _ in range(rng.randrange(1, 4))))
        # absent hash sharing the 64-bit prefix of a stored chunk
        if blocks:
            c = rng.choice(blocks)
            h = c["chunks"][0][0]
            qs.append("qd %s" % (h[:8] + bytes(rng.getrandbits(8) for _ in range(24))).hex())
        qs.append("qd -")
        return qs

    def _shard_ops(self, rng, ncas, max_chunks, dup_rate, prefix_groups):
        pool = []
        cas = []
        for w in sg.key_words(rng, ncas, "random"):
            cas.append(sg.gen_cas(rng, sg.mk_hash(rng, w), rng.randrange(0, max_chunks + 1), pool, dup_rate))
        # engineered groups of chunk hashes sharing word 0 (up to 12)
        for _ in range(prefix_groups):
            w = rng.getrandbits(64)
            k = rng.choice([2, 3, 7, 8, 9, 12])
            for _ in range(k):
                c = rng.choice(cas) if cas else None
                if c is not None and c["chunks"]:
                    j = rng.randrange(len(c["chunks"]))
                    old = c["chunks"][j]
                    c["chunks"][j] = (sg.mk_hash(rng, w), old[1], old[2], old[3])
        return cas

    def streams(self, rng, tier):
        big = tier == "thorough"
        cases = []
        plan = [(1, 5, 0.0, 0), (3, 8, 0.3, 0), (6, 12, 0.5, 2), (10, 20, 0.2, 3), (20, 30, 0.3, 4), (40, 12, 0.1, 6), (2, 300, 0.05, 1), (8, 3, 0.8, 2),
                (15, 10, 0.0, 5), (5, 40, 0.4, 2)]
        if big:
            plan = plan * 3 + [(60, 40, 0.2, 10), (4, 800, 0.01, 2)]
        for i, (ncas, mc, dup, pg) in enumerate(plan):
            cas = self._shard_ops(rng, ncas, mc, dup, pg)
            ops = [sg.fmt_cas(c) for c in cas]
            files = [sg.gen_file(rng, sg.mk_hash(rng), rng.randrange(0, 4), cas) for _ in range(rng.randrange(0, 4))]
            ops += [sg.fmt_file(f) for f in files]
            if i % 2 == 1:
                ops.append("key %s" % sg.mk_hash(rng).hex())
            if i % 5 == 4:
                ops.append("key %s" % (b"\0" * 32).hex())
            extra_q = []
            if i % 2 == 0 and cas:
                # a single-chunk xorb (its hash equals its chunk's hash) stored directly after another xorb: a query that
                # runs past the first xorb's end and continues with that hash must stop at the xorb end
                import struct
                for _ in range(2):
                    xb = rng.choice([c for c in cas if c["chunks"]] or cas)
                    if not xb["chunks"]:
                        continue
                    w0 = struct.unpack("<Q", xb["hash"][:8])[0]
                    yh = struct.pack("<Q", (w0 + 1) & ((1 << 64) - 1)) + bytes(rng.getrandbits(8) for _ in range(24))
                    if any(c["hash"][:8] == yh[:8] for c in cas):
                        continue
                    y = {"hash": yh, "flags": 0, "nbytes": 77, "ndisk": 77, "chunks": [(yh, 77, 0, 0)]}
                    cas.append(y)
                    ops.append(sg.fmt_cas(y))
                    s0 = rng.randrange(len(xb["chunks"]))
                    extra_q.append("qd %s" % ",".join([x[0].hex() for x in xb["chunks"][s0:]] + [yh.hex()]))
            cases.append({"id": "d%d" % i, "text": " | ".join(ops + extra_q + self._queries(rng, cas)), "meta": {"ncas": ncas}})
        # manager histories.  Duplicate chunk hashes are only introduced across flush boundaries, and only in
        # histories that never consolidate: the crate's debug-only verify_shard_integrity() compares two
        # key-sorted lists with different tie orders and panics on shards holding a repeated truncated key
        # (an observation recorded in DESIGN.md; it is not one of the properties).
        mcases = []
        for i in range(10 if not big else 40):
            consolidates = (i % 3 == 0)
            old_pool, cur_pool = [], []
            allcas = []
            ops = []
            for step in range(rng.randrange(3, 9)):
                kinds = ["add", "add", "add", "flush", "keyed", "reopen", "query"] + (["consolidate"] if consolidates else [])
                kind = rng.choice(kinds)
                if kind == "add":
                    for _ in range(rng.randrange(1, 5)):
                        c = sg.gen_cas(rng, sg.mk_hash(rng), rng.randrange(1, 12), None, 0.0)
                        if not consolidates and old_pool:
                            chs = list(c["chunks"])
                            for j in range(len(chs)):
                                if rng.random() < 0.3:
                                    chs[j] = (rng.choice(old_pool),) + chs[j][1:]
                            if len(set(x[0] for x in chs)) == len(chs) and not (set(x[0] for x in chs) & set(cur_pool)):
                                c["chunks"] = chs
                        cur_pool += [x[0] for x in c["chunks"]]
                        allcas.append(c)
                        ops.append(sg.fmt_cas(c))
                    if rng.random() < 0.5:
                        ops.append(sg.fmt_file(sg.gen_file(rng, sg.mk_hash(rng), rng.randrange(0, 3), allcas)))
                else:
                    if kind != "query":
                        old_pool += cur_pool
                        cur_pool = []
                    if kind == "flush":
                        ops.append("flush")
                    elif kind == "keyed":
                        ops.append("keyed %s %d%s" % (sg.mk_hash(rng).hex(), rng.randrange(8), " drop" if rng.random() < 0.3 else ""))
                    elif kind == "reopen":
                        ops.append("reopen")
                    elif kind == "consolidate":
                        ops.append("consolidate %d" % rng.choice([0, 1, 2000, 1 << 20]))
                if allcas:
                    ops += [x for x in self._queries(rng, allcas) if x != "qd -"][:6]
            ops.append("qd %s" % sg.mk_hash(rng).hex())
            mcases.append({"id": "m%d" % i, "text": " | ".join(ops), "meta": {"ncas": len(allcas)}})
        out = [{"name": "c05", "cases": cases}, {"name": "c05m", "cases": mcases, "model": False, "timeout": 600}]
        # the in-xorb self-reference lookup of FileDeduper (dedup_query_against_local_data)
        for k, cfg in enumerate(ddgen.CONFIGS):
            dcases = [{"id": "l%d_%d" % (k, i), "text": ddgen.gen_case(rng, cfg, big), "meta": {"cfg": k}} for i in range(6 if not big else 30)]
            out.append({"name": "dd", "cases": dcases, "env": ddgen.env_of(cfg)})
        # the manager's routing (index of registered files, in-memory shard, flushes) against its model
        out += mgrgen.streams(rng, tier)
        # xorbs of more than 65536 chunks through the manager (the index holds 16-bit chunk offsets); oracle only
        out += mgrgen.big_streams(rng)
        return out

    def compare(self, stream, case, io, mo):
        if stream in ("dd", "mgr"):
            return BaseProp.compare(self, stream, case, io, mo)
        if stream != "c05":
            return None
        if len(io) != len(mo):
            return "different number of observations (%d vs %d)" % (len(io), len(mo))
        for a, b in zip(io, mo):
            if " mem " in a:
                if a != b:
                    return "in-memory answers differ: impl=%s model=%s" % (a[:150], b[:150])
                continue
            m = re.match(r"(qd\d+ (?:disk|keyed)) cands=(\d+) \{(.*)\}$", b)
            if not m or not a.startswith(m.group(1) + " "):
                return "unaligned observations: impl=%s model=%s" % (a[:100], b[:100])
            ans = a[len(m.group(1)) + 1:]
            k = int(m.group(2))
            cands = [x for x in m.group(3).split("|") if x]
            if ans == "none":
                if cands and k <= 8:
                    return "implementation found nothing where the model has candidates %s" % cands[:2]
            elif ans not in cands:
                return "implementation's answer %s is not among the model's candidates %s" % (ans[:120], [c[:120] for c in cands[:3]])
        return None

    def nontrivial(self, stream, case, io):
        if stream == "mgr":
            return mgrgen.nontrivial(case, io)
        if stream == "dd":
            return hashlib.sha256(case["text"].encode()).hexdigest() if case["text"].count(":") >= 5 else None
        if any(" n=" in o or o.endswith(" hit") for o in io):
            return hashlib.sha256(case["text"].encode()).hexdigest()
        return None

    def count(self, counters, stream, case, io):
        if stream == "mgr":
            return mgrgen.count(counters, case, io)
        if stream == "dd":
            counters["local_lookup_files"] = counters.get("local_lookup_files", 0) + sum(1 for o in io if o.startswith("F") and " iref=[]" not in o and "iref=" in o)
            return
        for o in io:
            k = None
            if " mem n=" in o:
                k = "mem_hits"
            elif " disk n=" in o:
                k = "disk_hits"
            elif " keyed n=" in o:
                k = "keyed_hits"
            elif o.endswith(" hit"):
                k = "manager_hits"
            elif o.endswith("none") or o.endswith(" miss"):
                k = "misses"
            if k:
                counters[k] = counters.get(k, 0) + 1

    def selfcheck(self, counters, tier):
        return ["counter %s is zero" % k for k in ["mem_hits", "disk_hits", "keyed_hits", "manager_hits", "misses", "local_lookup_files"] + mgrgen.SELFCHECK if counters.get(k, 0) == 0]
