"""C17 -- file reconstruction writes exactly the requested bytes at the right offsets."""
import hashlib

from .base import BaseProp


def gen_case(rng, big=False):
    nx = rng.choice([1, 2, 3])
    xorbs = []
    ops = []
    for x in range(nx):
        n = rng.choice([1, 3, 6, 10])
        lens = [rng.choice([1, 2, 5, 17, 60, 300] + ([5000] if big else [])) for _ in range(n)]
        xorbs.append(lens)
        ops.append("X " + ",".join(map(str, lens)))
    nt = rng.choice([1, 2, 3, 5, 8] if not big else [2, 5, 12, 20])
    terms = []
    for _ in range(nt):
        x = rng.randrange(nx)
        n = len(xorbs[x])
        s = rng.randrange(0, n)
        e = rng.randrange(s + 1, n + 1)
        if terms and rng.random() < 0.2:
            x, s, e = rng.choice(terms)      # the same range again
        terms.append((x, s, e))
        ops.append("T %d %d %d" % (x, s, e))
    # fetch ranges: per term one that covers it (exact, wider to the left/right, the whole xorb); shared when they coincide
    fetch = []
    for (x, s, e) in terms:
        if any(fx == x and fs <= s and fe >= e for (fx, fs, fe) in fetch) and rng.random() < 0.6:
            continue
        n = len(xorbs[x])
        kind = rng.choice(["exact", "exact", "left", "right", "both", "whole"])
        fs, fe = s, e
        if kind in ("left", "both"):
            fs = rng.randrange(0, s + 1)
        if kind in ("right", "both"):
            fe = rng.randrange(e, n + 1)
        if kind == "whole":
            fs, fe = 0, n
        fetch.append((x, fs, fe))
    rng.shuffle(fetch)
    for f in fetch:
        ops.append("F %d %d %d" % f)
    total = sum(sum(xorbs[x][s:e]) for (x, s, e) in terms)
    # queries
    for mode in ("seq", "par"):
        ops.append("Q %s 0 - 0" % mode)
    ops.append("Q %s 0 - 1 2" % rng.choice(["seq", "par"]))
    for _ in range(rng.choice([2, 4, 6])):
        kind = rng.choice(["mid", "mid", "byte", "prefix", "suffix", "whole", "boundary"])
        if kind == "byte":
            bs = rng.randrange(0, total)
            be = bs + 1
        elif kind == "prefix":
            bs, be = 0, rng.randrange(1, total + 1)
        elif kind == "suffix":
            bs, be = rng.randrange(0, total), total
        elif kind == "whole":
            bs, be = 0, total
        elif kind == "boundary":
            # start or end exactly on a term boundary
            cuts = [0]
            for (x, s, e) in terms:
                cuts.append(cuts[-1] + sum(xorbs[x][s:e]))
            bs = rng.choice(cuts[:-1])
            be = rng.choice([c for c in cuts if c > bs])
        else:
            bs = rng.randrange(0, total)
            be = rng.randrange(bs + 1, total + 1)
        ops.append("Q %s %d %d %s" % (rng.choice(["seq", "par"]), bs, be, rng.choice(["0", "0", "1 2"])))
    return " | ".join(ops)


class Prop(BaseProp):
    id = "C17"
    groups = ["ReconFacts"]
    prop_file = "Props/C17.v"
    trusted_base = [
        "HTTP transport, reqwest middleware, the threadpool and tokio task scheduling are exercised, not modelled; a local tiny_http server plays the blob store and answers Range requests from the serialized chunks",
        "chunk (de)compression is C07's subject: the term data the model starts from is the decompressed chunk content",
    ]
    assumptions = [
        "the plan is what the service answers for the request: the terms cover the byte range, the first-term offset lies inside the first term, every term is covered by a fetch range of its xorb, and every fetch range has its own URL (the service signs each range separately; the download singleflight is keyed by URL)",
    ]
    rule = ("stream recon: plans over 1-3 xorbs (1-10 chunks of 1..5000 bytes, three compression schemes), 1-20 terms (repeated xorbs and ranges), fetch ranges equal to / wider than / shared between terms, "
            "whole-file and byte-range requests (mid-term start and end, single byte, prefix, suffix, on term boundaries) through the real RemoteClient with the sequential and the parallel writer, "
            "chunk cache off / on (cold round then warm round), 1, 2 or 16 concurrent range downloads; the output file and the reported length are compared with the model (trim_term, seq_write, par_write) and "
            "with the slice of the concatenated term data computed independently; non-trivial = at least 2 terms; distinct by sha256 of the case text")

    def streams(self, rng, tier):
        big = tier == "thorough"
        out = []
        for conc in ("1", "2", "16"):
            n = 10 if not big else 80
            cases = [{"id": "r%s_%d" % (conc, i), "text": gen_case(rng, big), "meta": {"conc": conc}} for i in range(n)]
            out.append({"name": "recon", "cases": cases, "env": {"HF_XET_NUM_CONCURRENT_RANGE_GETS": conc}, "timeout": 900})
        if big:
            out += self.search_streams(rng, tier)
        return out

    def search_streams(self, rng, tier):
        # files beyond 2^32 bytes (65 terms of 64 MiB): about 45 s and 4.4 GB of scratch space per case, hence not in the quick
        # tier; judged by the oracle (the output is compared block by block, nothing of file size is held in memory)
        cases = [{"id": "huge_%s" % w, "text": "HUGE 65 512 131072 %s" % w, "meta": {}} for w in ("par", "seq")]
        return [{"name": "recon", "cases": cases, "env": {"HF_XET_NUM_CONCURRENT_RANGE_GETS": "16"}, "model": False, "timeout": 1800, "shards": 1}]

    def nontrivial(self, stream, case, io):
        if case["text"].count("T ") >= 2 or case["text"].startswith("HUGE"):
            return hashlib.sha256(case["text"].encode()).hexdigest()
        return None

    def count(self, counters, stream, case, io):
        counters["queries"] = counters.get("queries", 0) + len(io)
        counters["queries_parallel_writer"] = counters.get("queries_parallel_writer", 0) + case["text"].count("Q par")
        counters["queries_with_cache"] = counters.get("queries_with_cache", 0) + case["text"].count(" 1 2")
        counters["byte_range_queries"] = counters.get("byte_range_queries", 0) + sum(1 for o in case["text"].split(" | ") if o.startswith("Q") and o.split()[3] != "-")

    def selfcheck(self, counters, tier):
        return ["counter %s is zero" % k for k in ["queries", "queries_parallel_writer", "queries_with_cache", "byte_range_queries"] if counters.get(k, 0) == 0]
