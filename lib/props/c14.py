"""C14 -- reported sizes and dedup metrics are conserved."""
import hashlib
import re

from . import ddgen, sessgen
from .base import BaseProp


class Prop(BaseProp):
    id = "C14"
    groups = ["HashConsts", "ShardLayout", "DedupFacts"]
    prop_file = "Props/C14.v"
    trusted_base = [
        "the data interface is an oracle (theorems) / a scripted table (stream dd); ShardFileManager answers in real sessions are judged by the oracle only (stream sess)",
        "f32 comparisons of DefragPrevention are modelled with exact rationals (argued exact for < 2^24 chunks per window)",
    ]
    assumptions = [
        "theorem hypotheses (StoreOk): no two xorbs of the store share a hash with different contents, no non-empty xorb hashes to zero, the first 8 bytes of distinct chunk hashes differ (the model keys the deduper's lookup by them), chunks are non-empty, every xorb the run uploads or registers is in the store, the data interface answers only with xorbs of the store (TableOk) and no xorb reaches 4 GiB",
        "global dedup queries do not add shards during a process_chunks call (single pass), as with the scripted interface",
    ]
    rule = ("stream dd: files as chunk-id sequences (fresh, repeated, external, fragmented alternation that triggers fragmentation prevention, tiny, empty) over scripted external xorbs, "
            "under 4 limit configurations, through the real FileDeduper / DataAggregator; every block's metrics, file record, cut xorbs and aggregated xorb compared with the model; "
            "stream sess: real FileUploadSession runs (see C01) checked by the conservation oracle; non-trivial = at least 5 chunks fed; distinct by sha256 of the case text")
    streams_wanted = ("dd", "sess")

    def streams(self, rng, tier):
        big = tier == "thorough"
        out = []
        for k, cfg in enumerate(ddgen.CONFIGS):
            cases = [{"id": "d%d_%d" % (k, i), "text": ddgen.gen_case(rng, cfg, big), "meta": {"cfg": k}} for i in range(12 if not big else 60)]
            out.append({"name": "dd", "cases": cases, "env": ddgen.env_of(cfg)})
        # sessions that write several shards (the session shard is flushed to a file of its own whenever it reaches a 2048-byte
        # target): the reported shard bytes are the sum over all of them (seed C14-r4m1 reports the last one)
        cfg = dict(sessgen.CONFIGS[0], HF_XET_MDB_SHARD_MIN_TARGET_SIZE="2048", XET_VERIF_SKIP_SHARD_INTEGRITY_CHECK="1")
        many = [{"id": "ms%d" % i, "text": sessgen.gen_case(rng, sessgen.CONFIGS[0], big), "meta": {"cfg": 0}} for i in range(6 if not big else 20)]
        out.append({"name": "sess", "cases": many, "env": cfg, "model": False, "timeout": 1200})
        return out + sessgen.streams(rng, tier)

    def nontrivial(self, stream, case, io):
        if case["text"].count(":") >= 5:
            return hashlib.sha256(case["text"].encode()).hexdigest()
        return None

    def count(self, counters, stream, case, io):
        if stream == "sess":
            counters["sessions"] = counters.get("sessions", 0) + sum(1 for o in io if o.startswith("E"))
            counters["session_files"] = counters.get("session_files", 0) + sum(1 for o in io if o.startswith("file "))
            return
        for o in io:
            m = re.match(r"F\d+ hash=\S+ tb=(\d+) db=(\d+) nb=(\d+) gb=\d+ fb=(\d+)", o)
            if m:
                counters["files"] = counters.get("files", 0) + 1
                if int(m.group(2)) > 0:
                    counters["files_with_dedup"] = counters.get("files_with_dedup", 0) + 1
                if int(m.group(4)) > 0:
                    counters["files_with_fragmentation_prevention"] = counters.get("files_with_fragmentation_prevention", 0) + 1
                if "regs=[]" not in o:
                    counters["files_seen_with_mid_file_xorbs"] = counters.get("files_seen_with_mid_file_xorbs", 0) + 1
            if o.startswith("AGG"):
                counters["aggregations"] = counters.get("aggregations", 0) + 1

    def selfcheck(self, counters, tier):
        return ["counter %s is zero" % k for k in ["files_with_dedup", "files_with_fragmentation_prevention", "files_seen_with_mid_file_xorbs", "aggregations"]
                if counters.get(k, 0) == 0]

    def known_match(self, failure, known):
        return None
