"""Generator of L2 session cases (stream `sess`) shared by C01 C02 C03 C11 C14 C15."""

CONFIGS = [
    {"HF_XET_TARGET_CHUNK_SIZE": "1024", "HF_XET_MAX_XORB_BYTES": "60000", "HF_XET_MAX_XORB_CHUNKS": "40", "HF_XET_NRANGES_IN_STREAMING_FRAGMENTATION_ESTIMATOR": "8"},
    {"HF_XET_TARGET_CHUNK_SIZE": "256", "HF_XET_MAX_XORB_BYTES": "4096", "HF_XET_MAX_XORB_CHUNKS": "1000", "HF_XET_NRANGES_IN_STREAMING_FRAGMENTATION_ESTIMATOR": "4",
     "HF_XET_INGESTION_BLOCK_SIZE": "3000"},
    {"HF_XET_TARGET_CHUNK_SIZE": "4096", "HF_XET_MAX_XORB_BYTES": "1000000", "HF_XET_MAX_XORB_CHUNKS": "3", "HF_XET_NRANGES_IN_STREAMING_FRAGMENTATION_ESTIMATOR": "128"},
    {},
]


def gen_case(rng, cfg, big=False):
    target = int(cfg.get("HF_XET_TARGET_CHUNK_SIZE", 65536))
    maxb = int(cfg.get("HF_XET_MAX_XORB_BYTES", 64 << 20))
    mn, mx = target // 8, target * 2
    blk = int(cfg.get("HF_XET_INGESTION_BLOCK_SIZE", 0))
    nid = [0]

    def fresh(n):
        nid[0] += 1
        return "%d:%d" % (nid[0], n)

    sizes = [0, 1, mn - 1, mn, mn + 1, mx - 1, mx, mx + 1, 3 * mx, min(maxb, 40 * target) - 7, min(maxb, 40 * target) + 9]
    ops = []
    catalog = []     # recipes cleaned in finalized sessions
    nsess = rng.choice([1, 2, 2, 3])
    salts = [None]
    if rng.random() < 0.25:
        salts = [None, bytes(rng.getrandbits(8) for _ in range(32)).hex()]
    fno = [0]
    for s in range(nsess):
        salt = salts[s % len(salts)]
        ops.append("S" if salt is None else "S %s" % salt)
        this = []
        if blk:
            # one add_data call longer than the ingestion block and not a multiple of it: the splitting loop of add_data with a
            # remainder (seed C14-m2 drops it)
            fno[0] += 1
            r0 = fresh(rng.choice([2, 3]) * blk + rng.randrange(1, blk))
            ops.append("f n%d %s all" % (fno[0], r0))
            this.append(r0)
        nfiles = rng.choice([1, 2, 3, 8 if not big else 30])
        for _ in range(nfiles):
            kind = rng.choice(["fresh", "fresh", "reupload", "extended", "recombined", "selfrepeat", "fragmented", "tiny", "empty"])
            if kind == "empty":
                recipe = "-"
            elif kind == "tiny":
                recipe = fresh(rng.choice([1, 2, 50, mn // 2 + 1]))
            elif kind == "fresh" or not catalog:
                n = rng.choice(sizes + [rng.randrange(1, 30 * target)])
                n = min(n, 600000 if not big else 5000000)
                recipe = fresh(n) if n > 0 else "-"
            elif kind == "reupload":
                recipe = rng.choice(catalog)
            elif kind == "extended":
                base = rng.choice(catalog)
                recipe = (base + "," if base != "-" else "") + fresh(rng.randrange(1, 5 * target))
            elif kind == "recombined":
                parts = [b for r in rng.sample(catalog, min(len(catalog), 3)) if r != "-" for b in r.split(",")]
                rng.shuffle(parts)
                recipe = ",".join(parts[:6]) or fresh(100)
            elif kind == "selfrepeat":
                b = fresh(rng.randrange(target, 6 * target))
                recipe = ",".join([b] * rng.randrange(2, 5) + [fresh(rng.randrange(1, target))])
            else:
                # alternate pieces of an old block with fresh pieces: many short dedup ranges
                old = rng.choice([r for r in catalog if r != "-"] or [fresh(20 * target)])
                oid, olen = old.split(",")[0].split(":")
                pieces = []
                for _ in range(rng.randrange(6, 40)):
                    pieces.append("%s:%s" % (oid, olen))
                    pieces.append(fresh(rng.randrange(1, 3 * target)))
                recipe = ",".join(pieces)
                if sum(int(p.split(":")[1]) for p in pieces) > (3000000 if not big else 20000000):
                    recipe = ",".join(pieces[:6])
            part = rng.choice(["all", "all", "1", "7", str(target), str(mx + 1), "100+0+1+%d" % (3 * target), str(max(1, mn - 64))])
            if part == "1" and recipe != "-" and sum(int(p.split(":")[1]) for p in recipe.split(",")) > 20000:
                part = "997"
            op = "fp" if rng.random() < 0.35 else "f"
            fno[0] += 1
            ops.append("%s n%d %s %s" % (op, fno[0], recipe, part))
            this.append(recipe)
        if s == 0:
            # the same bytes cleaned twice in one session, once in one call and once in pieces with an EMPTY piece in the middle
            # while the chunker holds a partial chunk (seed C03-r3m1 needs exactly that): the two pointers are equal
            r2 = fresh(5 * target + 1234)
            fno[0] += 2
            ops.append("f n%d %s all" % (fno[0] - 1, r2))
            ops.append("f n%d %s 100+0+1+%d" % (fno[0], r2, 3 * target))
            this.append(r2)
        ops.append("E")
        if salt is None:
            catalog += this
        if rng.random() < 0.5:
            ops.append("D")
        if rng.random() < 0.4:
            ops.append("M")     # cold start: the next session meets the stored state as a new process would
    ops.append("D")
    return " | ".join(ops)


def streams(rng, tier, per_cfg=None):
    big = tier == "thorough"
    out = []
    for k, cfg in enumerate(CONFIGS):
        n = per_cfg if per_cfg is not None else (6 if not big else 30)
        cases = [{"id": "s%d_%d" % (k, i), "text": gen_case(rng, cfg, big), "meta": {"cfg": k}} for i in range(n)]
        env = dict(cfg)
        # the crate's debug-only verify_shard_integrity() compares two key-sorted lists with different tie orders and
        # panics when one shard holds a chunk hash twice; switched off through the xet_verif hook (DESIGN.md, observations)
        env["XET_VERIF_SKIP_SHARD_INTEGRITY_CHECK"] = "1"
        out.append({"name": "sess", "cases": cases, "env": env, "model": False, "timeout": 1200})
    return out
