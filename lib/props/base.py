"""Base class of a property's check description."""


class BaseProp:
    groups = []
    prop_file = None
    trusted_base = []
    assumptions = []
    rule = ""

    def streams(self, rng, tier):
        return []

    def compare(self, stream, case, impl_obs, model_obs):
        """None when the observations agree, else a short reason."""
        if impl_obs != model_obs:
            return "observations differ: impl=%s model=%s" % (str(impl_obs)[:200], str(model_obs)[:200])
        return None

    def nontrivial(self, stream, case, impl_obs):
        return None

    def count(self, counters, stream, case, impl_obs):
        pass

    def selfcheck(self, counters, tier):
        return []

    def search_streams(self, rng, tier):
        """Further streams, run only when an obligation is broken and no failing input was found (expensive cases)."""
        return []

    def known_match(self, failure, known):
        return None

    def oracle_relevant(self, stream, line):
        """Oracle verdicts of shared streams carry property tags `[Cxx]`; a property judges the lines tagged with its id
        (and untagged ones)."""
        import re
        tags = re.findall(r"\[(C\d+)\]", line)
        return (not tags) or (self.id in tags)


def hexs(b):
    return b.hex() if b else "-"
