"""C01 -- upload then download returns every file byte-for-byte"""
import hashlib

from . import ddgen, sessgen
from .base import BaseProp


class Prop(BaseProp):
    id = "C01"
    groups = ["HashConsts", "ShardLayout", "ChunkConsts", "GearTable", "DedupFacts", "XorbLayout", "ReconFacts"]
    prop_file = "Props/C01.v"
    trusted_base = [
        "real sessions (FileUploadSession, SingleFileCleaner, ShardFileManager, LocalClient, FileDownloader) are judged by an independent oracle in the harness "
        "(own xorb/shard readers, blake3/sha2 called directly); the Coq model covers FileDeduper, DataAggregator and the session's aggregation logic over an oracle data interface",
        "tokio scheduling of concurrently cleaned files: sampled (fp files), covered in the model by the oracle quantifier",
    ]
    assumptions = [
        "C01_upload_then_download composes C04 (chunker), the resolution invariant, C07 (xorb range read) and C17 (writers): its one extra hypothesis is that the store returns, for the hash of each of the file's chunks, that chunk (content (hashf ch) = ch: no two different chunks of the store under one hash); the download modelled is the whole-file one (offset 0, the file's length), the fetch of a term is the chunk range of the named xorb (tied to the serialized object by C01_term_is_xorb_range_read); HTTP ranges, fetch-info coalescing and the chunk cache in between are C17's and C12's subject",
        "theorem hypotheses (StoreOk): no two xorbs of the store share a hash with different contents, no non-empty xorb hashes to zero, the first 8 bytes of distinct chunk hashes differ (the model keys the deduper's lookup by them), chunks are non-empty, every xorb the run uploads or registers is in the store, the data interface answers only with xorbs of the store (TableOk) and no xorb reaches 4 GiB",
        "configurations: HF_XET_TARGET_CHUNK_SIZE/MAX_XORB_BYTES/MAX_XORB_CHUNKS/NRANGES/INGESTION_BLOCK_SIZE scaled down through the code's own environment overrides (dev profile), one process per configuration",
        "the crate's debug-only shard self-check is switched off through the xet_verif hook (see DESIGN.md, observations)",
    ]
    rule = ("stream sess: sequences of sessions against one LocalClient store (fresh, re-uploaded, extended, recombined, self-repeating, fragmented, tiny and empty files; sequential and concurrent cleaning; 8 feed partitions; 4 limit configurations), every file downloaded whole and by ranges; stream dd: file records resolved against the xorbs they name; non-trivial = at least one non-empty file cleaned and a session finalized; distinct by sha256 of the case text")
    use_dd = True

    def streams(self, rng, tier):
        big = tier == "thorough"
        out = []
        if self.use_dd:
            for k, cfg in enumerate(ddgen.CONFIGS):
                cases = [{"id": "d%d_%d" % (k, i), "text": ddgen.gen_case(rng, cfg, big), "meta": {"cfg": k}} for i in range(8 if not big else 40)]
                out.append({"name": "dd", "cases": cases, "env": ddgen.env_of(cfg)})
        return out + sessgen.streams(rng, tier)

    def nontrivial(self, stream, case, io):
        if stream == "dd":
            return hashlib.sha256(case["text"].encode()).hexdigest() if case["text"].count(":") >= 5 else None
        if any(o.startswith("E") for o in io) and any(o.startswith("file ") and " size=0 " not in o for o in io):
            return hashlib.sha256(case["text"].encode()).hexdigest()
        return None

    def count(self, counters, stream, case, io):
        if stream == "dd":
            counters["dd_cases"] = counters.get("dd_cases", 0) + 1
            return
        counters["sessions"] = counters.get("sessions", 0) + sum(1 for o in io if o.startswith("E"))
        counters["downloads"] = counters.get("downloads", 0) + sum(1 for o in io if o.startswith("D "))
        for o in io:
            if o.startswith("file "):
                counters["files"] = counters.get("files", 0) + 1
                if " dedup=0 " not in o:
                    counters["files_with_dedup"] = counters.get("files_with_dedup", 0) + 1
                if " new=0 " in o and " size=0 " not in o:
                    counters["files_fully_deduplicated"] = counters.get("files_fully_deduplicated", 0) + 1
        counters["reupload_or_repeat_ops"] = counters.get("reupload_or_repeat_ops", 0) + case["text"].count(" fp ")

    def selfcheck(self, counters, tier):
        return ["counter %s is zero" % k for k in ["sessions", "downloads", "files_with_dedup", "files_fully_deduplicated"] if counters.get(k, 0) == 0]
