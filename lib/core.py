"""Generic pipeline of one check run: translate -> prove -> audit -> correspond -> oracle -> evidence."""
import concurrent.futures
import fcntl
import hashlib
import json
import os
import re
import shutil
import subprocess
import sys
import time

ROOT = os.path.dirname(os.path.dirname(os.path.abspath(__file__)))
REPO = os.environ.get("XV_REPO", "/repo")
CACHE = os.path.join(ROOT, ".cache")
COQ = os.path.join(ROOT, "coq")
NPROC = int(os.environ.get("XV_NPROC", "16"))
GUARD = "xet_verif"

FORBIDDEN = re.compile(r"\b(Admitted|admit|Axiom|Axioms|Parameter|Parameters|Conjecture|Admit Obligations|bypass_check)\b|Unset Guard|Unset Positivity|Unset Universe|type-in-type|impredicative-set|native_compute")
ALLOWED_AXIOMS = {
    # standard-library axioms that libraries/tactics may bring in; each is reported in the evidence
    "functional_extensionality_dep", "FunctionalExtensionality.functional_extensionality_dep",
    "proof_irrelevance", "ProofIrrelevance.proof_irrelevance", "Eqdep.Eq_rect_eq.eq_rect_eq", "JMeq_eq", "JMeq.JMeq_eq",
    "Classical_Prop.classic", "classic",
}


def log(msg):
    sys.stderr.write("[check] %s\n" % msg)
    sys.stderr.flush()


def sh(cmd, cwd=None, env=None, timeout=None, stdin=None):
    e = dict(os.environ)
    if env:
        e.update(env)
    p = subprocess.run(cmd, cwd=cwd, env=e, stdout=subprocess.PIPE, stderr=subprocess.STDOUT, timeout=timeout,
                       shell=isinstance(cmd, str), input=stdin)
    return p.returncode, p.stdout.decode("utf-8", "replace")


class BuildLock:
    def __enter__(self):
        os.makedirs(CACHE, exist_ok=True)
        self.f = open(os.path.join(CACHE, "build.lock"), "w")
        fcntl.flock(self.f, fcntl.LOCK_EX)
        return self

    def __exit__(self, *a):
        fcntl.flock(self.f, fcntl.LOCK_UN)
        self.f.close()


# ---------------------------------------------------------------------------
# build steps

def translate(groups):
    # every group is regenerated on every run (the sources may have changed since another check ran);
    # only the property's own groups decide whether its obligations are broken
    rc, out = sh([sys.executable, os.path.join(ROOT, "translate", "run.py")], cwd=ROOT, timeout=300)
    facts = {}
    try:
        with open(os.path.join(COQ, "Gen", "facts.json")) as f:
            facts = json.load(f)
    except (OSError, ValueError):
        pass
    errs = {g: facts.get(g, {}).get("error") or "not generated" for g in groups if not facts.get(g, {}).get("ok")}
    return errs, facts, out


def coq_makefile():
    mk = os.path.join(COQ, "Makefile")
    cp = os.path.join(COQ, "_CoqProject")
    if not os.path.exists(mk) or os.path.getmtime(mk) < os.path.getmtime(cp):
        sh(["coq_makefile", "-f", "_CoqProject", "-o", "Makefile"], cwd=COQ)


def coq_make(targets, timeout=1500):
    """Full .vo build of the targets (never -vos).  Returns (ok, log)."""
    coq_makefile()
    rc, out = sh(["make", "-j%d" % NPROC] + list(targets), cwd=COQ, timeout=timeout)
    return rc == 0, out


def coq_assumptions(prop_file):
    """Re-run coqc on Props/Cxx.v alone (cheap: it only contains `exact`s) to capture Print Assumptions output."""
    rc, out = sh(["coqc", "-Q", ".", "XetModel", "-w", "-notation-overridden", prop_file], cwd=COQ, timeout=600)
    closed = out.count("Closed under the global context")
    axioms = sorted(set(re.findall(r"^([A-Za-z_][\w.']*) :", out, flags=re.M)))
    return rc == 0, closed, axioms, out


def audit_sources():
    """Grep the whole development for forbidden constructs. Returns list of 'file:line: text'."""
    bad = []
    for d, _, fs in os.walk(COQ):
        for fn in fs:
            if not fn.endswith(".v"):
                continue
            p = os.path.join(d, fn)
            with open(p, encoding="utf-8", errors="replace") as f:
                text = f.read()
            # strip comments (nested) before matching
            text = strip_coq_comments(text)
            for i, line in enumerate(text.split("\n"), 1):
                if FORBIDDEN.search(line):
                    bad.append("%s:%d: %s" % (os.path.relpath(p, ROOT), i, line.strip()[:120]))
    return bad


def strip_coq_comments(t):
    out = []
    depth = 0
    i = 0
    n = len(t)
    while i < n:
        if t.startswith("(*", i):
            depth += 1
            i += 2
        elif t.startswith("*)", i) and depth > 0:
            depth -= 1
            i += 2
        else:
            if depth == 0:
                out.append(t[i])
            elif t[i] == "\n":
                out.append("\n")
            i += 1
    return "".join(out)


def count_theorems(prop_file):
    with open(os.path.join(COQ, prop_file)) as f:
        t = strip_coq_comments(f.read())
    return re.findall(r"^\s*(?:Theorem|Example)\s+(\w+)", t, flags=re.M)


def build_model():
    """Extract the models and build the OCaml driver when any Model/Gen/Extract source changed."""
    srcs = []
    for sub in ("Gen", "Model", "Base", "Extract"):
        d = os.path.join(COQ, sub)
        if os.path.isdir(d):
            for fn in sorted(os.listdir(d)):
                if fn.endswith(".v"):
                    srcs.append(os.path.join(d, fn))
    srcs.append(os.path.join(ROOT, "ocaml", "driver.ml"))
    h = hashlib.sha256()
    for p in srcs:
        with open(p, "rb") as f:
            h.update(p.encode() + b"\0" + f.read())
    stamp = os.path.join(CACHE, "model.stamp")
    dg = h.hexdigest()
    drv = os.path.join(ROOT, "ocaml", "driver")
    try:
        if os.path.exists(drv) and open(stamp).read() == dg:
            return True, "cached"
    except OSError:
        pass
    ok, out = coq_make(["Extract/Extract.vo"])
    if not ok:
        return False, out
    rc, out2 = sh(["bash", os.path.join(ROOT, "ocaml", "build.sh")], cwd=ROOT, timeout=900)
    if rc != 0:
        return False, out + out2
    with open(stamp, "w") as f:
        f.write(dg)
    return True, out2


def build_harness(profile="dev"):
    hd = os.path.join(ROOT, "harness")
    lock_src = os.path.join(REPO, "Cargo.lock")
    lock_dst = os.path.join(hd, "Cargo.lock")
    if not os.path.exists(lock_dst):
        shutil.copy(lock_src, lock_dst)
    env = {"CARGO_NET_OFFLINE": "true", "RUSTFLAGS": "--cfg %s" % GUARD, "CARGO_TARGET_DIR": os.path.join(CACHE, "target")}
    cmd = ["cargo", "build", "--offline", "--quiet"]
    if profile != "dev":
        cmd += ["--profile", profile]
    rc, out = sh(cmd, cwd=hd, env=env, timeout=3000)
    if rc != 0 and "Cargo.lock" in out:
        shutil.copy(lock_src, lock_dst)
        rc, out = sh(cmd, cwd=hd, env=env, timeout=3000)
    sub = "debug" if profile == "dev" else profile
    return rc == 0, out, os.path.join(CACHE, "target", sub, "xv")


# ---------------------------------------------------------------------------
# running the two executors

def _limit_address_space():
    # a reader that trusts a garbage length asks for tens of gigabytes; fail that allocation at once instead of paging
    import resource
    try:
        resource.setrlimit(resource.RLIMIT_AS, (24 << 30, 24 << 30))
    except (ValueError, OSError):
        pass


def _run_exec(cmd, env, timeout):
    e = dict(os.environ)
    e.update(env or {})
    try:
        p = subprocess.run(cmd, stdout=subprocess.PIPE, stderr=subprocess.PIPE, env=e, timeout=timeout,
                           preexec_fn=_limit_address_space if os.path.basename(cmd[0]) == "xv" else None)
        return p.returncode, p.stdout.decode("utf-8", "replace"), p.stderr.decode("utf-8", "replace")[-2000:]
    except subprocess.TimeoutExpired:
        return -9, "", "timeout"


def parse_lines(text):
    obs, orc = {}, {}
    for line in text.split("\n"):
        if line.startswith("obs "):
            _, cid, rest = (line.split(" ", 2) + [""])[:3]
            obs.setdefault(cid, []).append(rest)
        elif line.startswith("orc "):
            _, cid, rest = (line.split(" ", 2) + [""])[:3]
            orc.setdefault(cid, []).append(rest)
    return obs, orc


def run_both(stream, cases, scratch, xv, env=None, timeout=900, model=True, impl=True, shards=None, model_stream=None, prep=None, prep_impl=False):
    """cases: list of (id, text-after-id).  Returns (impl_obs, impl_orc, model_obs, errors).
    prep: name of a harness stream that prints `aux <id> <text>` lines (oracle tables for external codecs, or
    bytes built by the implementation's own serializer); they are appended to the model's case lines after ` ## `.
    prep_impl: the prep run is the implementation run (its output carries the obs/orc lines too); used when the
    implementation makes random choices that the model must be told about (cache eviction victims)."""
    shards = shards or NPROC
    os.makedirs(scratch, exist_ok=True)
    files = []
    n = max(1, min(shards, len(cases)))
    for k in range(n):
        p = os.path.join(scratch, "%s_%d.cases" % (stream, k))
        with open(p, "w") as f:
            for cid, text in cases[k::n]:
                f.write("%s %s\n" % (cid, text))
        files.append(p)
    mfiles = {p: p for p in files}
    pre_iobs, pre_iorc, pre_errors = {}, {}, []
    if prep and (model or prep_impl):
        with concurrent.futures.ThreadPoolExecutor(max_workers=NPROC) as ex:
            futs = {p: ex.submit(_run_exec, [xv, prep, p], env, timeout) for p in files}
        for p in files:
            rc, out, err = futs[p].result()
            if prep_impl:
                o, c = parse_lines(out)
                pre_iobs.update(o)
                pre_iorc.update(c)
                if rc != 0:
                    pre_errors.append("impl executor failed on %s (rc=%s): %s" % (os.path.basename(p), rc, err.strip()[-400:]))
            aux = {}
            for line in out.split("\n"):
                if line.startswith("aux "):
                    _, cid, rest = (line.split(" ", 2) + [""])[:3]
                    aux[cid] = rest
            mp = p + ".model"
            with open(p) as f, open(mp, "w") as g:
                for line in f:
                    cid = line.split(" ", 1)[0]
                    g.write(line.rstrip("\n") + " ## " + aux.get(cid, "") + "\n")
            mfiles[p] = mp
    jobs = []
    drv = os.path.join(ROOT, "ocaml", "driver")
    with concurrent.futures.ThreadPoolExecutor(max_workers=NPROC) as ex:
        for p in files:
            if impl and not prep_impl:
                jobs.append(("impl", p, ex.submit(_run_exec, [xv, stream, p], env, timeout)))
            if model:
                jobs.append(("model", p, ex.submit(_run_exec, ["bash", "-c", "ulimit -s unlimited 2>/dev/null; exec \"$0\" \"$1\" \"$2\"", drv, model_stream or stream, mfiles[p]], None, timeout)))
        iobs, iorc, mobs, errors = pre_iobs, pre_iorc, {}, pre_errors
        crashed_files = []
        for kind, p, fut in jobs:
            rc, out, err = fut.result()
            o, c = parse_lines(out)
            if kind == "impl":
                iobs.update(o)
                iorc.update(c)
            else:
                mobs.update(o)
            if rc != 0:
                errors.append("%s executor failed on %s (rc=%s): %s" % (kind, os.path.basename(p), rc, err.strip()[-400:]))
                if kind == "impl":
                    crashed_files.append(p)
    # a model executor that ran into its time limit (the extracted model is slow on the largest inputs, and slower still on a
    # loaded machine): the cases it did not reach are run again one per process; a case that still exceeds the limit is
    # reported as `MODEL-TIMEOUT <id>` -- it is not compared (a slow model is no evidence about the code), and the caller counts it
    if model:
        late = []
        for kind, p, fut in jobs:
            if kind != "model":
                continue
            rc, out, err = fut.result()
            if rc == -9 and err == "timeout":
                with open(mfiles[p]) as f:
                    for line in f:
                        cid = line.split(" ", 1)[0]
                        if cid and cid not in mobs:
                            lp = os.path.join(scratch, "mlone_%s.cases" % cid)
                            with open(lp, "w") as g:
                                g.write(line)
                            late.append((cid, lp))
        if late:
            with concurrent.futures.ThreadPoolExecutor(max_workers=NPROC) as ex:
                futs = [(cid, ex.submit(_run_exec, ["bash", "-c", "ulimit -s unlimited 2>/dev/null; exec \"$0\" \"$1\" \"$2\"", drv, model_stream or stream, lp], None, timeout)) for cid, lp in late]
            for cid, fut in futs:
                rc, out, err = fut.result()
                o, _ = parse_lines(out)
                mobs.update(o)
                if cid not in mobs and rc == -9 and err == "timeout":
                    errors.append("MODEL-TIMEOUT %s" % cid)
    # an implementation executor that died (abort, kill, stack overflow) takes the later cases of its file with it: run the
    # cases that produced nothing one per process, so that the crashing input is named and the others are still judged
    if impl and not prep_impl:
        lone = []
        for p in crashed_files:
            with open(p) as f:
                for line in f:
                    cid = line.split(" ", 1)[0]
                    if cid and cid not in iobs:
                        lp = os.path.join(scratch, "lone_%s.cases" % cid)
                        with open(lp, "w") as g:
                            g.write(line)
                        lone.append((cid, lp))
        with concurrent.futures.ThreadPoolExecutor(max_workers=NPROC) as ex:
            futs = [(cid, ex.submit(_run_exec, [xv, stream, lp], env, min(timeout, 300))) for cid, lp in lone]
        for cid, fut in futs:
            rc, out, err = fut.result()
            o, c = parse_lines(out)
            iobs.update(o)
            iorc.update(c)
            if cid not in iobs:
                iobs[cid] = ["PANIC"]
                iorc.setdefault(cid, []).append("FAIL the implementation process died on this case (rc=%s): %s" % (rc, err.strip()[-200:].replace("\n", " | ")))
    return iobs, iorc, mobs, errors


# ---------------------------------------------------------------------------
# known findings

def load_known():
    try:
        with open(os.path.join(ROOT, "known_findings.json")) as f:
            return json.load(f).get("findings", [])
    except (OSError, ValueError):
        return []


def write_json(path, obj):
    os.makedirs(os.path.dirname(path), exist_ok=True)
    tmp = path + ".tmp%d" % os.getpid()
    with open(tmp, "w") as f:
        json.dump(obj, f, indent=1, sort_keys=True)
        f.write("\n")
    os.replace(tmp, path)


def digest(s):
    return hashlib.sha256(s.encode() if isinstance(s, str) else s).hexdigest()[:16]
