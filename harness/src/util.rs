pub fn unhex(s: &str) -> Vec<u8> {
    if s == "-" {
        return vec![];
    }
    let b = s.as_bytes();
    assert!(b.len() % 2 == 0);
    let v = |c: u8| -> u8 {
        match c {
            b'0'..=b'9' => c - b'0',
            b'a'..=b'f' => c - b'a' + 10,
            _ => panic!("bad hex"),
        }
    };
    (0..b.len() / 2).map(|i| v(b[2 * i]) * 16 + v(b[2 * i + 1])).collect()
}

#[allow(dead_code)]
pub fn hex(b: &[u8]) -> String {
    if b.is_empty() {
        return "-".to_string();
    }
    let mut s = String::with_capacity(b.len() * 2);
    for x in b {
        s.push_str(&format!("{:02x}", x));
    }
    s
}

pub type Lines = Vec<(&'static str, String)>;
