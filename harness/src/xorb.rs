// C07 / C08: xorb serialization round trips and validation.
use std::io::Cursor;
use std::sync::atomic::{AtomicUsize, Ordering};

use cas_object::{CasObject, CasObjectInfoV1, CompressionScheme};
use merkledb::aggregate_hashes::cas_node_hash;
use merklehash::{compute_data_hash, DataHash, MerkleHash};

use crate::shard::cksum;
use crate::util::{hex, unhex, Lines};

// ---- allocation watermark (largest single request) ----
pub static MAX_ALLOC: AtomicUsize = AtomicUsize::new(0);
pub struct Watch;
unsafe impl std::alloc::GlobalAlloc for Watch {
    unsafe fn alloc(&self, l: std::alloc::Layout) -> *mut u8 {
        MAX_ALLOC.fetch_max(l.size(), Ordering::Relaxed);
        std::alloc::System.alloc(l)
    }
    unsafe fn dealloc(&self, p: *mut u8, l: std::alloc::Layout) {
        std::alloc::System.dealloc(p, l)
    }
    unsafe fn alloc_zeroed(&self, l: std::alloc::Layout) -> *mut u8 {
        MAX_ALLOC.fetch_max(l.size(), Ordering::Relaxed);
        std::alloc::System.alloc_zeroed(l)
    }
    unsafe fn realloc(&self, p: *mut u8, l: std::alloc::Layout, n: usize) -> *mut u8 {
        MAX_ALLOC.fetch_max(n, Ordering::Relaxed);
        std::alloc::System.realloc(p, l, n)
    }
}

fn scheme_of(s: &str) -> Option<CompressionScheme> {
    match s {
        "none" => Some(CompressionScheme::None),
        "lz4" => Some(CompressionScheme::LZ4),
        "bg4" => Some(CompressionScheme::ByteGrouping4LZ4),
        "auto" => None,
        _ => panic!("scheme"),
    }
}

// independent helpers (lz4_flex and blake3 used directly, nothing from xet-core)
fn lz4(data: &[u8]) -> Vec<u8> {
    use std::io::Write;
    let mut e = lz4_flex::frame::FrameEncoder::new(Vec::new());
    e.write_all(data).unwrap();
    e.finish().unwrap()
}
fn unlz4(data: &[u8]) -> Option<Vec<u8>> {
    use std::io::Read;
    let mut d = lz4_flex::frame::FrameDecoder::new(data);
    let mut out = vec![];
    d.read_to_end(&mut out).ok()?;
    Some(out)
}
fn split4(d: &[u8]) -> Vec<u8> {
    let mut out = Vec::with_capacity(d.len());
    for g in 0..4 {
        let mut i = g;
        while i < d.len() {
            out.push(d[i]);
            i += 4;
        }
    }
    out
}
fn regroup4(g: &[u8]) -> Vec<u8> {
    let n = g.len();
    let sizes = [(n + 3) / 4, (n + 2) / 4, (n + 1) / 4, n / 4];
    let starts = [0, sizes[0], sizes[0] + sizes[1], sizes[0] + sizes[1] + sizes[2]];
    (0..n).map(|j| g[starts[j % 4] + j / 4]).collect()
}
const DATA_KEY: [u8; 32] = [
    102, 151, 245, 119, 91, 149, 80, 222, 49, 53, 203, 172, 165, 151, 24, 28, 157, 228, 33, 16, 155, 235, 43, 88, 180, 208, 176, 75, 147, 173,
    242, 41,
];
fn indep_chunk_hash(d: &[u8]) -> MerkleHash {
    DataHash::from_slice(blake3::keyed_hash(&DATA_KEY, d).as_bytes()).unwrap()
}

// independent decoding of the chunk region [0, end): Some(list of chunk data) or None if malformed
fn indep_decode(bytes: &[u8], end: usize) -> Option<Vec<Vec<u8>>> {
    let mut pos = 0;
    let mut out = vec![];
    while pos < end {
        if pos + 8 > end {
            return None;
        }
        let h = &bytes[pos..pos + 8];
        let clen = h[1] as usize | (h[2] as usize) << 8 | (h[3] as usize) << 16;
        let ulen = h[5] as usize | (h[6] as usize) << 8 | (h[7] as usize) << 16;
        if h[0] != 0 || pos + 8 + clen > end {
            return None;
        }
        let p = &bytes[pos + 8..pos + 8 + clen];
        let d = match h[4] {
            0 => p.to_vec(),
            1 => unlz4(p)?,
            2 => regroup4(&unlz4(p)?),
            _ => return None,
        };
        if d.len() != ulen {
            return None;
        }
        out.push(d);
        pos += 8 + clen;
    }
    Some(out)
}

pub struct Xorb {
    pub chunks: Vec<Vec<u8>>,
    pub hashes: Vec<MerkleHash>,
    pub hash: MerkleHash,
    pub bytes: Vec<u8>,
    pub cas: CasObject,
}

pub fn build_xorb(chunks: Vec<Vec<u8>>, scheme: Option<CompressionScheme>) -> Xorb {
    let hashes: Vec<MerkleHash> = chunks.iter().map(|c| compute_data_hash(c)).collect();
    let nodes: Vec<(MerkleHash, usize)> = hashes.iter().zip(&chunks).map(|(h, c)| (*h, c.len())).collect();
    let hash = cas_node_hash(&nodes);
    let mut data = vec![];
    let mut cb = vec![];
    for (h, c) in hashes.iter().zip(&chunks) {
        data.extend_from_slice(c);
        cb.push((*h, data.len() as u32));
    }
    let mut w = Cursor::new(Vec::new());
    let (cas, n) = CasObject::serialize(&mut w, &hash, &data, &cb, scheme).unwrap();
    let bytes = w.into_inner();
    assert_eq!(n, bytes.len());
    Xorb { chunks, hashes, hash, bytes, cas }
}

fn parse_chunks(s: &str) -> Vec<Vec<u8>> {
    s.split(',').map(unhex).collect()
}

// aux for the model: per chunk  choice:lz4(chunk):lz4(split(chunk))
pub fn prep_c07(toks: &[&str]) -> Lines {
    let chunks = parse_chunks(toks[1]);
    let parts: Vec<String> = chunks
        .iter()
        .map(|c| {
            let ch = CompressionScheme::choose_from_data(c) as u8;
            format!("{}:{}:{}", ch, hex(&lz4(c)), hex(&lz4(&split4(c))))
        })
        .collect();
    vec![("aux", parts.join(","))]
}

pub fn run_c07(toks: &[&str]) -> Lines {
    let scheme = scheme_of(toks[0]);
    let chunks = parse_chunks(toks[1]);
    let x = build_xorb(chunks, scheme);
    let mut out: Lines = vec![];
    let mut why: Vec<String> = vec![];
    out.push(("obs", format!("ser {} il={}", cksum(&x.bytes), x.cas.info_length)));
    // schemes actually used per chunk
    let n = x.chunks.len();
    let mut rd = Cursor::new(&x.bytes);
    let cas = match CasObject::deserialize(&mut rd) {
        Ok(c) => c,
        Err(e) => {
            out.push(("obs", format!("deserialize-error {:?}", e)));
            out.push(("orc", "FAIL deserialize-of-own-output".to_string()));
            return out;
        },
    };
    if cas != x.cas {
        why.push("footer-reload-differs".into());
    }
    // footer fields vs input
    let mut unp = vec![];
    let mut t = 0u32;
    for c in &x.chunks {
        t += c.len() as u32;
        unp.push(t);
    }
    if cas.info.num_chunks as usize != n || cas.info.chunk_hashes != x.hashes || cas.info.unpacked_chunk_offsets != unp || cas.info.cashash != x.hash {
        why.push("footer-fields".into());
    }
    // boundaries: cumulative physical ends, re-derived by the independent decoder
    let end = *cas.info.chunk_boundary_offsets.last().unwrap() as usize;
    match indep_decode(&x.bytes, end) {
        Some(d) if d == x.chunks => {},
        _ => why.push("independent-decode-of-chunk-region-differs".into()),
    }
    let mut pos = 0usize;
    for (i, b) in cas.info.chunk_boundary_offsets.iter().enumerate() {
        let clen = x.bytes[pos + 1] as usize | (x.bytes[pos + 2] as usize) << 8 | (x.bytes[pos + 3] as usize) << 16;
        pos += 8 + clen;
        if pos != *b as usize {
            why.push(format!("boundary{}", i));
            break;
        }
    }
    // whole object and ranges
    let all: Vec<u8> = x.chunks.concat();
    match cas.get_all_bytes(&mut rd) {
        Ok(d) if d == all => {},
        _ => why.push("get_all_bytes".into()),
    }
    // the seekable readers over a source that answers every read with a short, irregular piece
    for pat in [0usize, 1, 2] {
        let mut sr = crate::shard::ShortRead { data: &x.bytes, pos: 0, k: pat };
        match CasObject::deserialize(&mut sr) {
            Ok(c2) if c2 == x.cas => {},
            _ => why.push(format!("deserialize-short-reads-pattern{}", pat)),
        }
        match cas.get_all_bytes(&mut sr) {
            Ok(d) if d == all => {},
            _ => why.push(format!("get_all_bytes-short-reads-pattern{}", pat)),
        }
        for (a, b) in [(0u32, 1u32), (0, n as u32), (n as u32 / 2, n as u32), (n as u32 - 1, n as u32)] {
            if a < b {
                match cas.get_bytes_by_chunk_range(&mut sr, a, b) {
                    Ok(d) if d == x.chunks[a as usize..b as usize].concat() => {},
                    _ => why.push(format!("range{}-{}-short-reads-pattern{}", a, b, pat)),
                }
            }
        }
    }
    let ranges: Vec<(u32, u32)> = if toks.len() > 2 && !toks[2].is_empty() {
        toks[2].split(',').map(|r| { let (a, b) = r.split_once('-').unwrap(); (a.parse().unwrap(), b.parse().unwrap()) }).collect()
    } else {
        vec![]
    };
    let mut robs = vec![];
    for (a, b) in &ranges {
        let valid = a < b && (*b as usize) <= n;
        let r = cas.get_bytes_by_chunk_range(&mut rd, *a, *b);
        let l = cas.uncompressed_range_length(*a, *b);
        match (&r, valid) {
            (Ok(d), true) => {
                let want: Vec<u8> = x.chunks[*a as usize..*b as usize].concat();
                if *d != want {
                    why.push(format!("range{}-{}", a, b));
                }
                if l.as_ref().ok() != Some(&(want.len() as u32)) {
                    why.push(format!("rangelen{}-{}", a, b));
                }
                robs.push(format!("{}-{}:{}", a, b, cksum(d)));
            },
            (Err(_), false) => robs.push(format!("{}-{}:err", a, b)),
            (Ok(_), false) => {
                why.push(format!("invalid-range-served{}-{}", a, b));
                robs.push(format!("{}-{}:served", a, b));
            },
            (Err(_), true) => {
                why.push(format!("valid-range-refused{}-{}", a, b));
                robs.push(format!("{}-{}:err", a, b));
            },
        }
    }
    out.push(("obs", format!("ranges {}", robs.join(" "))));
    // three decoders on the chunk region
    let region = &x.bytes[..end];
    let sync = cas_object::deserialize_chunks(&mut Cursor::new(region));
    let rt = tokio::runtime::Builder::new_current_thread().enable_all().build().unwrap();
    let asy = rt.block_on(cas_object::deserialize_async::deserialize_chunks_from_async_read(&mut Cursor::new(region)));
    let pieces: Vec<Result<bytes::Bytes, std::io::Error>> = region.chunks(1000).map(|c| Ok(bytes::Bytes::copy_from_slice(c))).collect();
    let st = rt.block_on(cas_object::deserialize_async::deserialize_chunks_from_stream(futures::stream::iter(pieces)));
    let mut idx = vec![0u32];
    idx.extend(unp.iter());
    for (name, r) in [("sync", sync.ok()), ("async", asy.ok()), ("stream", st.ok())] {
        match r {
            Some((d, i)) if d == all && i == idx => {},
            _ => why.push(format!("decoder-{}", name)),
        }
    }
    // the same three decoders over sources that deliver the bytes in short, irregular pieces
    for pat in [0usize, 1, 2] {
        use crate::shard::ShortRead;
        let s2 = cas_object::deserialize_chunks(&mut ShortRead { data: region, pos: 0, k: pat });
        let a2 = rt.block_on(cas_object::deserialize_async::deserialize_chunks_from_async_read(&mut ShortRead { data: region, pos: 0, k: pat }));
        let pieces: Vec<Result<bytes::Bytes, std::io::Error>> = ShortRead::pieces(region, pat).into_iter().map(|c| Ok(bytes::Bytes::from(c))).collect();
        let t2 = rt.block_on(cas_object::deserialize_async::deserialize_chunks_from_stream(futures::stream::iter(pieces)));
        for (name, r) in [("sync", s2.ok()), ("async", a2.ok()), ("stream", t2.ok())] {
            match r {
                Some((d, i)) if d == all && i == idx => {},
                _ => why.push(format!("decoder-{}-short-reads-pattern{}", name, pat)),
            }
        }
        let sv = rt.block_on(cas_object::validate_cas_object_from_async_read(&mut ShortRead { data: &x.bytes, pos: 0, k: pat }, &x.hash));
        if !matches!(sv, Ok(Some(_))) {
            why.push(format!("stream-validator-rejects-valid-short-reads-pattern{}", pat));
        }
    }
    // both validators accept it for its own hash and reject another
    let other = compute_data_hash(b"some other hash");
    match CasObject::validate_cas_object(&mut Cursor::new(&x.bytes), &x.hash) {
        Ok(Some(_)) => {},
        _ => why.push("seekable-validator-rejects-valid".into()),
    }
    match CasObject::validate_cas_object(&mut Cursor::new(&x.bytes), &other) {
        Ok(None) => {},
        _ => why.push("seekable-validator-accepts-wrong-hash".into()),
    }
    let sv = rt.block_on(cas_object::validate_cas_object_from_async_read(&mut futures::io::Cursor::new(&x.bytes), &x.hash));
    if !matches!(sv, Ok(Some(_))) {
        why.push("stream-validator-rejects-valid".into());
    }
    let sv = rt.block_on(cas_object::validate_cas_object_from_async_read(&mut futures::io::Cursor::new(&x.bytes), &other));
    if !matches!(sv, Ok(None)) {
        why.push("stream-validator-accepts-wrong-hash".into());
    }
    // without the footer
    let sv = rt.block_on(cas_object::validate_cas_object_from_async_read(&mut futures::io::Cursor::new(region), &x.hash));
    if !matches!(sv, Ok(Some(_))) {
        why.push("stream-validator-rejects-footerless".into());
    }
    out.push(("orc", if why.is_empty() { "ok".to_string() } else { format!("FAIL {}", why.join(",")) }));
    out
}

// a xorb at the size limits (oracle only: the data is generated here from a seed, the case text stays short):
//   <scheme> <nchunks> <chunk_len> <seed> <kind: r(andom)|t(ext-like)>
// serialize, reload, read the whole object and a few ranges, compare with the input
pub fn run_c07big(toks: &[&str]) -> Lines {
    let scheme = scheme_of(toks[0]);
    let n: usize = toks[1].parse().unwrap();
    let len: usize = toks[2].parse().unwrap();
    let mut st: u64 = toks[3].parse::<u64>().unwrap().wrapping_mul(0x9E3779B97F4A7C15) | 1;
    let text = toks.get(4) == Some(&"t");
    let mut chunks: Vec<Vec<u8>> = Vec::with_capacity(n);
    for _ in 0..n {
        let mut c = Vec::with_capacity(len);
        while c.len() < len {
            st ^= st << 13;
            st ^= st >> 7;
            st ^= st << 17;
            if text {
                c.extend_from_slice(&[b'a' + (st % 7) as u8; 8]);
            } else {
                c.extend_from_slice(&st.to_le_bytes());
            }
        }
        c.truncate(len);
        chunks.push(c);
    }
    let x = build_xorb(chunks, scheme);
    let mut why: Vec<String> = vec![];
    let mut rd = Cursor::new(&x.bytes);
    let total: usize = x.chunks.iter().map(|c| c.len()).sum();
    match CasObject::deserialize(&mut rd) {
        Err(e) => why.push(format!("deserialize-of-own-output:{:?}", e)),
        Ok(cas) => {
            if cas != x.cas {
                why.push("footer-reload-differs".into());
            }
            match cas.get_all_bytes(&mut rd) {
                Ok(d) if d.len() == total && d == x.chunks.concat() => {},
                Ok(d) => why.push(format!("get_all_bytes-{}-of-{}", d.len(), total)),
                Err(e) => why.push(format!("get_all_bytes-error:{:?}", e)),
            }
            let n32 = n as u32;
            for (a, b) in [(0u32, 1u32), (n32 - 1, n32), (n32 / 2, n32 / 2 + 2), (0, n32)] {
                if a < b && b <= n32 {
                    match cas.get_bytes_by_chunk_range(&mut rd, a, b) {
                        Ok(d) if d == x.chunks[a as usize..b as usize].concat() => {},
                        Ok(_) => why.push(format!("range{}-{}-differs", a, b)),
                        Err(e) => why.push(format!("range{}-{}-error:{:?}", a, b, e)),
                    }
                    match cas.uncompressed_range_length(a, b) {
                        Ok(l) if l as usize == x.chunks[a as usize..b as usize].iter().map(|c| c.len()).sum::<usize>() => {},
                        r => why.push(format!("range-length{}-{}:{:?}", a, b, r)),
                    }
                }
            }
        },
    }
    vec![
        ("obs", format!("big n={} bytes={} physical={}", n, total, x.bytes.len())),
        ("orc", if why.is_empty() { "ok".to_string() } else { format!("FAIL {}", why.join(",")) }),
    ]
}

// bg4: split/regroup variants of the crate against the independent ones, on raw data
pub fn run_bg4(toks: &[&str]) -> Lines {
    use cas_object::byte_grouping::bg4::*;
    let d = unhex(toks[0]);
    let mut why = vec![];
    let s = bg4_split(&d);
    if s != split4(&d) {
        why.push("split");
    }
    let sep = bg4_split_separate(&d);
    if sep.concat() != s {
        why.push("split_separate");
    }
    if bg4_regroup(&s) != d {
        why.push("regroup");
    }
    if bg4_regroup_together(&s) != d {
        why.push("regroup_together");
    }
    if bg4_regroup_together_combined_write_4(&s) != d {
        why.push("regroup_combined_write_4");
    }
    if bg4_regroup_separate(&sep) != d {
        why.push("regroup_separate");
    }
    vec![("obs", format!("split {}", hex(&s))), ("orc", if why.is_empty() { "ok".to_string() } else { format!("FAIL {}", why.join(",")) })]
}

// ---- C08 ----
fn cat<T>(r: &Result<Option<T>, cas_object::error::CasObjectError>) -> &'static str {
    match r {
        Ok(Some(_)) => "accept",
        Ok(None) => "reject",
        Err(_) => "error",
    }
}

fn mutate(x: &Xorb, m: &str) -> Vec<u8> {
    let mut b = x.bytes.clone();
    for one in m.split('+') {
        b = mutate_one(x, b, one);
    }
    b
}

fn mutate_one(x: &Xorb, mut b: Vec<u8>, m: &str) -> Vec<u8> {
    let p: Vec<&str> = m.split(':').collect();
    let n = b.len();
    match p[0] {
        "id" => {},
        "flip" => {
            // flip:<offset from end>:<bit>
            let o: usize = p[1].parse().unwrap();
            if o >= 1 && o <= n {
                b[n - o] ^= 1 << p[2].parse::<u32>().unwrap();
            }
        },
        "flipat" => {
            let o: usize = p[1].parse().unwrap();
            if o < n {
                b[o] ^= 1 << p[2].parse::<u32>().unwrap();
            }
        },
        "trunc" => {
            let k: usize = p[1].parse().unwrap();
            b.truncate(n.saturating_sub(k));
        },
        "cut" => {
            let k: usize = p[1].parse().unwrap();
            b.truncate(k.min(n));
        },
        "set32" => {
            // set32:<offset from end>:<value>   little-endian u32 at that position
            let o: usize = p[1].parse().unwrap();
            let v: u32 = p[2].parse().unwrap();
            if o >= 4 && o <= n {
                b[n - o..n - o + 4].copy_from_slice(&v.to_le_bytes());
            }
        },
        "set24" => {
            // set24:<absolute offset>:<value>  (chunk header length fields)
            let o: usize = p[1].parse().unwrap();
            let v: u32 = p[2].parse().unwrap();
            if o + 3 <= n {
                b[o..o + 3].copy_from_slice(&v.to_le_bytes()[..3]);
            }
        },
        "append" => b.extend_from_slice(&unhex(p[1])),
        "gap" => {
            // bytes the footer does not account for, between the last chunk it lists and the footer itself
            let end = *x.cas.info.chunk_boundary_offsets.last().unwrap() as usize;
            let ins = unhex(p[1]);
            b.splice(end..end, ins);
        },
        "gapchunk" => {
            // a whole extra chunk (a copy of the first one) there
            let end = *x.cas.info.chunk_boundary_offsets.last().unwrap() as usize;
            let e = x.cas.info.chunk_boundary_offsets[0] as usize;
            let first: Vec<u8> = b[..e].to_vec();
            b.splice(end..end, first);
        },
        "nofooter" => {
            let end = *x.cas.info.chunk_boundary_offsets.last().unwrap() as usize;
            b.truncate(end);
        },
        "dropchunk" => {
            // remove the first chunk's bytes (splice), footer untouched
            let e = x.cas.info.chunk_boundary_offsets[0] as usize;
            b.drain(0..e);
        },
        "dupchunk" => {
            let e = x.cas.info.chunk_boundary_offsets[0] as usize;
            let first: Vec<u8> = b[..e].to_vec();
            b.splice(0..0, first);
        },
        "random" => {
            b = unhex(p[1]);
        },
        "v0" => {
            // the same chunk region under a legacy (version 0) footer: identifier, version, hash, count, boundaries, chunk hashes,
            // 16 spare bytes, then the footer length
            let end = *x.cas.info.chunk_boundary_offsets.last().unwrap() as usize;
            let mut v0 = cas_object::CasObjectInfoV0::default();
            v0.cashash = x.cas.info.cashash;
            v0.num_chunks = x.cas.info.num_chunks;
            v0.chunk_boundary_offsets = x.cas.info.chunk_boundary_offsets.clone();
            v0.chunk_hashes = x.cas.info.chunk_hashes.clone();
            b.truncate(end);
            let mut w = Cursor::new(Vec::new());
            #[allow(deprecated)]
            let n = v0.serialize(&mut w).unwrap() as u32;
            b.extend_from_slice(&w.into_inner());
            b.extend_from_slice(&n.to_le_bytes());
        },
        "sethash" => {
            // the xorb hash recorded in the footer replaced by the hash that `otherhash` claims: a footer that describes the chunks
            // exactly but attests another object's hash
            let end = *x.cas.info.chunk_boundary_offsets.last().unwrap() as usize;
            let old = x.hash.as_bytes().to_vec();
            let new = compute_data_hash(b"zzz");
            let mut i = end;
            while i + 32 <= b.len() {
                if b[i..i + 32] == old[..] {
                    b[i..i + 32].copy_from_slice(new.as_bytes());
                    i += 32;
                } else {
                    i += 1;
                }
            }
        },
        _ => panic!("mutation"),
    }
    b
}

fn guarded<T>(f: impl FnOnce() -> T + std::panic::UnwindSafe) -> (Option<T>, usize) {
    MAX_ALLOC.store(0, Ordering::Relaxed);
    let r = std::panic::catch_unwind(f).ok();
    (r, MAX_ALLOC.load(Ordering::Relaxed))
}

pub fn mutated_bytes(toks: &[&str]) -> (Xorb, Vec<u8>, MerkleHash) {
    let scheme = scheme_of(toks[0]);
    let x = build_xorb(parse_chunks(toks[1]), scheme);
    let b = mutate(&x, toks[2]);
    let h = if toks.len() > 3 && toks[3] == "otherhash" { compute_data_hash(b"zzz") } else { x.hash };
    (x, b, h)
}

pub fn prep_c08(toks: &[&str]) -> Lines {
    let (_, b, h) = mutated_bytes(toks);
    vec![("aux", format!("{} {}", hex(&b), hex(h.as_bytes())))]
}

pub fn run_c08(toks: &[&str]) -> Lines {
    let (_x, b, h) = mutated_bytes(toks);
    let mut out: Lines = vec![];
    let mut why: Vec<String> = vec![];
    let limit = 64 * 1024 * 1024usize.max(64 * b.len());
    let rt = tokio::runtime::Builder::new_current_thread().enable_all().build().unwrap();

    let bb = b.clone();
    let (r1, a1) = guarded(move || CasObject::validate_cas_object(&mut Cursor::new(&bb), &h));
    let c1 = r1.as_ref().map(cat).unwrap_or("PANIC");
    let bb = b.clone();
    let (r2, a2) = guarded(std::panic::AssertUnwindSafe(|| {
        rt.block_on(cas_object::validate_cas_object_from_async_read(&mut futures::io::Cursor::new(&bb), &h))
    }));
    let c2 = r2.as_ref().map(cat).unwrap_or("PANIC");
    let bb = b.clone();
    let (r3, a3) = guarded(move || CasObjectInfoV1::deserialize_only_boundaries_section(&mut Cursor::new(&bb)).map(Some));
    let c3 = match &r3 {
        None => "PANIC",
        Some(Ok(_)) => "accept",
        Some(Err(cas_object::error::CasObjectError::FormatError(_))) => "reject",
        Some(Err(_)) => "error",
    };
    let bb = b.clone();
    let (r4, a4) = guarded(move || CasObject::deserialize(&mut Cursor::new(&bb)).map(Some));
    let c4 = match &r4 {
        None => "PANIC",
        Some(Ok(_)) => "accept",
        Some(Err(cas_object::error::CasObjectError::FormatError(_))) => "reject",
        Some(Err(_)) => "error",
    };
    // the streaming validator must reach the same verdict when the bytes arrive in short, irregular pieces
    for pat in [0usize, 1] {
        let bb = b.clone();
        let (r5, a5) = guarded(std::panic::AssertUnwindSafe(|| {
            rt.block_on(cas_object::validate_cas_object_from_async_read(&mut crate::shard::ShortRead { data: &bb, pos: 0, k: pat }, &h))
        }));
        let c5 = r5.as_ref().map(cat).unwrap_or("PANIC");
        if c5 != c2 {
            why.push(format!("stream-validator-verdict-depends-on-read-sizes:{}-vs-{}", c2, c5));
        }
        if a5 > limit {
            why.push(format!("stream-short-reads-allocated-{}-bytes-for-{}-byte-input", a5, b.len()));
        }
    }
    out.push(("obs", format!("seek={} stream={} bnd={} footer={}", c1, c2, c3, c4)));
    for (n, c) in [("seekable", c1), ("stream", c2), ("boundaries-only", c3), ("footer", c4)] {
        if c == "PANIC" {
            why.push(format!("{}-panicked", n));
        }
    }
    for (n, a) in [("seekable", a1), ("stream", a2), ("boundaries-only", a3), ("footer", a4)] {
        if a > limit {
            why.push(format!("{}-allocated-{}-bytes-for-{}-byte-input", n, a, b.len()));
        }
    }
    // soundness: acceptance implies the chunks decode, hash to h and match the footer relied upon
    let check_accept = |footer: Option<&CasObjectInfoV1>, why: &mut Vec<String>, tag: &str| {
        let end = match footer {
            Some(i) => i.chunk_boundary_offsets.last().copied().unwrap_or(0) as usize,
            None => b.len(),
        };
        // for the streaming validator without footer / with a V0 footer the chunk region is found by walking
        let end = if footer.is_none() {
            let mut pos = 0usize;
            loop {
                if pos + 8 > b.len() || b[pos..pos + 7] == [b'X', b'E', b'T', b'B', b'L', b'O', b'B'] {
                    break;
                }
                let clen = b[pos + 1] as usize | (b[pos + 2] as usize) << 8 | (b[pos + 3] as usize) << 16;
                pos += 8 + clen;
            }
            pos.min(b.len())
        } else {
            end
        };
        match indep_decode(&b, end.min(b.len())) {
            None => why.push(format!("{}-accepted-undecodable-chunks", tag)),
            Some(ch) => {
                let nodes: Vec<(MerkleHash, usize)> = ch.iter().map(|c| (indep_chunk_hash(c), c.len())).collect();
                if crate::c06::indep_root(&nodes) != h {
                    why.push(format!("{}-accepted-hash-inconsistent-object", tag));
                }
                if let Some(i) = footer {
                    let hs: Vec<MerkleHash> = nodes.iter().map(|n| n.0).collect();
                    let mut t = 0u32;
                    let unp: Vec<u32> = ch.iter().map(|c| { t += c.len() as u32; t }).collect();
                    // the footer handed back to the caller must describe the chunk data: unpacked offsets are either
                    // absent (V0 footers) or exact
                    if i.chunk_hashes != hs || i.num_chunks as usize != ch.len() || (!i.unpacked_chunk_offsets.is_empty() && i.unpacked_chunk_offsets != unp) || i.cashash != h {
                        why.push(format!("{}-accepted-footer-mismatch", tag));
                    }
                }
            },
        }
    };
    if let Some(Ok(Some(c))) = &r1 {
        check_accept(Some(&c.info), &mut why, "seekable");
        if c.info_length as usize + 4 + *c.info.chunk_boundary_offsets.last().unwrap_or(&0) as usize != b.len() {
            why.push("seekable-accepted-gap-before-footer".into());
        }
    }
    if let Some(Ok(Some((c, back)))) = &r2 {
        check_accept(if back.is_none() { Some(&c.info) } else { None }, &mut why, "stream");
    }
    out.push(("orc", if why.is_empty() { "ok".to_string() } else { format!("FAIL {}", why.join(",")) }));
    out
}
