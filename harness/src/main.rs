// xv: the Rust side of the correspondence check.  Reads a case file, runs the real xet-core
// code on every case and prints one canonical observation line per case (`obs <id> ...`) plus
// direct-oracle verdicts (`orc <id> ok` / `orc <id> FAIL <why>`).
mod c04;
mod c06;
mod cache;
mod crash;
mod dedup;
mod fslimit;
mod recon;
mod sess;
mod sf;
mod upl;
mod shard;
mod xorb;

#[global_allocator]
static GLOBAL: xorb::Watch = xorb::Watch;
mod util;

use std::io::{BufRead, Write};

fn main() {
    let args: Vec<String> = std::env::args().collect();
    if args.len() < 3 {
        eprintln!("usage: xv <stream> <casefile>");
        std::process::exit(2);
    }
    let stream = args[1].as_str();
    if stream == "crashchild" {
        crash::child(&args[2..]);
        return;
    }
    if stream == "crashverify" {
        crash::verify(&args[2..]);
        return;
    }
    let f = std::fs::File::open(&args[2]).expect("case file");
    let out = std::io::stdout();
    let mut out = std::io::BufWriter::new(out.lock());
    for line in std::io::BufReader::new(f).lines() {
        let line = line.unwrap();
        let line = line.trim();
        if line.is_empty() || line.starts_with('#') {
            continue;
        }
        let toks: Vec<&str> = line.split(' ').collect();
        let id = toks[0];
        let res = std::panic::catch_unwind(|| match stream {
            "c04" => c04::run(&toks[1..]),
            "c06" => c06::run(&toks[1..]),
            "c09" => shard::run_c09(&toks[1..]),
            "c05" => shard::run_c05(&toks[1..]),
            "c05m" => shard::run_c05m(&toks[1..]),
            "c10" => shard::run_c10(&toks[1..]),
            "c10c" => shard::run_c10c(&toks[1..]),
            "c18" => shard::run_c18(&toks[1..]),
            "c18m" => shard::run_c18m(&toks[1..]),
            "mgr" => shard::run_mgr(&toks[1..]),
            "dd" => dedup::run(&toks[1..]),
            "cache" => cache::run(&toks[1..]),
            "crash" => crash::run(&toks[1..]),
            "sf" => sf::run(&toks[1..]),
            "recon" => recon::run(&toks[1..]),
            "upl" => upl::run(&toks[1..]),
            "sess" => sess::run(&toks[1..]),
            "c07" => xorb::run_c07(&toks[1..]),
            "c07big" => xorb::run_c07big(&toks[1..]),
            "c07prep" => xorb::prep_c07(&toks[1..]),
            "bg4" => xorb::run_bg4(&toks[1..]),
            "c08" | "c08z" => xorb::run_c08(&toks[1..]),
            "c08prep" => xorb::prep_c08(&toks[1..]),
            _ => panic!("unknown stream"),
        });
        match res {
            Ok(lines) => {
                for (kind, l) in lines {
                    writeln!(out, "{} {} {}", kind, id, l).unwrap();
                }
            },
            Err(_) => {
                writeln!(out, "obs {} PANIC", id).unwrap();
            },
        }
    }
    out.flush().unwrap();
}
