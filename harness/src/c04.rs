// C04: the real Chunker driven through next_block/finish on a scripted call list.
// case:  <target> <hex>:<0|1>;<hex>:<0|1>;...      ("-" = empty data, "" = no calls)
use deduplication::Chunker;
use merklehash::compute_data_hash;

use crate::util::{unhex, Lines};

// Independent statement of the reference rule (scalar gear hash, written from its description).
fn reference_chunks(data: &[u8], target: usize, div: usize, mult: usize) -> Vec<usize> {
    let table = &gearhash::DEFAULT_TABLE;
    let minc = target / div;
    let maxc = target * mult;
    let bits = target.trailing_zeros();
    let mask: u64 = ((target as u64) - 1) << (64 - bits);
    let mut out = vec![];
    let mut start = 0usize;
    while start < data.len() {
        let skip = minc.saturating_sub(64 + 1);
        let mut h: u64 = 0;
        let mut end = data.len();
        let mut i = start + skip;
        while i < data.len() {
            h = (h << 1).wrapping_add(table[data[i] as usize]);
            let len = i + 1 - start;
            if h & mask == 0 || len >= maxc {
                end = i + 1;
                break;
            }
            i += 1;
        }
        out.push(end - start);
        start = end;
    }
    out
}

pub fn run(toks: &[&str]) -> Lines {
    let target: usize = toks[0].parse().unwrap();
    let calls: Vec<(Vec<u8>, bool)> = if toks.len() < 2 || toks[1].is_empty() {
        vec![]
    } else {
        toks[1]
            .split(';')
            .map(|c| {
                let (h, f) = c.split_once(':').unwrap();
                (unhex(h), f == "1")
            })
            .collect()
    };
    let mut chunker = Chunker::new(target);
    let mut chunks = vec![];
    for (d, fin) in &calls {
        chunks.extend(chunker.next_block(d, *fin));
    }
    if let Some(c) = chunker.finish() {
        chunks.push(c);
    }
    let lens: Vec<String> = chunks.iter().map(|c| c.data.len().to_string()).collect();
    let mut out: Lines = vec![("obs", format!("[{}]", lens.join(",")))];

    // direct oracle, independent of the Coq model
    let all: Vec<u8> = calls.iter().flat_map(|(d, _)| d.iter().copied()).collect();
    let cat: Vec<u8> = chunks.iter().flat_map(|c| c.data.iter().copied()).collect();
    let div = *deduplication::constants::MINIMUM_CHUNK_DIVISOR;
    let mult = *deduplication::constants::MAXIMUM_CHUNK_MULTIPLIER;
    let mut why = vec![];
    if cat != all {
        why.push("concat-differs".to_string());
    }
    for (i, c) in chunks.iter().enumerate() {
        if c.hash != compute_data_hash(&c.data) {
            why.push(format!("chunk{}-hash", i));
        }
        if c.data.is_empty() || c.data.len() > target * mult {
            why.push(format!("chunk{}-size{}", i, c.data.len()));
        }
        if i + 1 < chunks.len() && c.data.len() + 64 < target / div {
            why.push(format!("chunk{}-below-min{}", i, c.data.len()));
        }
    }
    let r = reference_chunks(&all, target, div, mult);
    let got: Vec<usize> = chunks.iter().map(|c| c.data.len()).collect();
    if r != got {
        why.push("reference-rule-differs".to_string());
    }
    if why.is_empty() {
        out.push(("orc", "ok".to_string()));
    } else {
        out.push(("orc", format!("FAIL {}", why.join(","))));
    }
    out
}
