// L2: real FileUploadSession / SingleFileCleaner / FileDownloader against a LocalClient store in a scratch directory.
// ops (separated by `|`):
//   S [salt hex]            start a session (optional repo salt)
//   f <name> <recipe> <part>   clean a file sequentially;  fp ...: cleaned concurrently with the other fp files of the session
//   E                       finalize the session, then scan the store and run the per-session oracles
//   X                       abandon the session without finalizing it (after its xorb uploads have settled); its files are forgotten
//   S <salt|-> slow         every xorb upload of the session is held back 40 ms
//   S <salt|-> lost|exists  the store loses the response to this session's shard upload / answers "exists" for a shard it holds
//   D                       download every file cleaned so far (whole + ranges) and compare
// recipe: id:len,id:len,...  (block id -> splitmix64 byte stream, truncated to len);  part: all | n (call size) | a+b+c (cycled)
// Oracle verdicts are tagged with the property they belong to:  orc <id> FAIL [Cxx] ...
use std::collections::{HashMap, HashSet};
use std::io::Cursor;
use std::path::{Path, PathBuf};
use std::sync::Arc;

use async_trait::async_trait;
use cas_client::{CacheConfig, CasClientError, Client, FileProvider, LocalClient, OutputProvider, ReconstructionClient, ShardClientInterface, UploadClient, VerifRegistrationClient, VerifShardDedupProber};
use cas_types::FileRange;
use mdb_shard::file_structs::MDBFileInfo;
use mdb_shard::shard_file_reconstructor::FileReconstructor;
use utils::progress::ProgressUpdater;
use cas_object::CasObject;
use data::configurations::*;
use data::{FileDownloader, FileUploadSession, PointerFile};
use deduplication::DeduplicationMetrics;
use mdb_shard::MDBShardInfo;
use merklehash::{DataHash, MerkleHash};
use sha2::{Digest, Sha256};
use xet_threadpool::ThreadPool;

use crate::util::Lines;

// The store as the session sees it: the real LocalClient behind a wrapper that only records what every put call was
// handed and what it reported as transmitted (C14: "upload bytes equal what was actually handed to the store" must be
// judged per call -- two racing puts of the same xorb both hand their bytes over, the directory keeps one file).
pub struct Counting {
    inner: Arc<LocalClient>,
    pub puts: std::sync::Mutex<Vec<(MerkleHash, usize, usize)>>, // (xorb, bytes handed, bytes reported)
    // how the store answers a shard upload: 0 as LocalClient does; 1 the shard is stored but the response is lost (an error
    // comes back); 2 a shard the store already holds is answered with "exists" (Ok(false), as the remote service does)
    pub shard_mode: u8,
    pub shard_dir: PathBuf,
    // every put is held back this long before it is forwarded (uploads stay in flight while other files complete)
    pub put_delay_ms: u64,
}

#[async_trait]
impl UploadClient for Counting {
    async fn put(&self, prefix: &str, hash: &MerkleHash, data: Vec<u8>, cb: Vec<(MerkleHash, u32)>) -> Result<usize, CasClientError> {
        let handed = data.len();
        if self.put_delay_ms > 0 {
            tokio::time::sleep(std::time::Duration::from_millis(self.put_delay_ms)).await;
        }
        let r = self.inner.put(prefix, hash, data, cb).await;
        if let Ok(n) = &r {
            self.puts.lock().unwrap().push((*hash, handed, *n));
        }
        r
    }
    async fn exists(&self, prefix: &str, hash: &MerkleHash) -> Result<bool, CasClientError> {
        self.inner.exists(prefix, hash).await
    }
}
#[async_trait]
impl ReconstructionClient for Counting {
    async fn get_file(&self, hash: &MerkleHash, byte_range: Option<FileRange>, out: &OutputProvider, p: Option<Arc<dyn ProgressUpdater>>) -> Result<u64, CasClientError> {
        self.inner.get_file(hash, byte_range, out, p).await
    }
}
#[async_trait]
impl VerifRegistrationClient for Counting {
    async fn upload_shard(&self, prefix: &str, hash: &MerkleHash, force_sync: bool, shard_data: &[u8], salt: &[u8; 32]) -> Result<bool, CasClientError> {
        if self.shard_mode == 2 && self.shard_dir.join(format!("{}.mdb", hash.hex())).exists() {
            return Ok(false);
        }
        let r = VerifRegistrationClient::upload_shard(&*self.inner, prefix, hash, force_sync, shard_data, salt).await;
        if self.shard_mode == 1 {
            return Err(CasClientError::Other("verif: response to the shard upload lost".into()));
        }
        r
    }
}
#[async_trait]
impl FileReconstructor<CasClientError> for Counting {
    async fn get_file_reconstruction_info(&self, h: &MerkleHash) -> Result<Option<(MDBFileInfo, Option<MerkleHash>)>, CasClientError> {
        self.inner.get_file_reconstruction_info(h).await
    }
}
#[async_trait]
impl VerifShardDedupProber for Counting {
    async fn query_for_global_dedup_shard(&self, prefix: &str, chunk_hash: &MerkleHash, salt: &[u8; 32]) -> Result<Option<PathBuf>, CasClientError> {
        VerifShardDedupProber::query_for_global_dedup_shard(&*self.inner, prefix, chunk_hash, salt).await
    }
}
impl ShardClientInterface for Counting {}
impl Client for Counting {}

pub fn block_bytes(id: u64, len: usize) -> Vec<u8> {
    let mut out = Vec::with_capacity(len + 8);
    // the stream of a block starts at a mixed position: the streams of consecutive ids must not be shifted copies of
    // each other (they would deduplicate against each other by accident)
    let mut x = id.wrapping_mul(0x9E3779B97F4A7C15).wrapping_add(0x1234567);
    x = (x ^ (x >> 29)).wrapping_mul(0xD6E8FEB86659FD93);
    x = (x ^ (x >> 32)).wrapping_mul(0xD6E8FEB86659FD93);
    x ^= x >> 29;
    while out.len() < len {
        x = x.wrapping_add(0x9E3779B97F4A7C15);
        let mut z = x;
        z = (z ^ (z >> 30)).wrapping_mul(0xBF58476D1CE4E5B9);
        z = (z ^ (z >> 27)).wrapping_mul(0x94D049BB133111EB);
        z ^= z >> 31;
        out.extend_from_slice(&z.to_le_bytes());
    }
    out.truncate(len);
    out
}

pub fn content_of(recipe: &str) -> Vec<u8> {
    let mut out = vec![];
    if recipe == "-" {
        return out;
    }
    for b in recipe.split(',') {
        let (i, l) = b.split_once(':').unwrap();
        out.extend(block_bytes(i.parse().unwrap(), l.parse().unwrap()));
    }
    out
}

fn parts_of(part: &str, n: usize) -> Vec<usize> {
    if part == "all" {
        return vec![n];
    }
    let sizes: Vec<usize> = part.split('+').map(|x| x.parse().unwrap()).collect();
    let mut out = vec![];
    let mut left = n;
    let mut k = 0;
    while left > 0 {
        let s = sizes[k % sizes.len()].min(left);
        out.push(s);
        if s == 0 {
            // an empty call; do not loop forever on all-zero patterns
            if sizes.iter().all(|x| *x == 0) {
                out.push(left);
                break;
            }
        }
        left -= s;
        k += 1;
    }
    out
}

fn config(base: &Path, salt: [u8; 32]) -> Arc<TranslatorConfig> {
    let path = base.join("xet");
    std::fs::create_dir_all(&path).unwrap();
    Arc::new(TranslatorConfig {
        data_config: DataConfig {
            endpoint: Endpoint::FileSystem(path.join("xorbs")),
            compression: Default::default(),
            auth: None,
            prefix: "default".into(),
            cache_config: CacheConfig { cache_directory: path.join("cache"), cache_size: 1 << 30 },
            staging_directory: None,
        },
        shard_config: ShardConfig {
            prefix: "default".into(),
            cache_directory: path.join("shard-cache"),
            session_directory: path.join("shard-session"),
            global_dedup_policy: Default::default(),
            repo_salt: salt,
        },
        repo_info: Some(RepoInfo { repo_paths: vec!["".into()] }),
    })
}

struct FileRec {
    name: String,
    recipe: String,
    content: Vec<u8>,
    hash: String,
    size: u64,
    metrics: DeduplicationMetrics,
    session: usize,
    salt: [u8; 32],
}

fn list_dir(p: &Path) -> HashSet<String> {
    std::fs::read_dir(p).map(|d| d.filter_map(|e| e.ok()).map(|e| e.file_name().to_string_lossy().to_string()).collect()).unwrap_or_default()
}

const DATA_KEY: [u8; 32] = [102, 151, 245, 119, 91, 149, 80, 222, 49, 53, 203, 172, 165, 151, 24, 28, 157, 228, 33, 16, 155, 235, 43, 88, 180, 208, 176, 75, 147, 173, 242, 41];
const VERIFICATION_KEY: [u8; 32] = [127, 24, 87, 214, 206, 86, 237, 102, 18, 127, 249, 19, 231, 165, 195, 243, 164, 205, 38, 213, 181, 219, 73, 230, 65, 36, 152, 127, 40, 251, 148, 195];

// independent reading of a stored xorb (scheme None as written by LocalClient, but any scheme is handled)
fn read_xorb(bytes: &[u8]) -> Option<Vec<Vec<u8>>> {
    if bytes.len() < 4 {
        return None;
    }
    let il = u32::from_le_bytes(bytes[bytes.len() - 4..].try_into().unwrap()) as usize;
    if il + 4 > bytes.len() {
        return None;
    }
    let end = bytes.len() - 4 - il;
    let mut pos = 0;
    let mut out = vec![];
    while pos < end {
        let h = &bytes[pos..pos + 8];
        let clen = h[1] as usize | (h[2] as usize) << 8 | (h[3] as usize) << 16;
        let p = &bytes[pos + 8..pos + 8 + clen];
        let d = match h[4] {
            0 => p.to_vec(),
            _ => {
                use std::io::Read;
                let mut dec = lz4_flex::frame::FrameDecoder::new(p);
                let mut o = vec![];
                dec.read_to_end(&mut o).ok()?;
                o
            },
        };
        out.push(d);
        pos += 8 + clen;
    }
    Some(out)
}

pub fn run(toks: &[&str]) -> Lines {
    let ops = crate::shard::split_ops(toks);
    let tp = Arc::new(ThreadPool::new().unwrap());
    let base = tempfile::tempdir().unwrap();
    let base_path: PathBuf = base.path().to_path_buf();
    let ops_owned: Vec<Vec<String>> = ops.iter().map(|o| o.iter().map(|s| s.to_string()).collect()).collect();
    let tp2 = tp.clone();
    let res = tp
        .external_run_async_task(async move { run_async(ops_owned, base_path, tp2).await })
        .unwrap();
    res
}

async fn run_async(ops: Vec<Vec<String>>, root: PathBuf, tp: Arc<ThreadPool>) -> Lines {
    // the store lives in root/g<k>; the op `M` renames it, which leaves the disk state as it is and makes every
    // later session meet it the way a new process would (the crate caches shard file managers per directory)
    let mut generation = 0usize;
    let mut base = root.join("g0");
    std::fs::create_dir_all(&base).unwrap();
    let mut out: Lines = vec![];
    let mut why: Vec<String> = vec![];
    let maxb = *deduplication::constants::MAX_XORB_BYTES;
    let maxc = *deduplication::constants::MAX_XORB_CHUNKS;
    let target = *deduplication::constants::TARGET_CHUNK_SIZE;
    let max_chunk = target * *deduplication::constants::MAXIMUM_CHUNK_MULTIPLIER;
    let mut xorb_dir = base.join("xet/xorbs/xorbs");
    let mut shard_dir = base.join("xet/xorbs/shards");
    let mut files: Vec<FileRec> = vec![];
    let mut session: Option<Arc<FileUploadSession>> = None;
    let mut sess_salt = [0u8; 32];
    let mut nsess = 0usize;
    let mut counting: Option<Arc<Counting>> = None;
    let mut pending: Vec<tokio::task::JoinHandle<Result<FileRec, String>>> = vec![];
    let mut sess_files: Vec<usize> = vec![];
    let mut xorbs_before: HashSet<String> = HashSet::new();
    let mut shards_before: HashSet<String> = HashSet::new();
    // chunk hashes stored as new data by finalized sessions (for C11)
    let mut stored_chunks: HashSet<MerkleHash> = HashSet::new();

    for op in &ops {
        match op[0].as_str() {
            "S" => {
                sess_salt = if op.len() > 1 && op[1] != "-" { crate::util::unhex(&op[1]).try_into().unwrap() } else { [0u8; 32] };
                let shard_mode: u8 = match op.get(2).map(|x| x.as_str()) { Some("lost") => 1, Some("exists") => 2, _ => 0 };
                let put_delay_ms: u64 = if op.get(2).map(|x| x.as_str()) == Some("slow") { 40 } else { 0 };
                xorbs_before = list_dir(&xorb_dir);
                shards_before = list_dir(&shard_dir);
                sess_files.clear();
                // every third session goes through the public constructor (no view of the individual put calls); the others
                // talk to the same kind of client through the counting wrapper
                let cfg = config(&base, sess_salt);
                counting = None;
                let opened = if nsess % 3 == 2 && shard_mode == 0 && put_delay_ms == 0 {
                    FileUploadSession::new(cfg, tp.clone(), None).await
                } else {
                    let Endpoint::FileSystem(ref path) = cfg.data_config.endpoint else { unreachable!() };
                    let c = Arc::new(Counting { inner: Arc::new(LocalClient::new(path, None).unwrap()), puts: Default::default(), shard_mode, shard_dir: shard_dir.clone(), put_delay_ms });
                    counting = Some(c.clone());
                    FileUploadSession::new_with_client(cfg.clone(), tp.clone(), c).await
                };
                match opened {
                    Ok(s) => session = Some(s),
                    Err(e) => {
                        out.push(("obs", format!("session-open-error {:?}", e)));
                        session = None;
                    },
                }
            },
            "M" => {
                if session.is_some() {
                    continue;
                }
                generation += 1;
                let nb = root.join(format!("g{}", generation));
                std::fs::rename(&base, &nb).unwrap();
                base = nb;
                xorb_dir = base.join("xet/xorbs/xorbs");
                shard_dir = base.join("xet/xorbs/shards");
                out.push(("obs", format!("M{}", generation)));
            },
            "f" | "fp" => {
                let Some(s) = session.clone() else { continue };
                let name = op[1].clone();
                let recipe = op[2].clone();
                let part = op[3].clone();
                let salt = sess_salt;
                let ns = nsess;
                let fut = async move {
                    let content = content_of(&recipe);
                    let mut cl = s.start_clean(name.clone());
                    let mut pos = 0;
                    for n in parts_of(&part, content.len()) {
                        cl.add_data(&content[pos..pos + n]).await.map_err(|e| format!("add_data: {:?}", e))?;
                        pos += n;
                    }
                    let (pf, m): (PointerFile, DeduplicationMetrics) = cl.finish().await.map_err(|e| format!("finish: {:?}", e))?;
                    Ok(FileRec { name, recipe, content, hash: pf.hash_string().clone(), size: pf.filesize(), metrics: m, session: ns, salt })
                };
                if op[0] == "fp" {
                    pending.push(tokio::spawn(fut));
                } else {
                    match fut.await {
                        Ok(fr) => {
                            sess_files.push(files.len());
                            files.push(fr);
                        },
                        Err(e) => out.push(("obs", format!("clean-error {}", e))),
                    }
                }
            },
            "E" => {
                for jh in pending.drain(..) {
                    match jh.await {
                        Ok(Ok(fr)) => {
                            sess_files.push(files.len());
                            files.push(fr);
                        },
                        Ok(Err(e)) => out.push(("obs", format!("clean-error {}", e))),
                        Err(e) => {
                            let msg: String = format!("{:?}", e).chars().take(160).collect();
                            out.push(("obs", "clean-task-panicked".into()));
                            why.push(format!("a file-cleaning task of the session panicked: {}", msg.replace('\n', " ")));
                        },
                    }
                }
                let Some(s) = session.take() else { continue };
                let m = match s.finalize().await {
                    Ok(m) => m,
                    Err(e) => {
                        out.push(("obs", format!("finalize-error {:?}", e).chars().take(80).collect()));
                        // the session did not complete: its files count for nothing later
                        let gone: HashSet<usize> = sess_files.drain(..).collect();
                        files = files.into_iter().enumerate().filter(|(i, _)| !gone.contains(i)).map(|(_, f)| f).collect();
                        nsess += 1;
                        continue;
                    },
                };
                let new_xorbs: Vec<String> = list_dir(&xorb_dir).difference(&xorbs_before).cloned().collect();
                let new_shards: Vec<String> = list_dir(&shard_dir).difference(&shards_before).filter(|n| n.ends_with(".mdb")).cloned().collect();
                out.push(("obs", format!("E{} files={} new_xorbs={} new_shards={} new_bytes={} total_bytes={}", nsess, sess_files.len(), new_xorbs.len(), new_shards.len(), m.new_bytes, m.total_bytes)));

                // ---- C14: conservation
                let mut sum = DeduplicationMetrics::default();
                for &i in &sess_files {
                    let f = &files[i];
                    let fm = &f.metrics;
                    sum.merge_in(fm);
                    if fm.total_bytes != f.content.len() || f.size != f.content.len() as u64 {
                        why.push(format!("[C14][C03] file {} size: pointer={} total_bytes={} fed={}", f.name, f.size, fm.total_bytes, f.content.len()));
                    }
                    if fm.new_bytes + fm.deduped_bytes != fm.total_bytes || fm.new_chunks + fm.deduped_chunks != fm.total_chunks {
                        why.push(format!("[C14] file {} new+deduped!=total", f.name));
                    }
                    if fm.defrag_prevented_dedup_bytes > fm.new_bytes || fm.defrag_prevented_dedup_chunks > fm.new_chunks {
                        why.push(format!("[C14] file {} defrag-prevented exceeds new", f.name));
                    }
                }
                if (m.total_bytes, m.new_bytes, m.deduped_bytes, m.total_chunks, m.new_chunks, m.deduped_chunks, m.defrag_prevented_dedup_bytes)
                    != (sum.total_bytes, sum.new_bytes, sum.deduped_bytes, sum.total_chunks, sum.new_chunks, sum.deduped_chunks, sum.defrag_prevented_dedup_bytes)
                {
                    why.push(format!("[C14] session metrics are not the sums over its files"));
                }
                let xbytes: u64 = new_xorbs.iter().map(|n| std::fs::metadata(xorb_dir.join(n)).map(|m| m.len()).unwrap_or(0)).sum();
                match counting.take() {
                    Some(c) => {
                        // per call: what the session reports is what its put calls reported; a call that reported bytes wrote
                        // exactly the file now stored under that name; every new file was written by such a call
                        let puts = c.puts.lock().unwrap().clone();
                        let reported: usize = puts.iter().map(|p| p.2).sum();
                        if m.xorb_bytes_uploaded != reported {
                            why.push(format!("[C14] xorb_bytes_uploaded={} but the {} put calls of the session transmitted {} bytes", m.xorb_bytes_uploaded, puts.len(), reported));
                        }
                        let mut written: HashSet<String> = HashSet::new();
                        for (h, _handed, n) in &puts {
                            if *n == 0 {
                                continue;
                            }
                            let name = new_xorbs.iter().find(|x| x.ends_with(&h.hex()));
                            let size = name.map(|x| std::fs::metadata(xorb_dir.join(x)).map(|m| m.len()).unwrap_or(0));
                            if size != Some(*n as u64) {
                                why.push(format!("[C14] put of xorb {} reported {} bytes, the stored object has {:?}", &h.hex()[..12], n, size));
                            }
                            if let Some(x) = name {
                                written.insert(x.clone());
                            }
                        }
                        if written.len() != new_xorbs.len() {
                            why.push(format!("[C14] {} new objects in the store, {} of them written by a reporting put", new_xorbs.len(), written.len()));
                        }
                        if (reported as u64) < xbytes {
                            why.push(format!("[C14] {} bytes stored but only {} reported", xbytes, reported));
                        }
                        if reported as u64 != xbytes {
                            out.push(("note", "same-xorb-put-twice".into()));
                        }
                    },
                    None => {
                        // without the per-call view: never less than what the store holds (racing puts of one xorb both count)
                        if (m.xorb_bytes_uploaded as u64) < xbytes {
                            why.push(format!("[C14] xorb_bytes_uploaded={} but {} bytes were handed to the store", m.xorb_bytes_uploaded, xbytes));
                        }
                    },
                }
                let sbytes: u64 = new_shards.iter().map(|n| std::fs::metadata(shard_dir.join(n)).map(|m| m.len()).unwrap_or(0)).sum();
                if m.shard_bytes_uploaded as u64 != sbytes && !new_shards.is_empty() {
                    why.push(format!("[C14] shard_bytes_uploaded={} but shards of {} bytes were stored", m.shard_bytes_uploaded, sbytes));
                }
                if m.total_bytes_uploaded != m.xorb_bytes_uploaded + m.shard_bytes_uploaded {
                    why.push("[C14] total_bytes_uploaded != xorb + shard".into());
                }

                // ---- C15 / C02: every new xorb
                let mut store: HashMap<MerkleHash, Vec<(MerkleHash, usize)>> = HashMap::new();
                for n in list_dir(&xorb_dir) {
                    let Some(hx) = n.strip_prefix("default.") else { continue };
                    let Ok(h) = DataHash::from_hex(hx) else { continue };
                    let bytes = std::fs::read(xorb_dir.join(&n)).unwrap();
                    let is_new = new_xorbs.contains(&n);
                    match read_xorb(&bytes) {
                        Some(chs) => {
                            let nodes: Vec<(MerkleHash, usize)> = chs.iter().map(|c| (DataHash::from_slice(blake3::keyed_hash(&DATA_KEY, c).as_bytes()).unwrap(), c.len())).collect();
                            if is_new {
                                if crate::c06::indep_root(&nodes) != h {
                                    why.push(format!("[C02] xorb {} name is not the hash of its chunks", &hx[..12]));
                                }
                                let total: usize = chs.iter().map(|c| c.len()).sum();
                                if chs.is_empty() || chs.len() > maxc || total > maxb || chs.iter().any(|c| c.is_empty() || c.len() > max_chunk) {
                                    why.push(format!("[C15] xorb {} exceeds limits: {} chunks {} bytes", &hx[..12], chs.len(), total));
                                }
                                if !matches!(CasObject::validate_cas_object(&mut Cursor::new(&bytes), &h), Ok(Some(_))) {
                                    why.push(format!("[C15][C02] stored xorb {} rejected by the validator", &hx[..12]));
                                }
                            }
                            store.insert(h, nodes);
                        },
                        None => {
                            if is_new {
                                why.push(format!("[C02] xorb {} does not decode", &hx[..12]));
                            }
                        },
                    }
                }
                // ---- C02 / C15 / C11: shards uploaded by this session
                let mut recorded_xorbs: HashSet<MerkleHash> = HashSet::new();
                let mut shard_files: HashMap<MerkleHash, mdb_shard::file_structs::MDBFileInfo> = HashMap::new();
                for n in &new_shards {
                    let b = std::fs::read(shard_dir.join(n)).unwrap();
                    let mut rd = Cursor::new(&b);
                    let Ok(info) = MDBShardInfo::load_from_reader(&mut rd) else {
                        why.push("[C02] uploaded shard does not load".into());
                        continue;
                    };
                    for c in info.read_all_cas_blocks_full(&mut rd).unwrap_or_default() {
                        recorded_xorbs.insert(c.metadata.cas_hash);
                        if let Some(nodes) = store.get(&c.metadata.cas_hash) {
                            let rec: Vec<(MerkleHash, usize)> = c.chunks.iter().map(|e| (e.chunk_hash, e.unpacked_segment_bytes as usize)).collect();
                            if &rec != nodes {
                                why.push("[C02] shard's chunk list of a xorb differs from the stored xorb".into());
                            }
                        }
                    }
                    for f in info.read_all_file_info_sections(&mut rd).unwrap_or_default() {
                        shard_files.insert(f.metadata.file_hash, f);
                    }
                }
                // a session whose records equal an earlier session's (only empty files, or an exact re-upload with nothing
                // new to store) produces a shard with the same content, hence the same name: no new object appears in the
                // store, and the session's records are the ones of that earlier shard
                if new_shards.is_empty() {
                    for n in list_dir(&shard_dir).iter().filter(|n| n.ends_with(".mdb")) {
                        let b = std::fs::read(shard_dir.join(n)).unwrap();
                        let mut rd = Cursor::new(&b);
                        if let Ok(info) = MDBShardInfo::load_from_reader(&mut rd) {
                            for f in info.read_all_file_info_sections(&mut rd).unwrap_or_default() {
                                shard_files.entry(f.metadata.file_hash).or_insert(f);
                            }
                        }
                    }
                }
                for n in &new_xorbs {
                    if let Some(hx) = n.strip_prefix("default.") {
                        if let Ok(h) = DataHash::from_hex(hx) {
                            if !recorded_xorbs.contains(&h) {
                                why.push(format!("[C11] xorb {} stored by this session is not recorded in its shards", &hx[..12]));
                            }
                        }
                    }
                }
                for &i in &sess_files {
                    let f = &files[i];
                    let Ok(fh) = DataHash::from_hex(&f.hash) else { continue };
                    let Some(rec) = shard_files.get(&fh) else {
                        if !f.content.is_empty() || true {
                            why.push(format!("[C02] file {} has no record in the uploaded shards", f.name));
                        }
                        continue;
                    };
                    let mut all: Vec<(MerkleHash, usize)> = vec![];
                    let mut okrec = true;
                    for (k, s) in rec.segments.iter().enumerate() {
                        if s.cas_hash == MerkleHash::default() {
                            why.push(format!("[C15] file {} segment {} has an unresolved xorb reference", f.name, k));
                            okrec = false;
                            continue;
                        }
                        let Some(nodes) = store.get(&s.cas_hash) else {
                            why.push(format!("[C02][C16] file {} references a xorb that is not in the store", f.name));
                            okrec = false;
                            continue;
                        };
                        let (a, e) = (s.chunk_index_start as usize, s.chunk_index_end as usize);
                        if a >= e || e > nodes.len() {
                            why.push(format!("[C02] file {} segment {} range [{},{}) outside its xorb ({} chunks)", f.name, k, a, e, nodes.len()));
                            okrec = false;
                            continue;
                        }
                        let sum: usize = nodes[a..e].iter().map(|c| c.1).sum();
                        if sum != s.unpacked_segment_bytes as usize {
                            why.push(format!("[C02] file {} segment {} bytes {} != sum of chunk lengths {}", f.name, k, s.unpacked_segment_bytes, sum));
                        }
                        // verification entry
                        if let Some(v) = rec.verification.get(k) {
                            let cat: Vec<u8> = nodes[a..e].iter().flat_map(|c| c.0.as_bytes().to_vec()).collect();
                            let want = DataHash::from_slice(blake3::keyed_hash(&VERIFICATION_KEY, &cat).as_bytes()).unwrap();
                            if v.range_hash != want {
                                why.push(format!("[C02] file {} verification entry {} is not recomputable", f.name, k));
                            }
                        }
                        all.extend_from_slice(&nodes[a..e]);
                    }
                    if rec.verification.len() != rec.segments.len() {
                        why.push(format!("[C02] file {} has {} verification entries for {} segments", f.name, rec.verification.len(), rec.segments.len()));
                    }
                    if okrec {
                        let root = crate::c06::indep_root(&all);
                        let want = if all.is_empty() { MerkleHash::default() } else { DataHash::from_slice(blake3::keyed_hash(&f.salt, root.as_bytes()).as_bytes()).unwrap() };
                        if want != fh {
                            why.push(format!("[C02] file {} hash is not recomputable from the referenced chunks", f.name));
                        }
                        let total: usize = all.iter().map(|c| c.1).sum();
                        if total != f.content.len() {
                            why.push(format!("[C02][C01] file {} record covers {} bytes, content has {}", f.name, total, f.content.len()));
                        }
                    }
                    let sha: [u8; 32] = Sha256::digest(&f.content).into();
                    let sha_hex: String = sha.iter().map(|b| format!("{:02x}", b)).collect();
                    match &rec.metadata_ext {
                        Some(e) if e.sha256.hex() == sha_hex => {},
                        Some(_) => why.push(format!("[C02] file {} ({} bytes) recorded SHA-256 is not the SHA-256 of its bytes", f.name, f.content.len())),
                        None => why.push(format!("[C02] file {} has no SHA-256 metadata", f.name)),
                    }
                }
                // ---- C11: a file identical to one finalized in an earlier session transfers no new chunk bytes
                for &i in &sess_files {
                    let f = &files[i];
                    let earlier = files.iter().any(|g| g.session < f.session && g.recipe == f.recipe && g.salt == f.salt);
                    // (a range refused by fragmentation prevention is stored chunk by chunk; only its first chunk is counted as
                    // withheld, so a re-upload with refusals cannot be judged from the counters)
                    if earlier && f.metrics.new_bytes > 0 && f.metrics.defrag_prevented_dedup_chunks == 0 {
                        why.push(format!("[C11] re-upload of {} ({} bytes) reports {} new bytes (withheld by fragmentation prevention: {})", f.name, f.content.len(), f.metrics.new_bytes,
                            f.metrics.defrag_prevented_dedup_bytes));
                    }
                }
                let _ = &mut stored_chunks;
                nsess += 1;
            },
            "X" => {
                for jh in pending.drain(..) {
                    let _ = jh.await;
                }
                let Some(s) = session.take() else { continue };
                // let the xorb uploads that are under way reach the store (dropping the session aborts its tasks)
                let mut last = list_dir(&xorb_dir).len();
                let mut stable = 0;
                for _ in 0..60 {
                    tokio::time::sleep(std::time::Duration::from_millis(50)).await;
                    let n = list_dir(&xorb_dir).len();
                    if n == last {
                        stable += 1;
                        if stable >= 4 {
                            break;
                        }
                    } else {
                        stable = 0;
                        last = n;
                    }
                }
                drop(s);
                let gone: HashSet<usize> = sess_files.drain(..).collect();
                files = files.into_iter().enumerate().filter(|(i, _)| !gone.contains(i)).map(|(_, f)| f).collect();
                out.push(("obs", format!("X{} xorbs_in_store={}", nsess, last)));
                nsess += 1;
            },
            "D" => {
                for f in &files {
                    let cfg = config(&base, f.salt);
                    let dl = FileDownloader::new(cfg, tp.clone()).await.unwrap();
                    let pf = PointerFile::init_from_info(&f.name, &f.hash, f.size);
                    let outp = base.join(format!("dl_{}", f.name));
                    let _ = std::fs::remove_file(&outp);
                    let r = dl.smudge_file_from_pointer(&pf, &OutputProvider::File(FileProvider::new(outp.clone())), None, None).await;
                    match r {
                        Ok(n) => {
                            let got = std::fs::read(&outp).unwrap_or_default();
                            if got != f.content || n as usize != f.content.len() {
                                why.push(format!("[C01] download of {} differs ({} bytes reported, {} written, {} expected)", f.name, n, got.len(), f.content.len()));
                            }
                        },
                        Err(e) => why.push(format!("[C01] download of {} failed: {:?}", f.name, e)),
                    }
                    // ranges
                    let n = f.content.len() as u64;
                    if n > 0 {
                        for (a, b) in [(0u64, 1u64), (n - 1, n), (n / 3, (2 * n / 3).max(n / 3 + 1)), (n / 2, n), (0, n)] {
                            let outp = base.join(format!("dlr_{}", f.name));
                            let _ = std::fs::remove_file(&outp);
                            let r = dl
                                .smudge_file_from_pointer(&pf, &OutputProvider::File(FileProvider::new(outp.clone())), Some(cas_types::FileRange { start: a, end: b }), None)
                                .await;
                            let got = std::fs::read(&outp).unwrap_or_default();
                            if r.is_err() || got != f.content[a as usize..b as usize] {
                                why.push(format!("[C01] ranged download [{},{}) of {} differs", a, b, f.name));
                            }
                        }
                        // a range that runs past the end of the file (the last block of a reader with a fixed block size): the bytes
                        // from its start to the end of the file, and that many reported
                        for (a, b) in [(n / 2, n + 1000), (n - 1, n + 1), (n / 3 + 1, 2 * n + 7)] {
                            if a == 0 {
                                continue;
                            }
                            let outp = base.join(format!("dlr_{}", f.name));
                            let _ = std::fs::remove_file(&outp);
                            let r = dl
                                .smudge_file_from_pointer(&pf, &OutputProvider::File(FileProvider::new(outp.clone())), Some(cas_types::FileRange { start: a, end: b }), None)
                                .await;
                            let got = std::fs::read(&outp).unwrap_or_default();
                            match r {
                                Ok(k) if got == f.content[a as usize..] && k == n - a => {},
                                Ok(k) => why.push(format!("[C01] ranged download [{},{}) past the end of {} ({} bytes): {} bytes reported, {} written, {} expected", a, b, f.name, n, k, got.len(), n - a)),
                                Err(e) => why.push(format!("[C01] ranged download [{},{}) past the end of {} failed: {:?}", a, b, f.name, e)),
                            }
                        }
                    }
                }
                out.push(("obs", format!("D files={}", files.len())));
            },
            _ => {},
        }
    }
    // ---- C03: the pointer depends only on bytes and salt
    let mut seen: HashMap<(String, [u8; 32]), (String, u64)> = HashMap::new();
    for f in &files {
        let key = (f.recipe.clone(), f.salt);
        if let Some((h, s)) = seen.get(&key) {
            if *h != f.hash || *s != f.size {
                why.push(format!("[C03] {} cleaned twice gives different pointers", f.name));
            }
        } else {
            seen.insert(key, (f.hash.clone(), f.size));
        }
    }
    let mut by_content: HashMap<String, Vec<(&[u8; 32], &String)>> = HashMap::new();
    for f in &files {
        by_content.entry(f.recipe.clone()).or_default().push((&f.salt, &f.hash));
    }
    for (_, v) in by_content {
        for i in 0..v.len() {
            for j in i + 1..v.len() {
                if v[i].0 != v[j].0 && v[i].1 == v[j].1 && v[i].1 != &MerkleHash::default().hex() {
                    why.push("[C03] different salts give the same file hash".into());
                }
            }
        }
    }
    for f in &files {
        out.push(("obs", format!("file {} hash={} size={} new={} dedup={} total={}", f.name, &f.hash[..16], f.size, f.metrics.new_bytes, f.metrics.deduped_bytes, f.metrics.total_bytes)));
    }
    if why.is_empty() {
        out.push(("orc", "ok".to_string()));
    } else {
        for w in why {
            out.push(("orc", format!("FAIL {}", w)));
        }
    }
    out
}
