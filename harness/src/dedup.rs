// L1 of the dedup pipeline: the real generic FileDeduper driven through a scripted DeduplicationDataInterface
// (a table of external xorbs + the xorbs the deduper registers), then DataAggregator merge/finalize.
// ops (separated by `|`):
//   cfg <nranges> <max_bytes> <max_chunks>     must equal the HF_XET_* environment of this process
//   X <id> <cap> id:len,id:len,...             external xorb (hash derived from id), run-length cap of its answers
//   B id:len,...                               one process_chunks call of the current file
//   F <salt hex> <sha hex|->                   finalize the current file
//   AGG                                        merge the aggregators of all files finalized so far, finalize
use std::sync::{Arc, Mutex};

use async_trait::async_trait;
use deduplication::{Chunk, DataAggregator, DeduplicationDataInterface, DeduplicationMetrics, FileDeduper, RawXorbData};
use mdb_shard::chunk_verification::range_hash_from_chunks;
use mdb_shard::file_structs::{FileDataSequenceEntry, FileMetadataExt, MDBFileInfo};
use merkledb::aggregate_hashes::file_node_hash;
use merklehash::{DataHash, MerkleHash};

use crate::shard::{h32, raw, split_ops};
use crate::util::Lines;

pub fn hash_of_id(id: u64) -> MerkleHash {
    let mut b = [0u8; 32];
    for j in 0..8 {
        b[j] = (id >> (8 * j)) as u8;
    }
    for j in 8..32 {
        b[j] = ((id.wrapping_mul(31).wrapping_add(j as u64 * 17)) % 251) as u8;
    }
    DataHash::from_slice(&b).unwrap()
}

fn parse_chunks(s: &str) -> Vec<(MerkleHash, usize)> {
    if s == "-" {
        return vec![];
    }
    s.split(',')
        .map(|c| {
            let (i, l) = c.split_once(':').unwrap();
            (hash_of_id(i.parse().unwrap()), l.parse().unwrap())
        })
        .collect()
}

type Table = Vec<(MerkleHash, Vec<(MerkleHash, usize)>, usize)>;

#[derive(Default)]
struct Shared {
    ext: Table,
    registered: Table,       // xorbs registered by the deduper, visible to later queries
    visible: usize,          // how many of `registered` are visible (those registered before the current block)
    reg_infos: Vec<(MerkleHash, usize, usize)>,
}

struct Scripted(Arc<Mutex<Shared>>);

fn table_answer(t: &Table, limit: usize, qs: &[MerkleHash]) -> Option<(usize, FileDataSequenceEntry)> {
    for (xh, chs, cap) in t.iter().take(limit) {
        if let Some(p) = chs.iter().position(|c| c.0 == qs[0]) {
            let mut n = 0;
            while p + n < chs.len() && n < qs.len() && chs[p + n].0 == qs[n] {
                n += 1;
            }
            let n = n.min((*cap).max(1));
            let bytes: usize = chs[p..p + n].iter().map(|c| c.1).sum();
            return Some((n, FileDataSequenceEntry::new(*xh, bytes as u32 as usize, p, p + n)));
        }
    }
    None
}

#[async_trait]
impl DeduplicationDataInterface for Scripted {
    type ErrorType = std::io::Error;
    async fn chunk_hash_dedup_query(&self, qs: &[MerkleHash]) -> Result<Option<(usize, FileDataSequenceEntry)>, std::io::Error> {
        let s = self.0.lock().unwrap();
        if let Some(a) = table_answer(&s.ext, usize::MAX, qs) {
            return Ok(Some(a));
        }
        Ok(table_answer(&s.registered, s.visible, qs))
    }
    async fn register_global_dedup_query(&mut self, _h: MerkleHash) -> Result<(), std::io::Error> {
        Ok(())
    }
    async fn complete_global_dedup_queries(&mut self) -> Result<bool, std::io::Error> {
        Ok(false)
    }
    async fn register_new_xorb(&mut self, xorb: RawXorbData) -> Result<(), std::io::Error> {
        let mut s = self.0.lock().unwrap();
        let chs: Vec<(MerkleHash, usize)> = xorb.cas_info.chunks.iter().map(|c| (c.chunk_hash, c.unpacked_segment_bytes as usize)).collect();
        s.reg_infos.push((xorb.hash(), chs.len(), xorb.num_bytes()));
        s.registered.push((xorb.hash(), chs, 1000000));
        Ok(())
    }
}

fn fmt_metrics(m: &DeduplicationMetrics) -> String {
    format!(
        "tb={} db={} nb={} gb={} fb={} tc={} dc={} nc={} gc={} fc={}",
        m.total_bytes, m.deduped_bytes, m.new_bytes, m.deduped_bytes_by_global_dedup, m.defrag_prevented_dedup_bytes, m.total_chunks,
        m.deduped_chunks, m.new_chunks, m.deduped_chunks_by_global_dedup, m.defrag_prevented_dedup_chunks
    )
}

fn fmt_segs(fi: &MDBFileInfo) -> String {
    let v: Vec<String> = fi
        .segments
        .iter()
        .map(|s| format!("{}:{}:{}:{}", &raw(&s.cas_hash)[..16], s.unpacked_segment_bytes, s.chunk_index_start, s.chunk_index_end))
        .collect();
    v.join(",")
}

fn resolve(tables: &[&Table], fi: &MDBFileInfo) -> Option<Vec<(MerkleHash, usize)>> {
    let mut out = vec![];
    for s in &fi.segments {
        let mut found = None;
        for t in tables {
            if let Some(x) = t.iter().find(|x| x.0 == s.cas_hash) {
                found = Some(x);
                break;
            }
        }
        let x = found?;
        let (a, e) = (s.chunk_index_start as usize, s.chunk_index_end as usize);
        if a >= e || e > x.1.len() {
            return None;
        }
        let sum: usize = x.1[a..e].iter().map(|c| c.1).sum();
        if sum as u32 != s.unpacked_segment_bytes {
            return None;
        }
        out.extend_from_slice(&x.1[a..e]);
    }
    Some(out)
}

pub fn run(toks: &[&str]) -> Lines {
    let ops = split_ops(toks);
    let rt = tokio::runtime::Builder::new_current_thread().enable_all().build().unwrap();
    let mut out: Lines = vec![];
    let mut why: Vec<String> = vec![];
    let shared = Arc::new(Mutex::new(Shared::default()));
    let maxb = *deduplication::constants::MAX_XORB_BYTES;
    let maxc = *deduplication::constants::MAX_XORB_CHUNKS;
    let mut deduper: Option<FileDeduper<Scripted>> = None;
    let mut fed: Vec<(MerkleHash, usize)> = vec![];
    let mut aggs: Vec<DataAggregator> = vec![];
    let mut files: Vec<(MDBFileInfo, Vec<(MerkleHash, usize)>, [u8; 32])> = vec![];
    let mut nf = 0;
    for op in &ops {
        match op[0] {
            "cfg" => {
                let nr = *deduplication_nranges();
                if op[1].parse::<usize>().unwrap() != nr || op[2].parse::<usize>().unwrap() != maxb || op[3].parse::<usize>().unwrap() != maxc {
                    out.push(("obs", format!("CONFIG-MISMATCH env=({},{},{})", nr, maxb, maxc)));
                }
            },
            "X" => {
                let chs = parse_chunks(op[3]);
                shared.lock().unwrap().ext.push((hash_of_id(op[1].parse().unwrap()), chs, op[2].parse().unwrap()));
            },
            "B" => {
                if deduper.is_none() {
                    deduper = Some(FileDeduper::new(Scripted(shared.clone())));
                    fed.clear();
                }
                {
                    let mut s = shared.lock().unwrap();
                    s.visible = s.registered.len();
                }
                let chs = parse_chunks(op[1]);
                let chunks: Vec<Chunk> = chs.iter().map(|(h, l)| Chunk { hash: *h, data: Arc::from(vec![0u8; *l]) }).collect();
                fed.extend(chs.iter().cloned());
                let m = rt.block_on(deduper.as_mut().unwrap().process_chunks(&chunks)).unwrap();
                out.push(("obs", format!("B {}", fmt_metrics(&m))));
            },
            "F" => {
                if deduper.is_none() {
                    fed.clear();
                }
                let d = deduper.take().unwrap_or_else(|| FileDeduper::new(Scripted(shared.clone())));
                let salt: [u8; 32] = crate::util::unhex(op[1]).try_into().unwrap();
                let sha = if op[2] == "-" { None } else { Some(FileMetadataExt::new(h32(op[2]))) };
                let (fh, agg, m, new_xorbs) = d.finalize(salt, sha);
                let fi = agg.pending_file_info[0].0.clone();
                let s = shared.lock().unwrap();
                let regs: Vec<String> = s.reg_infos.iter().map(|r| format!("{}:{}:{}", &raw(&r.0)[..16], r.1, r.2)).collect();
                out.push(("obs", format!("F{} hash={} {} segs=[{}] iref={:?} aggchunks={} newxorbs={} regs=[{}]", nf, fh.hex(), fmt_metrics(&m), fmt_segs(&fi),
                    agg.pending_file_info[0].1, agg.num_chunks(), new_xorbs.len(), regs.join(","))));
                let ver: Vec<String> = fi.verification.iter().map(|v| raw(&v.range_hash)[..16].to_string()).collect();
                out.push(("obs", format!("F{} verif=[{}] flags={}", nf, ver.join(","), fi.metadata.file_flags)));
                // oracle: conservation (C14), limits (C15)
                let total: usize = fed.iter().map(|c| c.1).sum();
                if m.total_bytes != total || m.total_chunks != fed.len() {
                    why.push(format!("F{}-total-{}-vs-fed-{}", nf, m.total_bytes, total));
                }
                if m.new_bytes + m.deduped_bytes != m.total_bytes || m.new_chunks + m.deduped_chunks != m.total_chunks {
                    why.push(format!("F{}-new+deduped!=total", nf));
                }
                if m.defrag_prevented_dedup_bytes > m.new_bytes || m.defrag_prevented_dedup_chunks > m.new_chunks {
                    why.push(format!("F{}-defrag-prevented-exceeds-new", nf));
                }
                if fi.file_size() != total {
                    why.push(format!("F{}-segment-bytes-{}-vs-fed-{}", nf, fi.file_size(), total));
                }
                for r in &s.reg_infos {
                    if r.1 == 0 || r.1 > maxc || r.2 > maxb {
                        why.push(format!("F{}-xorb-limits:{}chunks-{}bytes", nf, r.1, r.2));
                    }
                }
                if agg.num_chunks() > maxc || agg.num_bytes() > maxb {
                    why.push(format!("F{}-aggregator-limits", nf));
                }
                // file hash and verification recomputed from what was fed
                if fh != file_node_hash(&fed, &salt).unwrap() {
                    why.push(format!("F{}-file-hash", nf));
                }
                drop(s);
                files.push((fi, fed.clone(), salt));
                aggs.push(agg);
                nf += 1;
            },
            "AGG" => {
                // merge while the limits allow, finalize, continue with the rest (no swap: that is the session's rule)
                let list = std::mem::take(&mut aggs);
                let mut groups: Vec<DataAggregator> = vec![];
                for b in list {
                    match groups.last_mut() {
                        Some(a) if a.num_bytes() + b.num_bytes() <= maxb && a.num_chunks() + b.num_chunks() <= maxc => a.merge_in(b),
                        _ => groups.push(b),
                    }
                }
                for a in groups {
                    let (xorb, infos) = a.finalize();
                    let xchs: Vec<(MerkleHash, usize)> = xorb.cas_info.chunks.iter().map(|c| (c.chunk_hash, c.unpacked_segment_bytes as usize)).collect();
                    out.push(("obs", format!("AGG xorb={}:{}:{} files={}", &raw(&xorb.hash())[..16], xchs.len(), xorb.num_bytes(),
                        infos.iter().map(|f| format!("[{}]", fmt_segs(f))).collect::<Vec<_>>().join(""))));
                    if xchs.len() > maxc || xorb.num_bytes() > maxb {
                        why.push("AGG-xorb-limits".into());
                    }
                    // oracle: every file resolves to exactly what was fed (C01), verification recomputable (C02), no zero refs (C15)
                    let s = shared.lock().unwrap();
                    let aggt: Table = vec![(xorb.hash(), xchs, 0)];
                    for (k, fi) in infos.iter().enumerate() {
                        if fi.segments.iter().any(|s| s.cas_hash == MerkleHash::default() && s.chunk_index_end > s.chunk_index_start) {
                            why.push(format!("AGG-file{}-unresolved-reference", k));
                        }
                        let Some((_, fedk, _)) = files.iter().find(|f| f.0.metadata.file_hash == fi.metadata.file_hash) else { continue };
                        match resolve(&[&s.ext, &s.registered, &aggt], fi) {
                            Some(chs) if chs == *fedk => {
                                let mut pos = 0;
                                for (sg, v) in fi.segments.iter().zip(&fi.verification) {
                                    let n = (sg.chunk_index_end - sg.chunk_index_start) as usize;
                                    let hs: Vec<MerkleHash> = chs[pos..pos + n].iter().map(|c| c.0).collect();
                                    if v.range_hash != range_hash_from_chunks(&hs) {
                                        why.push(format!("AGG-file{}-verification", k));
                                    }
                                    pos += n;
                                }
                                if fi.verification.len() != fi.segments.len() {
                                    why.push(format!("AGG-file{}-verification-count", k));
                                }
                            },
                            _ => why.push(format!("AGG-file{}-does-not-resolve-to-fed-chunks", k)),
                        }
                    }
                }
            },
            _ => {},
        }
    }
    out.push(("orc", if why.is_empty() { "ok".to_string() } else { format!("FAIL {}", why.join(",")) }));
    out
}

fn deduplication_nranges() -> &'static usize {
    // NRANGES_IN_STREAMING_FRAGMENTATION_ESTIMATOR is private to the crate; mirror the env convention
    static V: std::sync::OnceLock<usize> = std::sync::OnceLock::new();
    V.get_or_init(|| std::env::var("HF_XET_NRANGES_IN_STREAMING_FRAGMENTATION_ESTIMATOR").ok().and_then(|s| s.parse().ok()).unwrap_or(128))
}
