// C17: file reconstruction.  A small HTTP server plays the blob store; the real RemoteClient downloads the terms of a
// plan with the sequential and the parallel writer, with and without the chunk cache (cold, then warm), for whole-file
// and byte-range requests.  The output file and the reported length are compared with the model and with the slice of
// the concatenated term data computed here directly.
use std::collections::HashMap;
use std::sync::Arc;

use cas_client::{CacheConfig, FileProvider, OutputProvider, RemoteClient};
use cas_object::CompressionScheme;
use cas_types::{CASReconstructionFetchInfo, CASReconstructionTerm, ChunkRange, FileRange, HexMerkleHash, HttpRange};
use merklehash::MerkleHash;
use xet_threadpool::ThreadPool;

use crate::shard::cksum;
use crate::util::Lines;

pub fn chunk(x: usize, i: usize, len: usize) -> Vec<u8> {
    (0..len).map(|j| ((x * 53 + i * 19 + j * 5 + 2) % 256) as u8).collect()
}

struct Xorb {
    hash: MerkleHash,
    lens: Vec<usize>,
    // serialized chunks (the bytes the blob store holds) and the byte offset of every chunk boundary
    blob: Vec<u8>,
    bounds: Vec<usize>,
}

fn build_xorb(x: usize, lens: &[usize]) -> Xorb {
    let mut blob = vec![];
    let mut bounds = vec![0];
    for (i, l) in lens.iter().enumerate() {
        let data = chunk(x, i, *l);
        let scheme = if (x + i) % 3 == 0 { CompressionScheme::LZ4 } else if (x + i) % 3 == 1 { CompressionScheme::None } else { CompressionScheme::ByteGrouping4LZ4 };
        cas_object::serialize_chunk(&data, &mut blob, Some(scheme)).unwrap();
        bounds.push(blob.len());
    }
    let mut h = [0u8; 32];
    h[0] = x as u8 + 1;
    h[31] = 0x5a;
    Xorb { hash: MerkleHash::from(h), lens: lens.to_vec(), blob, bounds }
}

// a minimal HTTP/1.1 blob store: one thread per connection, keep-alive, GET with a Range header
fn serve(xorbs: Arc<Vec<Xorb>>) -> (String, std::sync::mpsc::Receiver<String>, Arc<std::sync::atomic::AtomicBool>) {
    use std::io::{BufRead, BufReader, Write};
    let listener = std::net::TcpListener::bind("127.0.0.1:0").unwrap();
    let addr = format!("http://{}", listener.local_addr().unwrap());
    let (tx, rx) = std::sync::mpsc::channel();
    let stop = Arc::new(std::sync::atomic::AtomicBool::new(false));
    let stop2 = stop.clone();
    listener.set_nonblocking(true).unwrap();
    std::thread::spawn(move || loop {
        if stop2.load(std::sync::atomic::Ordering::SeqCst) {
            break;
        }
        let stream = match listener.accept() {
            Ok((s, _)) => s,
            Err(_) => {
                std::thread::sleep(std::time::Duration::from_millis(2));
                continue;
            },
        };
        let _ = stream.set_nonblocking(false);
        let _ = stream.set_nodelay(true);
        let (xorbs, tx) = (xorbs.clone(), tx.clone());
        std::thread::spawn(move || {
            let mut reader = BufReader::new(stream.try_clone().unwrap());
            let mut stream = stream;
            loop {
                let mut line = String::new();
                if reader.read_line(&mut line).unwrap_or(0) == 0 {
                    return;
                }
                let url = line.split(' ').nth(1).unwrap_or("").to_string();
                let mut range = String::new();
                loop {
                    let mut h = String::new();
                    if reader.read_line(&mut h).unwrap_or(0) == 0 {
                        return;
                    }
                    let h = h.trim_end();
                    if h.is_empty() {
                        break;
                    }
                    if let Some((k, v)) = h.split_once(':') {
                        if k.eq_ignore_ascii_case("range") {
                            range = v.trim().to_string();
                        }
                    }
                }
                let _ = tx.send(format!("{} {}", url, range));
                // /x/<idx>/<fs>-<fe>
                let parts: Vec<&str> = url.trim_start_matches('/').split('/').collect();
                let x: usize = parts.get(1).and_then(|s| s.parse().ok()).unwrap_or(usize::MAX);
                let body = (|| {
                    let xb = xorbs.get(x)?;
                    let r = range.strip_prefix("bytes=")?;
                    let (a, b) = r.split_once('-')?;
                    let (a, b): (usize, usize) = (a.parse().ok()?, b.parse().ok()?);
                    if a > b || b >= xb.blob.len() {
                        return None;
                    }
                    Some(xb.blob[a..=b].to_vec())
                })();
                let (status, body) = match body {
                    Some(b) => ("206 Partial Content", b),
                    None => ("416 Range Not Satisfiable", b"bad".to_vec()),
                };
                let head = format!("HTTP/1.1 {}\r\nContent-Length: {}\r\nContent-Type: application/octet-stream\r\nConnection: keep-alive\r\n\r\n", status, body.len());
                if stream.write_all(head.as_bytes()).is_err() || stream.write_all(&body).is_err() || stream.flush().is_err() {
                    return;
                }
            }
        });
    });
    (addr, rx, stop)
}

// `HUGE <nterms> <nchunks> <chunk_len> <seq|par>`: a whole-file download of nterms terms that each cover all chunks of one
// xorb (term length nchunks * chunk_len < 2^32, file length beyond 2^32).  Nothing of file size is held in memory: the
// output file is compared block by block with the term data.
fn run_huge(op: &[&str]) -> Lines {
    use std::io::Read;
    let nterms: usize = op[1].parse().unwrap();
    let nchunks: usize = op[2].parse().unwrap();
    let clen: usize = op[3].parse().unwrap();
    let par = op[4] == "par";
    let mut out: Lines = vec![];
    let mut why: Vec<String> = vec![];
    let xorbs = Arc::new(vec![build_xorb(0, &vec![clen; nchunks])]);
    let (addr, _reqlog, stop) = serve(xorbs.clone());
    let term: Vec<u8> = (0..nchunks).flat_map(|i| chunk(0, i, clen)).collect();
    let total = term.len() as u64 * nterms as u64;
    let terms: Vec<CASReconstructionTerm> = (0..nterms)
        .map(|_| CASReconstructionTerm { hash: HexMerkleHash::from(xorbs[0].hash), unpacked_length: term.len() as u32, range: ChunkRange { start: 0, end: nchunks as u32 } })
        .collect();
    let mut fi: HashMap<HexMerkleHash, Vec<CASReconstructionFetchInfo>> = HashMap::new();
    fi.entry(HexMerkleHash::from(xorbs[0].hash)).or_default().push(CASReconstructionFetchInfo {
        range: ChunkRange { start: 0, end: nchunks as u32 },
        url: format!("{}/x/0/0-{}", addr, nchunks),
        url_range: HttpRange { start: 0, end: (xorbs[0].blob.len() - 1) as u32 },
    });
    let fi = Arc::new(fi);
    let tmp = tempfile::tempdir().unwrap();
    let tp = Arc::new(ThreadPool::new().unwrap());
    let client = Arc::new(RemoteClient::new(tp.clone(), &addr, None, &None, &None, tmp.path().join("shards"), false));
    let path = tmp.path().join("out_huge");
    let provider = OutputProvider::File(FileProvider::new(path.clone()));
    let res = tp
        .external_run_async_task(async move {
            if par {
                client.reconstruct_file_to_writer_parallel(terms, fi, 0, None, &provider, None).await
            } else {
                client.reconstruct_file_to_writer(terms, fi, 0, None, &provider, None).await
            }
        });
    let flen = std::fs::metadata(&path).map(|m| m.len()).unwrap_or(0);
    match res {
        Ok(Ok(n)) => {
            out.push(("obs", format!("HUGE len={} file={}", n, flen)));
            if n != total {
                why.push(format!("[C17] whole-file download of {} terms of {} bytes ({} writer): reported length {} instead of {}", nterms, term.len(), op[4], n, total));
            }
            if flen != total {
                why.push(format!("[C17] whole-file download of {} terms of {} bytes ({} writer): the output file has {} bytes instead of {}", nterms, term.len(), op[4], flen, total));
            }
            if let Ok(mut f) = std::fs::File::open(&path) {
                let mut buf = vec![0u8; term.len()];
                for t in 0..nterms {
                    if f.read_exact(&mut buf).is_err() || buf != term {
                        why.push(format!("[C17] whole-file download ({} writer): the output differs from the term data in term {} (file offset {})", op[4], t, t as u64 * term.len() as u64));
                        break;
                    }
                }
            }
        },
        Ok(Err(e)) => {
            out.push(("obs", "HUGE err".into()));
            why.push(format!("[C17] whole-file download of {} bytes ({} writer) failed: {:?}", total, op[4], e));
        },
        Err(e) => {
            out.push(("obs", "HUGE died".into()));
            why.push(format!("[C17] whole-file download of {} bytes ({} writer): the download task died: {:?}", total, op[4], e));
        },
    }
    stop.store(true, std::sync::atomic::Ordering::SeqCst);
    if why.is_empty() {
        out.push(("orc", "ok".into()));
    } else {
        for w in why {
            out.push(("orc", format!("FAIL {}", w)));
        }
    }
    out
}

pub fn run(toks: &[&str]) -> Lines {
    let ops = crate::shard::split_ops(toks);
    if let Some(op) = ops.iter().find(|o| o[0] == "HUGE") {
        return run_huge(op);
    }
    let mut out: Lines = vec![];
    let mut why: Vec<String> = vec![];
    let mut xorbs: Vec<Xorb> = vec![];
    let mut terms: Vec<(usize, u32, u32)> = vec![];
    let mut fetch: Vec<(usize, u32, u32)> = vec![];
    for op in &ops {
        match op[0] {
            "X" => xorbs.push(build_xorb(xorbs.len(), &op[1].split(',').map(|x| x.parse().unwrap()).collect::<Vec<usize>>())),
            "T" => terms.push((op[1].parse().unwrap(), op[2].parse().unwrap(), op[3].parse().unwrap())),
            "F" => fetch.push((op[1].parse().unwrap(), op[2].parse().unwrap(), op[3].parse().unwrap())),
            _ => {},
        }
    }
    let xorbs = Arc::new(xorbs);
    let (addr, reqlog, stop) = serve(xorbs.clone());
    // the whole file, term by term
    let term_data: Vec<Vec<u8>> = terms.iter().map(|(x, s, e)| (*s..*e).flat_map(|i| chunk(*x, i as usize, xorbs[*x].lens[i as usize])).collect()).collect();
    let whole: Vec<u8> = term_data.concat();
    let mk_terms = |sel: &[usize]| -> Vec<CASReconstructionTerm> {
        sel.iter()
            .map(|&i| CASReconstructionTerm { hash: HexMerkleHash::from(xorbs[terms[i].0].hash), unpacked_length: term_data[i].len() as u32, range: ChunkRange { start: terms[i].1, end: terms[i].2 } })
            .collect()
    };
    let mut fi: HashMap<HexMerkleHash, Vec<CASReconstructionFetchInfo>> = HashMap::new();
    for (x, fs, fe) in &fetch {
        let xb = &xorbs[*x];
        fi.entry(HexMerkleHash::from(xb.hash)).or_default().push(CASReconstructionFetchInfo {
            range: ChunkRange { start: *fs, end: *fe },
            // one URL per fetch range (as the service signs every range separately)
            url: format!("{}/x/{}/{}-{}", addr, x, fs, fe),
            url_range: HttpRange { start: xb.bounds[*fs as usize] as u32, end: (xb.bounds[*fe as usize] - 1) as u32 },
        });
    }
    let fi = Arc::new(fi);
    let tmp = tempfile::tempdir().unwrap();
    let tp = Arc::new(ThreadPool::new().unwrap());
    let mut qn = 0;
    for op in &ops {
        if op[0] != "Q" {
            continue;
        }
        // Q <seq|par> <bs> <be|-> <cache 0|1> <repeat>
        let par = op[1] == "par";
        let range: Option<(u64, u64)> = if op[3] == "-" { None } else { Some((op[2].parse().unwrap(), op[3].parse().unwrap())) };
        let use_cache = op[4] == "1";
        let rounds: usize = op.get(5).map(|x| x.parse().unwrap()).unwrap_or(1);
        // what the service would answer for this range: the terms that cover it and the offset into the first
        let (sel, offset): (Vec<usize>, u64) = match range {
            None => ((0..terms.len()).collect(), 0),
            Some((bs, be)) => {
                let mut pos = 0u64;
                let mut sel = vec![];
                let mut off = 0;
                for (i, d) in term_data.iter().enumerate() {
                    let (a, b) = (pos, pos + d.len() as u64);
                    if b > bs && a < be {
                        if sel.is_empty() {
                            off = bs - a;
                        }
                        sel.push(i);
                    }
                    pos = b;
                }
                (sel, off)
            },
        };
        let expect: Vec<u8> = match range {
            None => whole.clone(),
            Some((bs, be)) => whole[bs as usize..(be as usize).min(whole.len())].to_vec(),
        };
        let cache_dir = tmp.path().join(format!("cache{}", qn));
        let cache_cfg = if use_cache { Some(CacheConfig { cache_directory: cache_dir, cache_size: 1 << 26 }) } else { None };
        let client = Arc::new(RemoteClient::new(tp.clone(), &addr, None, &None, &cache_cfg, tmp.path().join("shards"), false));
        for round in 0..rounds {
            let path = tmp.path().join(format!("out{}_{}", qn, round));
            let provider = OutputProvider::File(FileProvider::new(path.clone()));
            while reqlog.try_recv().is_ok() {}
            if std::env::var("XV_RECON_DEBUG").is_ok() {
                eprintln!("query {} round {} ({} writer, range {:?}, cache {})", qn, round, op[1], range, use_cache);
            }
            let (c2, t2, f2) = (client.clone(), mk_terms(&sel), fi.clone());
            let br = range.map(|(s, e)| FileRange { start: s, end: e });
            let res = tp
                .external_run_async_task(async move {
                    if par {
                        c2.reconstruct_file_to_writer_parallel(t2, f2, offset, br, &provider, None).await
                    } else {
                        c2.reconstruct_file_to_writer(t2, f2, offset, br, &provider, None).await
                    }
                })
                .unwrap();
            let nreq = reqlog.try_iter().count();
            let got = std::fs::read(&path).unwrap_or_default();
            match res {
                Ok(n) => {
                    out.push(("obs", format!("Q{}.{} len={} out={}", qn, round, n, cksum(&got))));
                    if got != expect {
                        why.push(format!("[C17] query {} ({} writer, range {:?}, cache {}, round {}): the output ({} bytes, cksum {}) is not the requested slice ({} bytes, cksum {})",
                            qn, op[1], range, use_cache, round, got.len(), cksum(&got), expect.len(), cksum(&expect)));
                    }
                    if n != got.len() as u64 {
                        why.push(format!("[C17] query {} ({} writer, range {:?}): reported length {} but {} bytes were written", qn, op[1], range, n, got.len()));
                    }
                    if use_cache && round > 0 && nreq > 0 {
                        out.push(("note", format!("warm round made {} requests", nreq)));
                    }
                },
                Err(e) => {
                    out.push(("obs", format!("Q{}.{} err", qn, round)));
                    why.push(format!("[C17] query {} ({} writer, range {:?}, cache {}, round {}) failed: {:?}", qn, op[1], range, use_cache, round, e));
                },
            }
        }
        qn += 1;
    }
    stop.store(true, std::sync::atomic::Ordering::SeqCst);
    if why.is_empty() {
        out.push(("orc", "ok".into()));
    } else {
        for w in why {
            out.push(("orc", format!("FAIL {}", w)));
        }
    }
    out
}
