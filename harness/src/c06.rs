// C06: hash functions. One op per case; hashes travel as raw 32-byte hex, results are printed in the
// display (hex()) form.
use std::io::Write;

use mdb_shard::chunk_verification::range_hash_from_chunks;
use merkledb::aggregate_hashes::{cas_node_hash, file_node_hash};
use merkledb::prelude::MerkleDBHighLevelMethodsV1;
use merkledb::{Chunk, MerkleMemDB};
use merklehash::{compute_data_hash, compute_internal_node_hash, DataHash, HashedWrite, MerkleHash};

use crate::util::{hex, unhex, Lines};

fn h32(s: &str) -> MerkleHash {
    DataHash::from_slice(&unhex(s)).unwrap()
}

pub fn parse_nodes(s: &str) -> Vec<(MerkleHash, usize)> {
    if s == "-" || s.is_empty() {
        return vec![];
    }
    s.split(',')
        .map(|e| {
            let (h, l) = e.split_once(':').unwrap();
            (h32(h), l.parse::<usize>().unwrap())
        })
        .collect()
}

pub fn validator_root(nodes: &[(MerkleHash, usize)]) -> MerkleHash {
    let chunks: Vec<Chunk> = nodes.iter().map(|(h, l)| Chunk { hash: *h, length: *l }).collect();
    let mut db = MerkleMemDB::default();
    let mut staging = db.start_insertion_staging();
    db.add_file(&mut staging, &chunks);
    let ret = db.finalize(staging);
    *ret.hash()
}

// Independent statement of the aggregation ("published construction"), written against blake3 directly:
// leaves (hash,len); a parent is cut after the child at index i when (children so far >= 2 and word3 % 4 == 0)
// or children so far >= 8 or it is the last; parent hash = keyed_blake3(INTERNAL key, lines "{hex} : {len}\n");
// repeat until one node is left.  The first length seen for a hash wins (hash-consing), zero hash has length 0.
pub fn indep_root(nodes: &[(MerkleHash, usize)]) -> MerkleHash {
    const KEY: [u8; 32] = [
        1, 126, 197, 199, 165, 71, 41, 150, 253, 148, 102, 102, 180, 138, 2, 230, 93, 221, 83, 111, 55, 199, 109, 210, 248, 99, 82, 230, 74,
        83, 113, 63,
    ];
    if nodes.is_empty() {
        return MerkleHash::default();
    }
    let mut seen: std::collections::HashMap<[u8; 32], usize> = std::collections::HashMap::new();
    seen.insert([0u8; 32], 0);
    let mut level: Vec<([u8; 32], usize)> = nodes
        .iter()
        .map(|(h, l)| {
            let k: [u8; 32] = h.as_bytes().try_into().unwrap();
            let l = *seen.entry(k).or_insert(*l);
            (k, l)
        })
        .collect();
    while level.len() > 1 {
        let mut next = vec![];
        let mut start = 0usize;
        for i in 0..level.len() {
            let w3 = u64::from_le_bytes(level[i].0[24..32].try_into().unwrap());
            let so_far = i - start;
            if (so_far >= 2 && w3 % 4 == 0) || so_far >= 8 || i + 1 == level.len() {
                let mut text = String::new();
                let mut total = 0usize;
                for (h, l) in &level[start..=i] {
                    let w: Vec<u64> = (0..4).map(|j| u64::from_le_bytes(h[8 * j..8 * j + 8].try_into().unwrap())).collect();
                    text.push_str(&format!("{:016x}{:016x}{:016x}{:016x} : {}\n", w[0], w[1], w[2], w[3], l));
                    total = total.wrapping_add(*l);
                }
                let ph: [u8; 32] = *blake3::keyed_hash(&KEY, text.as_bytes()).as_bytes();
                let l = *seen.entry(ph).or_insert(total);
                next.push((ph, l));
                start = i + 1;
            }
        }
        level = next;
    }
    DataHash::from_slice(&level[0].0).unwrap()
}

struct Scripted {
    script: Vec<Option<usize>>,
    pos: usize,
    accepted: Vec<u8>,
}
impl Write for Scripted {
    fn write(&mut self, buf: &[u8]) -> std::io::Result<usize> {
        let r = self.script[self.pos];
        self.pos += 1;
        match r {
            None => Err(std::io::Error::new(std::io::ErrorKind::Other, "scripted")),
            Some(n) => {
                let n = n.min(buf.len());
                self.accepted.extend_from_slice(&buf[..n]);
                Ok(n)
            },
        }
    }
    fn flush(&mut self) -> std::io::Result<()> {
        Ok(())
    }
}

pub fn run(toks: &[&str]) -> Lines {
    let mut out: Lines = vec![];
    let mut ok = |out: &mut Lines, cond: bool, why: &str| {
        out.push(("orc", if cond { "ok".to_string() } else { format!("FAIL {}", why) }));
    };
    match toks[0] {
        "dh" => out.push(("obs", compute_data_hash(&unhex(toks[1])).hex())),
        "ih" => out.push(("obs", compute_internal_node_hash(&unhex(toks[1])).hex())),
        "hmac" => {
            let (h, k) = (h32(toks[1]), h32(toks[2]));
            let got = h.hmac(k);
            out.push(("obs", got.hex()));
            // hmac is the keyed BLAKE3 of the hash bytes under the key, for every key (the all-zero key included: "no key" is the
            // callers' convention, not the function's)
            let key: [u8; 32] = k.as_bytes().try_into().unwrap();
            let want = blake3::keyed_hash(&key, h.as_bytes());
            ok(&mut out, got.as_bytes() == want.as_bytes(), "hmac-is-not-keyed-blake3-of-the-hash-under-the-key");
        },
        "range" => {
            let hs: Vec<MerkleHash> = toks[1].split(',').filter(|x| !x.is_empty() && *x != "-").map(h32).collect();
            out.push(("obs", range_hash_from_chunks(&hs).hex()));
        },
        "cas" => {
            let nodes = parse_nodes(toks[1]);
            let a = cas_node_hash(&nodes);
            let v = validator_root(&nodes);
            out.push(("obs", format!("cas={} val={}", a.hex(), v.hex())));
            ok(&mut out, a == v, "uploader-hash-differs-from-validator-path");
            ok(&mut out, a == indep_root(&nodes), "aggregate-differs-from-independent-construction");
        },
        "file" => {
            let salt: [u8; 32] = unhex(toks[1]).try_into().unwrap();
            let nodes = parse_nodes(toks[2]);
            out.push(("obs", file_node_hash(&nodes, &salt).unwrap().hex()));
        },
        "casneq" => {
            // two different (length-consistent) lists must have different aggregate hashes
            let a = cas_node_hash(&parse_nodes(toks[1]));
            let b = cas_node_hash(&parse_nodes(toks[2]));
            out.push(("obs", (if a == b { "eq" } else { "neq" }).to_string()));
            ok(&mut out, a != b, "different-lists-same-hash");
        },
        "hexof" => {
            let h = h32(toks[1]);
            out.push(("obs", format!("hex={} b64={}", h.hex(), h.base64())));
            let rt = DataHash::from_hex(&h.hex()).map(|x| x == h).unwrap_or(false);
            let rt2 = DataHash::from_base64(&h.base64()).map(|x| x == h).unwrap_or(false);
            ok(&mut out, rt && rt2, "text-form-roundtrip");
        },
        "fromhex" => {
            let s = String::from_utf8_lossy(&unhex(toks[1])).to_string();
            let r = if s.is_ascii() { DataHash::from_hex(&s).ok() } else { None };
            out.push(("obs", r.map(|h| format!("ok {}", hex(h.as_bytes()))).unwrap_or("err".to_string())));
            if let Some(h) = r {
                ok(&mut out, h.hex() == s.to_ascii_lowercase(), "hex-of-from_hex-is-not-lowercase-input");
            }
        },
        "fromb64" => {
            let s = String::from_utf8_lossy(&unhex(toks[1])).to_string();
            let r = if s.is_ascii() { DataHash::from_base64(&s).ok() } else { None };
            out.push(("obs", r.map(|h| format!("ok {}", hex(h.as_bytes()))).unwrap_or("err".to_string())));
            if let Some(h) = r {
                ok(&mut out, h.base64() == s, "base64-of-from_base64-differs");
            }
        },
        "hw" => {
            // HashedWrite over a scripted inner writer:  buf:accept;buf:accept...   accept = n | e
            let calls: Vec<(Vec<u8>, Option<usize>)> = toks[1]
                .split(';')
                .map(|c| {
                    let (b, a) = c.split_once(':').unwrap();
                    (unhex(b), if a == "e" { None } else { Some(a.parse().unwrap()) })
                })
                .collect();
            let inner = Scripted { script: calls.iter().map(|c| c.1).collect(), pos: 0, accepted: vec![] };
            let mut hw = HashedWrite::new(inner);
            for (b, _) in &calls {
                let _ = hw.write(b);
            }
            let got = hw.hash();
            let inner = hw.into_inner();
            out.push(("obs", got.hex()));
            ok(&mut out, got == compute_data_hash(&inner.accepted), "streaming-hash-differs-from-hash-of-accepted-bytes");
        },
        _ => panic!("bad op"),
    }
    out
}
