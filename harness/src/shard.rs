// Shared shard plumbing for C05/C09/C10/C18: build in-memory shards from a case description,
// canonical text dumps and a checksum implemented identically in the OCaml driver.
use std::io::Cursor;

use mdb_shard::cas_structs::{CASChunkSequenceEntry, CASChunkSequenceHeader, MDBCASInfo};
use mdb_shard::file_structs::{FileDataSequenceEntry, FileDataSequenceHeader, FileMetadataExt, FileVerificationEntry, MDBFileInfo};
use mdb_shard::shard_in_memory::MDBInMemoryShard;
use mdb_shard::streaming_shard::MDBMinimalShard;
use mdb_shard::MDBShardInfo;
use merklehash::{DataHash, MerkleHash};

use crate::util::{hex, unhex, Lines};

pub fn h32(s: &str) -> MerkleHash {
    DataHash::from_slice(&unhex(s)).unwrap()
}
pub fn raw(h: &MerkleHash) -> String {
    hex(h.as_bytes())
}

// two 31-bit polynomial hashes (fits OCaml's 63-bit ints)
pub fn cksum(b: &[u8]) -> String {
    const P: u64 = 2147483647;
    let (mut a, mut c) = (7u64, 11u64);
    for x in b {
        a = (a * 1000003 + *x as u64) % P;
        c = (c * 998244353 % P + *x as u64 + 1) % P;
    }
    format!("{}.{}.{}", b.len(), a, c)
}

pub fn parse_file(t: &[&str]) -> MDBFileInfo {
    // F hash flags unused segs verif ext
    let segs: Vec<FileDataSequenceEntry> = if t[4] == "-" {
        vec![]
    } else {
        t[4].split(',')
            .map(|s| {
                let p: Vec<&str> = s.split(':').collect();
                FileDataSequenceEntry {
                    cas_hash: h32(p[0]),
                    cas_flags: p[1].parse().unwrap(),
                    unpacked_segment_bytes: p[2].parse().unwrap(),
                    chunk_index_start: p[3].parse().unwrap(),
                    chunk_index_end: p[4].parse().unwrap(),
                }
            })
            .collect()
    };
    let verification: Vec<FileVerificationEntry> =
        if t[5] == "-" { vec![] } else { t[5].split(',').map(|h| FileVerificationEntry::new(h32(h))).collect() };
    let metadata_ext = if t[6] == "-" { None } else { Some(FileMetadataExt::new(h32(t[6]))) };
    MDBFileInfo {
        metadata: FileDataSequenceHeader {
            file_hash: h32(t[1]),
            file_flags: t[2].parse().unwrap(),
            num_entries: segs.len() as u32,
            _unused: t[3].parse().unwrap(),
        },
        segments: segs,
        verification,
        metadata_ext,
    }
}

pub fn parse_cas(t: &[&str]) -> MDBCASInfo {
    // C hash flags nbytes ndisk chunks
    let chunks: Vec<CASChunkSequenceEntry> = if t[5] == "-" {
        vec![]
    } else {
        t[5].split(',')
            .map(|s| {
                let p: Vec<&str> = s.split(':').collect();
                CASChunkSequenceEntry {
                    chunk_hash: h32(p[0]),
                    unpacked_segment_bytes: p[1].parse().unwrap(),
                    chunk_byte_range_start: p[2].parse().unwrap(),
                    _unused: p[3].parse().unwrap(),
                }
            })
            .collect()
    };
    MDBCASInfo {
        metadata: CASChunkSequenceHeader {
            cas_hash: h32(t[1]),
            cas_flags: t[2].parse().unwrap(),
            num_entries: chunks.len() as u32,
            num_bytes_in_cas: t[3].parse().unwrap(),
            num_bytes_on_disk: t[4].parse().unwrap(),
        },
        chunks,
    }
}

pub fn dump_file(f: &MDBFileInfo) -> String {
    let segs: Vec<String> = f
        .segments
        .iter()
        .map(|s| format!("{}:{}:{}:{}:{}", raw(&s.cas_hash), s.cas_flags, s.unpacked_segment_bytes, s.chunk_index_start, s.chunk_index_end))
        .collect();
    let ver: Vec<String> = f.verification.iter().map(|v| raw(&v.range_hash)).collect();
    format!(
        "F {} {} {} {} {} {}",
        raw(&f.metadata.file_hash),
        f.metadata.file_flags,
        f.metadata._unused,
        if segs.is_empty() { "-".to_string() } else { segs.join(",") },
        if ver.is_empty() { "-".to_string() } else { ver.join(",") },
        f.metadata_ext.as_ref().map(|e| raw(&e.sha256)).unwrap_or("-".to_string())
    )
}

pub fn dump_cas(c: &MDBCASInfo) -> String {
    let ch: Vec<String> = c
        .chunks
        .iter()
        .map(|e| format!("{}:{}:{}:{}", raw(&e.chunk_hash), e.unpacked_segment_bytes, e.chunk_byte_range_start, e._unused))
        .collect();
    format!(
        "C {} {} {} {} {}",
        raw(&c.metadata.cas_hash),
        c.metadata.cas_flags,
        c.metadata.num_bytes_in_cas,
        c.metadata.num_bytes_on_disk,
        if ch.is_empty() { "-".to_string() } else { ch.join(",") }
    )
}

pub fn dump_seg(r: &Option<(usize, FileDataSequenceEntry)>) -> String {
    match r {
        None => "none".to_string(),
        Some((n, s)) => {
            format!("n={} {}:{}:{}:{}:{}", n, raw(&s.cas_hash), s.cas_flags, s.unpacked_segment_bytes, s.chunk_index_start, s.chunk_index_end)
        },
    }
}

pub fn hashes(s: &str) -> Vec<MerkleHash> {
    if s == "-" || s.is_empty() {
        vec![]
    } else {
        s.split(',').map(h32).collect()
    }
}

pub fn serialize(m: &MDBInMemoryShard) -> (Vec<u8>, MDBShardInfo) {
    let mut buf = Vec::new();
    let info = MDBShardInfo::serialize_from(&mut buf, m).unwrap();
    (buf, info)
}

// canonical description of serialized shard bytes: everything but the chunk table verbatim,
// the chunk table as a sorted list (its order inside equal keys is unspecified)
pub fn describe_bytes(bytes: &[u8], info: &MDBShardInfo) -> String {
    let a = info.metadata.chunk_lookup_offset as usize;
    let b = info.metadata.footer_offset as usize;
    let mut entries: Vec<(u64, u32, u32)> = bytes[a..b]
        .chunks(16)
        .map(|e| {
            (
                u64::from_le_bytes(e[0..8].try_into().unwrap()),
                u32::from_le_bytes(e[8..12].try_into().unwrap()),
                u32::from_le_bytes(e[12..16].try_into().unwrap()),
            )
        })
        .collect();
    let keys_sorted = entries.windows(2).all(|w| w[0].0 <= w[1].0);
    entries.sort();
    let mut t = Vec::new();
    for e in &entries {
        t.extend_from_slice(format!("{},{},{};", e.0, e.1, e.2).as_bytes());
    }
    format!("len={} head={} chunktbl={} sorted={} foot={}", bytes.len(), cksum(&bytes[..a]), cksum(&t), keys_sorted, cksum(&bytes[b..]))
}

pub struct Built {
    pub mem: MDBInMemoryShard,
    pub files: Vec<MDBFileInfo>, // as added (last write per key wins)
    pub cass: Vec<MDBCASInfo>,
}

pub fn build(ops: &[Vec<&str>]) -> Built {
    let mut mem = MDBInMemoryShard::default();
    let mut files: Vec<MDBFileInfo> = vec![];
    let mut cass: Vec<MDBCASInfo> = vec![];
    for op in ops {
        match op[0] {
            "F" => {
                let f = parse_file(op);
                files.retain(|x| x.metadata.file_hash != f.metadata.file_hash);
                files.push(f.clone());
                mem.add_file_reconstruction_info(f).unwrap();
            },
            "C" => {
                let c = parse_cas(op);
                cass.retain(|x| x.metadata.cas_hash != c.metadata.cas_hash);
                cass.push(c.clone());
                mem.add_cas_block(c).unwrap();
            },
            _ => {},
        }
    }
    files.sort_by_key(|f| f.metadata.file_hash);
    cass.sort_by_key(|c| c.metadata.cas_hash);
    Built { mem, files, cass }
}

pub fn split_ops<'a>(toks: &[&'a str]) -> Vec<Vec<&'a str>> {
    let mut ops = vec![];
    let mut cur = vec![];
    for t in toks {
        if *t == "|" {
            if !cur.is_empty() {
                ops.push(std::mem::take(&mut cur));
            }
        } else {
            cur.push(*t);
        }
    }
    if !cur.is_empty() {
        ops.push(cur);
    }
    ops
}

// C09: build, serialize, scan through every reader, look up keys.
pub fn run_c09(toks: &[&str]) -> Lines {
    let ops = split_ops(toks);
    let b = build(&ops);
    let mut out: Lines = vec![];
    let mut why: Vec<String> = vec![];
    let (bytes, info) = serialize(&b.mem);
    out.push(("obs", format!("ser {} acct={}", describe_bytes(&bytes, &info), b.mem.shard_file_size())));
    if b.mem.shard_file_size() != bytes.len() as u64 {
        why.push(format!("size-accounting:{}!={}", b.mem.shard_file_size(), bytes.len()));
    }
    let mut rd = Cursor::new(&bytes);
    let loaded = MDBShardInfo::load_from_reader(&mut rd).unwrap();
    if loaded != info {
        why.push("footer-reload-differs".into());
    }
    // totals
    let disk: u64 = b.cass.iter().map(|c| c.metadata.num_bytes_on_disk as u64).sum();
    let stored: u64 = b.cass.iter().map(|c| c.metadata.num_bytes_in_cas as u64).sum();
    let mat: u64 = b.files.iter().map(|f| f.segments.iter().map(|s| s.unpacked_segment_bytes as u64).sum::<u64>()).sum();
    if loaded.num_bytes() != bytes.len() as u64 || loaded.stored_bytes_on_disk() != disk || loaded.stored_bytes() != stored || loaded.materialized_bytes() != mat {
        why.push("footer-totals".into());
    }
    if loaded.num_file_entries() != b.files.len() || loaded.num_cas_entries() != b.cass.len() {
        why.push("table-counts".into());
    }
    // scans: seekable
    let files = loaded.read_all_file_info_sections(&mut rd).unwrap();
    let cass = loaded.read_all_cas_blocks_full(&mut rd).unwrap();
    let ftxt: Vec<String> = files.iter().map(dump_file).collect();
    let ctxt: Vec<String> = cass.iter().map(dump_cas).collect();
    let ft = ftxt.join("\n");
    let ct = ctxt.join("\n");
    out.push(("obs", format!("scan files={} {} cas={} {}", files.len(), cksum(ft.as_bytes()), cass.len(), cksum(ct.as_bytes()))));
    if files != b.files {
        why.push("scan-files-differ-from-input".into());
    }
    if cass != b.cass {
        why.push("scan-cas-differ-from-input".into());
    }
    // streaming / minimal readers
    {
        let mut r2 = Cursor::new(&bytes);
        match MDBMinimalShard::from_reader(&mut r2, true, true) {
            Ok(ms) => {
                if ms.num_files() != b.files.len() || ms.num_cas() != b.cass.len() {
                    why.push("minimal-counts".into());
                } else {
                    for (i, f) in b.files.iter().enumerate() {
                        let mut v = vec![];
                        ms.file(i).serialize(&mut v).unwrap();
                        let mut w = vec![];
                        f.serialize(&mut w).unwrap();
                        if v != w {
                            why.push(format!("minimal-file{}", i));
                        }
                    }
                    for (i, c) in b.cass.iter().enumerate() {
                        let mut v = vec![];
                        ms.cas(i).serialize(&mut v).unwrap();
                        let mut w = vec![];
                        c.serialize(&mut w).unwrap();
                        if v != w {
                            why.push(format!("minimal-cas{}", i));
                        }
                    }
                }
            },
            Err(e) => why.push(format!("minimal-reader-error:{:?}", e)),
        }
        let mut r3 = Cursor::new(&bytes);
        let mut nf = 0usize;
        let mut nc = 0usize;
        let res = mdb_shard::streaming_shard::process_shard_stream(
            &mut r3,
            Some(|_f: mdb_shard::file_structs::MDBFileInfoView| {
                nf += 1;
                Ok(())
            }),
            Some(|_c: mdb_shard::cas_structs::MDBCASInfoView| {
                nc += 1;
                Ok(())
            }),
        );
        if res.is_err() || nf != b.files.len() || nc != b.cass.len() {
            why.push("streaming-walk".into());
        }
    }
    // lookups
    let mut nq = 0;
    for op in &ops {
        match op[0] {
            "qf" => {
                let h = h32(op[1]);
                let r = loaded.get_file_reconstruction_info(&mut rd, &h);
                let expect = b.files.iter().find(|f| f.metadata.file_hash == h);
                let same_prefix = b.files.iter().filter(|f| f.metadata.file_hash[0] == h[0]).count();
                match r {
                    Ok(Some(f)) => {
                        out.push(("obs", format!("qf{} found {}", nq, cksum(dump_file(&f).as_bytes()))));
                        if expect != Some(&f) {
                            why.push(format!("qf{}-wrong-record", nq));
                        }
                    },
                    Ok(None) => {
                        out.push(("obs", format!("qf{} notfound", nq)));
                        if expect.is_some() {
                            why.push(format!("qf{}-stored-key-not-found", nq));
                        }
                    },
                    Err(_) => {
                        out.push(("obs", format!("qf{} error", nq)));
                        if same_prefix < 8 {
                            why.push(format!("qf{}-error-with-{}-prefix-sharers", nq, same_prefix));
                        }
                    },
                }
                // the in-memory shard must agree on stored keys
                if b.mem.get_file_reconstruction_info(&h).as_ref() != expect {
                    why.push(format!("qf{}-inmem", nq));
                }
                nq += 1;
            },
            "qc" => {
                // xorb lookup through the CAS lookup table
                let h = h32(op[1]);
                let mut idx = [0u32; 8];
                let r = loaded.get_cas_info_index_by_hash(&mut rd, &h, &mut idx);
                match r {
                    Ok(n) => {
                        let mut found = None;
                        for &i in idx.iter().take(n) {
                            use std::io::{Seek, SeekFrom};
                            rd.seek(SeekFrom::Start(loaded.metadata.cas_info_offset + 48 * i as u64)).unwrap();
                            let c = MDBCASInfo::deserialize(&mut rd).unwrap().unwrap();
                            if c.metadata.cas_hash == h {
                                found = Some(c);
                            }
                        }
                        let expect = b.cass.iter().find(|c| c.metadata.cas_hash == h);
                        match &found {
                            Some(c) => out.push(("obs", format!("qc{} found {}", nq, cksum(dump_cas(c).as_bytes())))),
                            None => out.push(("obs", format!("qc{} notfound", nq))),
                        }
                        if found.as_ref() != expect {
                            why.push(format!("qc{}-wrong", nq));
                        }
                    },
                    Err(_) => out.push(("obs", format!("qc{} error", nq))),
                }
                nq += 1;
            },
            _ => {},
        }
    }
    out.push(("orc", if why.is_empty() { "ok".to_string() } else { format!("FAIL {}", why.join(",")) }));
    out
}
