// Shared shard plumbing for C05/C09/C10/C18: build in-memory shards from a case description,
// canonical text dumps and a checksum implemented identically in the OCaml driver.
use std::io::Cursor;

use mdb_shard::cas_structs::{CASChunkSequenceEntry, CASChunkSequenceHeader, MDBCASInfo};
use mdb_shard::file_structs::{FileDataSequenceEntry, FileDataSequenceHeader, FileMetadataExt, FileVerificationEntry, MDBFileInfo};
use mdb_shard::shard_in_memory::MDBInMemoryShard;
use mdb_shard::streaming_shard::MDBMinimalShard;
use mdb_shard::MDBShardInfo;
use merklehash::{DataHash, MerkleHash};

use crate::util::{hex, unhex, Lines};

pub fn h32(s: &str) -> MerkleHash {
    DataHash::from_slice(&unhex(s)).unwrap()
}
pub fn raw(h: &MerkleHash) -> String {
    hex(h.as_bytes())
}

// two 31-bit polynomial hashes (fits OCaml's 63-bit ints)
pub fn cksum(b: &[u8]) -> String {
    const P: u64 = 2147483647;
    let (mut a, mut c) = (7u64, 11u64);
    for x in b {
        a = (a * 1000003 + *x as u64) % P;
        c = (c * 998244353 % P + *x as u64 + 1) % P;
    }
    format!("{}.{}.{}", b.len(), a, c)
}

pub fn parse_file(t: &[&str]) -> MDBFileInfo {
    // F hash flags unused segs verif ext
    let segs: Vec<FileDataSequenceEntry> = if t[4] == "-" {
        vec![]
    } else {
        t[4].split(',')
            .map(|s| {
                let p: Vec<&str> = s.split(':').collect();
                FileDataSequenceEntry {
                    cas_hash: h32(p[0]),
                    cas_flags: p[1].parse().unwrap(),
                    unpacked_segment_bytes: p[2].parse().unwrap(),
                    chunk_index_start: p[3].parse().unwrap(),
                    chunk_index_end: p[4].parse().unwrap(),
                }
            })
            .collect()
    };
    let verification: Vec<FileVerificationEntry> =
        if t[5] == "-" { vec![] } else { t[5].split(',').map(|h| FileVerificationEntry::new(h32(h))).collect() };
    let metadata_ext = if t[6] == "-" { None } else { Some(FileMetadataExt::new(h32(t[6]))) };
    MDBFileInfo {
        metadata: FileDataSequenceHeader {
            file_hash: h32(t[1]),
            file_flags: t[2].parse().unwrap(),
            num_entries: segs.len() as u32,
            _unused: t[3].parse().unwrap(),
        },
        segments: segs,
        verification,
        metadata_ext,
    }
}

pub fn parse_cas(t: &[&str]) -> MDBCASInfo {
    // C hash flags nbytes ndisk chunks
    let chunks: Vec<CASChunkSequenceEntry> = if t[5] == "-" {
        vec![]
    } else {
        t[5].split(',')
            .map(|s| {
                let p: Vec<&str> = s.split(':').collect();
                CASChunkSequenceEntry {
                    chunk_hash: h32(p[0]),
                    unpacked_segment_bytes: p[1].parse().unwrap(),
                    chunk_byte_range_start: p[2].parse().unwrap(),
                    _unused: p[3].parse().unwrap(),
                }
            })
            .collect()
    };
    MDBCASInfo {
        metadata: CASChunkSequenceHeader {
            cas_hash: h32(t[1]),
            cas_flags: t[2].parse().unwrap(),
            num_entries: chunks.len() as u32,
            num_bytes_in_cas: t[3].parse().unwrap(),
            num_bytes_on_disk: t[4].parse().unwrap(),
        },
        chunks,
    }
}

pub fn dump_file(f: &MDBFileInfo) -> String {
    let segs: Vec<String> = f
        .segments
        .iter()
        .map(|s| format!("{}:{}:{}:{}:{}", raw(&s.cas_hash), s.cas_flags, s.unpacked_segment_bytes, s.chunk_index_start, s.chunk_index_end))
        .collect();
    let ver: Vec<String> = f.verification.iter().map(|v| raw(&v.range_hash)).collect();
    format!(
        "F {} {} {} {} {} {}",
        raw(&f.metadata.file_hash),
        f.metadata.file_flags,
        f.metadata._unused,
        if segs.is_empty() { "-".to_string() } else { segs.join(",") },
        if ver.is_empty() { "-".to_string() } else { ver.join(",") },
        f.metadata_ext.as_ref().map(|e| raw(&e.sha256)).unwrap_or("-".to_string())
    )
}

pub fn dump_cas(c: &MDBCASInfo) -> String {
    let ch: Vec<String> = c
        .chunks
        .iter()
        .map(|e| format!("{}:{}:{}:{}", raw(&e.chunk_hash), e.unpacked_segment_bytes, e.chunk_byte_range_start, e._unused))
        .collect();
    format!(
        "C {} {} {} {} {}",
        raw(&c.metadata.cas_hash),
        c.metadata.cas_flags,
        c.metadata.num_bytes_in_cas,
        c.metadata.num_bytes_on_disk,
        if ch.is_empty() { "-".to_string() } else { ch.join(",") }
    )
}

pub fn dump_seg(r: &Option<(usize, FileDataSequenceEntry)>) -> String {
    match r {
        None => "none".to_string(),
        Some((n, s)) => {
            format!("n={} {}:{}:{}:{}:{}", n, raw(&s.cas_hash), s.cas_flags, s.unpacked_segment_bytes, s.chunk_index_start, s.chunk_index_end)
        },
    }
}

pub fn hashes(s: &str) -> Vec<MerkleHash> {
    if s == "-" || s.is_empty() {
        vec![]
    } else {
        s.split(',').map(h32).collect()
    }
}

pub fn serialize(m: &MDBInMemoryShard) -> (Vec<u8>, MDBShardInfo) {
    let mut buf = Vec::new();
    let info = MDBShardInfo::serialize_from(&mut buf, m).unwrap();
    (buf, info)
}

// canonical description of serialized shard bytes: everything but the chunk table verbatim,
// the chunk table as a sorted list (its order inside equal keys is unspecified)
pub fn describe_bytes(bytes: &[u8], info: &MDBShardInfo) -> String {
    let a = info.metadata.chunk_lookup_offset as usize;
    let b = info.metadata.footer_offset as usize;
    let mut entries: Vec<(u64, u32, u32)> = bytes[a..b]
        .chunks(16)
        .map(|e| {
            (
                u64::from_le_bytes(e[0..8].try_into().unwrap()),
                u32::from_le_bytes(e[8..12].try_into().unwrap()),
                u32::from_le_bytes(e[12..16].try_into().unwrap()),
            )
        })
        .collect();
    let keys_sorted = entries.windows(2).all(|w| w[0].0 <= w[1].0);
    entries.sort();
    let mut t = Vec::new();
    for e in &entries {
        t.extend_from_slice(format!("{},{},{};", e.0, e.1, e.2).as_bytes());
    }
    format!("len={} head={} chunktbl={} sorted={} foot={}", bytes.len(), cksum(&bytes[..a]), cksum(&t), keys_sorted, cksum(&bytes[b..]))
}

pub struct Built {
    pub mem: MDBInMemoryShard,
    pub files: Vec<MDBFileInfo>, // as added (last write per key wins)
    pub cass: Vec<MDBCASInfo>,
}

pub fn build(ops: &[Vec<&str>]) -> Built {
    let mut mem = MDBInMemoryShard::default();
    let mut files: Vec<MDBFileInfo> = vec![];
    let mut cass: Vec<MDBCASInfo> = vec![];
    for op in ops {
        match op[0] {
            "F" => {
                let f = parse_file(op);
                files.retain(|x| x.metadata.file_hash != f.metadata.file_hash);
                files.push(f.clone());
                mem.add_file_reconstruction_info(f).unwrap();
            },
            "C" => {
                let c = parse_cas(op);
                cass.retain(|x| x.metadata.cas_hash != c.metadata.cas_hash);
                cass.push(c.clone());
                mem.add_cas_block(c).unwrap();
            },
            _ => {},
        }
    }
    files.sort_by_key(|f| f.metadata.file_hash);
    cass.sort_by_key(|c| c.metadata.cas_hash);
    Built { mem, files, cass }
}

pub fn split_ops<'a>(toks: &[&'a str]) -> Vec<Vec<&'a str>> {
    let mut ops = vec![];
    let mut cur = vec![];
    for t in toks {
        if *t == "|" {
            if !cur.is_empty() {
                ops.push(std::mem::take(&mut cur));
            }
        } else {
            cur.push(*t);
        }
    }
    if !cur.is_empty() {
        ops.push(cur);
    }
    ops
}

// a byte source that hands out its data in short, irregular pieces (std::io::Read and futures AsyncRead)
pub struct ShortRead<'a> {
    pub data: &'a [u8],
    pub pos: usize,
    pub k: usize,
}
impl ShortRead<'_> {
    fn next_len(&mut self, want: usize) -> usize {
        const PATS: [[usize; 6]; 3] = [[1, 7, 4096, 3, 64, 13], [4096, 4096, 1, 4096, 2, 4096], [5, 5, 5, 5, 5, 1000]];
        self.k += 3;
        let cap = PATS[self.k % 3][(self.k / 3) % 6];
        want.min(cap).min(self.data.len() - self.pos)
    }
}
impl std::io::Read for ShortRead<'_> {
    fn read(&mut self, buf: &mut [u8]) -> std::io::Result<usize> {
        let n = self.next_len(buf.len());
        buf[..n].copy_from_slice(&self.data[self.pos..self.pos + n]);
        self.pos += n;
        Ok(n)
    }
}
impl futures::io::AsyncRead for ShortRead<'_> {
    fn poll_read(mut self: std::pin::Pin<&mut Self>, _cx: &mut std::task::Context<'_>, buf: &mut [u8]) -> std::task::Poll<std::io::Result<usize>> {
        let n = self.next_len(buf.len());
        let p = self.pos;
        buf[..n].copy_from_slice(&self.data[p..p + n]);
        self.pos += n;
        std::task::Poll::Ready(Ok(n))
    }
}
impl tokio::io::AsyncRead for ShortRead<'_> {
    fn poll_read(mut self: std::pin::Pin<&mut Self>, _cx: &mut std::task::Context<'_>, buf: &mut tokio::io::ReadBuf<'_>) -> std::task::Poll<std::io::Result<()>> {
        let n = self.next_len(buf.remaining());
        let p = self.pos;
        buf.put_slice(&self.data[p..p + n]);
        self.pos += n;
        std::task::Poll::Ready(Ok(()))
    }
}
impl ShortRead<'_> {
    // the same irregular cut points, as a list of pieces (for stream-of-bytes interfaces)
    pub fn pieces(data: &[u8], k: usize) -> Vec<Vec<u8>> {
        let mut s = ShortRead { data, pos: 0, k };
        let mut out = vec![];
        while s.pos < data.len() {
            let n = s.next_len(usize::MAX).max(1).min(data.len() - s.pos);
            out.push(data[s.pos..s.pos + n].to_vec());
            s.pos += n;
        }
        out
    }
}
impl std::io::Seek for ShortRead<'_> {
    fn seek(&mut self, to: std::io::SeekFrom) -> std::io::Result<u64> {
        let np = match to {
            std::io::SeekFrom::Start(p) => p as i64,
            std::io::SeekFrom::End(d) => self.data.len() as i64 + d,
            std::io::SeekFrom::Current(d) => self.pos as i64 + d,
        };
        if np < 0 {
            return Err(std::io::Error::new(std::io::ErrorKind::InvalidInput, "seek before start"));
        }
        self.pos = (np as usize).min(self.data.len());
        Ok(self.pos as u64)
    }
}
fn minimal_matches(ms: &MDBMinimalShard, files: &[MDBFileInfo], cass: &[MDBCASInfo]) -> bool {
    if ms.num_files() != files.len() || ms.num_cas() != cass.len() {
        return false;
    }
    for (i, f) in files.iter().enumerate() {
        let (mut v, mut w) = (vec![], vec![]);
        ms.file(i).serialize(&mut v).unwrap();
        f.serialize(&mut w).unwrap();
        if v != w {
            return false;
        }
    }
    for (i, c) in cass.iter().enumerate() {
        let (mut v, mut w) = (vec![], vec![]);
        ms.cas(i).serialize(&mut v).unwrap();
        c.serialize(&mut w).unwrap();
        if v != w {
            return false;
        }
    }
    true
}

// C09: build, serialize, scan through every reader, look up keys.
pub fn run_c09(toks: &[&str]) -> Lines {
    let ops = split_ops(toks);
    let b = build(&ops);
    let mut out: Lines = vec![];
    let mut why: Vec<String> = vec![];
    let (bytes, info) = serialize(&b.mem);
    out.push(("obs", format!("ser {} acct={}", describe_bytes(&bytes, &info), b.mem.shard_file_size())));
    if b.mem.shard_file_size() != bytes.len() as u64 {
        why.push(format!("size-accounting:{}!={}", b.mem.shard_file_size(), bytes.len()));
    }
    let mut rd = Cursor::new(&bytes);
    let loaded = MDBShardInfo::load_from_reader(&mut rd).unwrap();
    if loaded != info {
        why.push("footer-reload-differs".into());
    }
    // totals
    let disk: u64 = b.cass.iter().map(|c| c.metadata.num_bytes_on_disk as u64).sum();
    let stored: u64 = b.cass.iter().map(|c| c.metadata.num_bytes_in_cas as u64).sum();
    let mat: u64 = b.files.iter().map(|f| f.segments.iter().map(|s| s.unpacked_segment_bytes as u64).sum::<u64>()).sum();
    if loaded.num_bytes() != bytes.len() as u64 || loaded.stored_bytes_on_disk() != disk || loaded.stored_bytes() != stored || loaded.materialized_bytes() != mat {
        why.push("footer-totals".into());
    }
    if loaded.num_file_entries() != b.files.len() || loaded.num_cas_entries() != b.cass.len() {
        why.push("table-counts".into());
    }
    // scans: seekable
    let files = loaded.read_all_file_info_sections(&mut rd).unwrap();
    let cass = loaded.read_all_cas_blocks_full(&mut rd).unwrap();
    let ftxt: Vec<String> = files.iter().map(dump_file).collect();
    let ctxt: Vec<String> = cass.iter().map(dump_cas).collect();
    let ft = ftxt.join("\n");
    let ct = ctxt.join("\n");
    out.push(("obs", format!("scan files={} {} cas={} {}", files.len(), cksum(ft.as_bytes()), cass.len(), cksum(ct.as_bytes()))));
    if files != b.files {
        why.push("scan-files-differ-from-input".into());
    }
    if cass != b.cass {
        why.push("scan-cas-differ-from-input".into());
    }
    // the header scan of the xorb section (positions included)
    match loaded.read_all_cas_blocks(&mut rd) {
        Ok(hs) => {
            if hs.len() != b.cass.len() || hs.iter().zip(b.cass.iter()).any(|(h, c)| h.0 != c.metadata) {
                why.push("scan-cas-headers-differ-from-input".into());
            }
        },
        Err(e) => why.push(format!("scan-cas-headers-error:{:?}", e)),
    }
    // streaming / minimal readers
    {
        let mut r2 = Cursor::new(&bytes);
        match MDBMinimalShard::from_reader(&mut r2, true, true) {
            Ok(ms) => {
                // the same records written back without lookup tables (what MDBMinimalShard::serialize produces; a keyed export
                // without its tables has the same shape): the scans walk the sections, they do not need the tables
                let mut nt = vec![];
                match ms.serialize(&mut nt) {
                    Ok(_) => {
                        let mut rn = Cursor::new(&nt);
                        match MDBShardInfo::load_from_reader(&mut rn) {
                            Ok(ni) => {
                                if ni.read_all_file_info_sections(&mut rn).ok().as_ref() != Some(&b.files) {
                                    why.push("lookup-free-scan-files".into());
                                }
                                if ni.read_all_cas_blocks_full(&mut rn).ok().as_ref() != Some(&b.cass) {
                                    why.push("lookup-free-scan-cas".into());
                                }
                                match ni.read_all_cas_blocks(&mut rn) {
                                    Ok(hs) => {
                                        if hs.len() != b.cass.len() || hs.iter().zip(b.cass.iter()).any(|(h, c)| h.0 != c.metadata) {
                                            why.push(format!("lookup-free-scan-cas-headers:{}-of-{}", hs.len(), b.cass.len()));
                                        }
                                    },
                                    Err(e) => why.push(format!("lookup-free-scan-cas-headers-error:{:?}", e)),
                                }
                                if ni.stored_bytes_on_disk() != disk || ni.stored_bytes() != stored || ni.materialized_bytes() != mat {
                                    why.push("lookup-free-footer-totals".into());
                                }
                            },
                            Err(e) => why.push(format!("lookup-free-footer-error:{:?}", e)),
                        }
                    },
                    Err(e) => why.push(format!("lookup-free-serialize-error:{:?}", e)),
                }
                if ms.num_files() != b.files.len() || ms.num_cas() != b.cass.len() {
                    why.push("minimal-counts".into());
                } else {
                    for (i, f) in b.files.iter().enumerate() {
                        let mut v = vec![];
                        ms.file(i).serialize(&mut v).unwrap();
                        let mut w = vec![];
                        f.serialize(&mut w).unwrap();
                        if v != w {
                            why.push(format!("minimal-file{}", i));
                        }
                    }
                    for (i, c) in b.cass.iter().enumerate() {
                        let mut v = vec![];
                        ms.cas(i).serialize(&mut v).unwrap();
                        let mut w = vec![];
                        c.serialize(&mut w).unwrap();
                        if v != w {
                            why.push(format!("minimal-cas{}", i));
                        }
                    }
                }
            },
            Err(e) => why.push(format!("minimal-reader-error:{:?}", e)),
        }
        // the same readers over sources that deliver the bytes in short, irregular pieces (a socket, a pipe): sync and async
        for pat in [0usize, 1, 2] {
            let mut sr = ShortRead { data: &bytes, pos: 0, k: pat };
            match MDBMinimalShard::from_reader(&mut sr, true, true) {
                Ok(ms) => {
                    if !minimal_matches(&ms, &b.files, &b.cass) {
                        why.push(format!("minimal-reader-short-reads-pattern{}", pat));
                    }
                },
                Err(e) => why.push(format!("minimal-reader-short-reads-error:{:?}", e)),
            }
            let mut ar = ShortRead { data: &bytes, pos: 0, k: pat };
            match futures::executor::block_on(MDBMinimalShard::from_reader_async(&mut ar, true, true)) {
                Ok(ms) => {
                    if !minimal_matches(&ms, &b.files, &b.cass) {
                        why.push(format!("minimal-reader-async-short-reads-pattern{}", pat));
                    }
                },
                Err(e) => why.push(format!("minimal-reader-async-short-reads-error:{:?}", e)),
            }
            let mut ar = ShortRead { data: &bytes, pos: 0, k: pat };
            let (mut fs, mut cs): (Vec<Vec<u8>>, Vec<Vec<u8>>) = (vec![], vec![]);
            let res = futures::executor::block_on(mdb_shard::streaming_shard::process_shard_stream_async(
                &mut ar,
                Some(|f: mdb_shard::file_structs::MDBFileInfoView| {
                    let mut v = vec![];
                    f.serialize(&mut v)?;
                    fs.push(v);
                    Ok(())
                }),
                Some(|c: mdb_shard::cas_structs::MDBCASInfoView| {
                    let mut v = vec![];
                    c.serialize(&mut v)?;
                    cs.push(v);
                    Ok(())
                }),
            ));
            let want_f: Vec<Vec<u8>> = b.files.iter().map(|f| { let mut w = vec![]; f.serialize(&mut w).unwrap(); w }).collect();
            let want_c: Vec<Vec<u8>> = b.cass.iter().map(|c| { let mut w = vec![]; c.serialize(&mut w).unwrap(); w }).collect();
            if res.is_err() || fs != want_f || cs != want_c {
                why.push(format!("streaming-walk-async-short-reads-pattern{}", pat));
            }
            let mut sr = ShortRead { data: &bytes, pos: 0, k: pat };
            let (mut fs, mut cs): (Vec<Vec<u8>>, Vec<Vec<u8>>) = (vec![], vec![]);
            let res = mdb_shard::streaming_shard::process_shard_stream(
                &mut sr,
                Some(|f: mdb_shard::file_structs::MDBFileInfoView| {
                    let mut v = vec![];
                    f.serialize(&mut v)?;
                    fs.push(v);
                    Ok(())
                }),
                Some(|c: mdb_shard::cas_structs::MDBCASInfoView| {
                    let mut v = vec![];
                    c.serialize(&mut v)?;
                    cs.push(v);
                    Ok(())
                }),
            );
            if res.is_err() || fs != want_f || cs != want_c {
                why.push(format!("streaming-walk-short-reads-pattern{}", pat));
            }
        }
        let mut r3 = Cursor::new(&bytes);
        let mut nf = 0usize;
        let mut nc = 0usize;
        // the record bytes the callbacks are handed, section by section (compared with the model's stream_walk)
        let mut fblob: Vec<u8> = vec![];
        let mut cblob: Vec<u8> = vec![];
        let res = mdb_shard::streaming_shard::process_shard_stream(
            &mut r3,
            Some(|f: mdb_shard::file_structs::MDBFileInfoView| {
                nf += 1;
                f.serialize(&mut fblob)?;
                Ok(())
            }),
            Some(|c: mdb_shard::cas_structs::MDBCASInfoView| {
                nc += 1;
                c.serialize(&mut cblob)?;
                Ok(())
            }),
        );
        if res.is_err() || nf != b.files.len() || nc != b.cass.len() {
            why.push("streaming-walk".into());
        }
        out.push(("obs", format!("stream files={} {} cas={} {}", nf, cksum(&fblob), nc, cksum(&cblob))));
        // the minimal reader's buffer: what MDBMinimalShard::serialize writes between the 48-byte header and the 200-byte footer
        let mut r4 = Cursor::new(&bytes);
        match MDBMinimalShard::from_reader(&mut r4, true, true) {
            Ok(ms) => {
                let mut nt = vec![];
                let _ = ms.serialize(&mut nt);
                if nt.len() >= 248 {
                    out.push(("obs", format!("min data={} files={} cas={}", cksum(&nt[48..nt.len() - 200]), ms.num_files(), ms.num_cas())));
                } else {
                    out.push(("obs", "min short".to_string()));
                }
            },
            Err(_) => out.push(("obs", "min error".to_string())),
        }
    }
    // lookups
    let mut nq = 0;
    for op in &ops {
        match op[0] {
            "qf" => {
                let h = h32(op[1]);
                let r = loaded.get_file_reconstruction_info(&mut rd, &h);
                let expect = b.files.iter().find(|f| f.metadata.file_hash == h);
                let same_prefix = b.files.iter().filter(|f| f.metadata.file_hash[0] == h[0]).count();
                match r {
                    Ok(Some(f)) => {
                        out.push(("obs", format!("qf{} found {}", nq, cksum(dump_file(&f).as_bytes()))));
                        if expect != Some(&f) {
                            why.push(format!("qf{}-wrong-record", nq));
                        }
                    },
                    Ok(None) => {
                        out.push(("obs", format!("qf{} notfound", nq)));
                        if expect.is_some() {
                            why.push(format!("qf{}-stored-key-not-found", nq));
                        }
                    },
                    Err(_) => {
                        out.push(("obs", format!("qf{} error", nq)));
                        if same_prefix < 8 {
                            why.push(format!("qf{}-error-with-{}-prefix-sharers", nq, same_prefix));
                        }
                    },
                }
                // the in-memory shard must agree on stored keys
                if b.mem.get_file_reconstruction_info(&h).as_ref() != expect {
                    why.push(format!("qf{}-inmem", nq));
                }
                nq += 1;
            },
            "qc" => {
                // xorb lookup through the CAS lookup table
                let h = h32(op[1]);
                let mut idx = [0u32; 8];
                let r = loaded.get_cas_info_index_by_hash(&mut rd, &h, &mut idx);
                match r {
                    Ok(n) => {
                        let mut found = None;
                        for &i in idx.iter().take(n) {
                            use std::io::{Seek, SeekFrom};
                            rd.seek(SeekFrom::Start(loaded.metadata.cas_info_offset + 48 * i as u64)).unwrap();
                            let c = MDBCASInfo::deserialize(&mut rd).unwrap().unwrap();
                            if c.metadata.cas_hash == h {
                                found = Some(c);
                            }
                        }
                        let expect = b.cass.iter().find(|c| c.metadata.cas_hash == h);
                        match &found {
                            Some(c) => out.push(("obs", format!("qc{} found {}", nq, cksum(dump_cas(c).as_bytes())))),
                            None => out.push(("obs", format!("qc{} notfound", nq))),
                        }
                        if found.as_ref() != expect {
                            why.push(format!("qc{}-wrong", nq));
                        }
                    },
                    Err(_) => out.push(("obs", format!("qc{} error", nq))),
                }
                nq += 1;
            },
            _ => {},
        }
    }
    out.push(("orc", if why.is_empty() { "ok".to_string() } else { format!("FAIL {}", why.join(",")) }));
    out
}

// ---------------------------------------------------------------------------------------------
// C05: dedup answers are truthful.
use mdb_shard::ShardFileManager;

// truthfulness of one answer against a set of recorded xorbs, under key (zero = unkeyed)
pub fn truthful(cass: &[MDBCASInfo], key: &MerkleHash, qs: &[MerkleHash], ans: &Option<(usize, FileDataSequenceEntry)>) -> Result<(), String> {
    let Some((n, s)) = ans else { return Ok(()) };
    if *n == 0 {
        // an empty run claims nothing; the in-memory index can return it (start past a block end)
        return Ok(());
    }
    if *n > qs.len() {
        return Err(format!("n={}>queries={}", n, qs.len()));
    }
    let zero = MerkleHash::default();
    let cands: Vec<&MDBCASInfo> = cass.iter().filter(|c| c.metadata.cas_hash == s.cas_hash).collect();
    if cands.is_empty() {
        return Err("xorb-not-recorded".into());
    }
    let mut last = String::new();
    for c in cands {
        let a = s.chunk_index_start as usize;
        let e = s.chunk_index_end as usize;
        if e != a + n || e > c.chunks.len() {
            last = format!("range[{},{})-vs-n={}-len={}", a, e, n, c.chunks.len());
            continue;
        }
        let mut ok = true;
        let mut bytes: u64 = 0;
        for i in 0..*n {
            let want = if *key == zero { qs[i] } else { qs[i].hmac(*key) };
            if c.chunks[a + i].chunk_hash != want {
                ok = false;
                last = format!("hash-mismatch-at-{}", i);
                break;
            }
            bytes += c.chunks[a + i].unpacked_segment_bytes as u64;
        }
        if ok && bytes as u32 != s.unpacked_segment_bytes {
            ok = false;
            last = format!("bytes-{}-vs-{}", s.unpacked_segment_bytes, bytes);
        }
        if ok {
            return Ok(());
        }
    }
    Err(last)
}

fn keyed_cass(cass: &[MDBCASInfo], key: &MerkleHash) -> Vec<MDBCASInfo> {
    let zero = MerkleHash::default();
    cass.iter()
        .map(|c| {
            let mut c = c.clone();
            if *key != zero {
                for ch in c.chunks.iter_mut() {
                    ch.chunk_hash = ch.chunk_hash.hmac(*key);
                }
            }
            c
        })
        .collect()
}

// ops: F.. / C.. build one shard; `key <hex>` re-exports it under that key (all tables); `qd h,h,..` queries.
pub fn run_c05(toks: &[&str]) -> Lines {
    let ops = split_ops(toks);
    let b = build(&ops);
    let mut out: Lines = vec![];
    let mut why: Vec<String> = vec![];
    let (bytes, info) = serialize(&b.mem);
    let zero = MerkleHash::default();
    let mut key = zero;
    let mut kbytes: Vec<u8> = vec![];
    let mut kinfo = None;
    for op in &ops {
        if op[0] == "key" {
            key = h32(op[1]);
            let mut rd = Cursor::new(&bytes);
            let mut w = vec![];
            info.export_as_keyed_shard(&mut rd, &mut w, key, std::time::Duration::from_secs(3600), true, true, true).unwrap();
            let mut r2 = Cursor::new(&w);
            kinfo = Some(MDBShardInfo::load_from_reader(&mut r2).unwrap());
            kbytes = w;
        }
    }
    let kc = keyed_cass(&b.cass, &key);
    let mut nq = 0;
    for op in &ops {
        if op[0] != "qd" {
            continue;
        }
        let qs = hashes(op[1]);
        // in-memory index
        let m = b.mem.chunk_hash_dedup_query(&qs);
        out.push(("obs", format!("qd{} mem {}", nq, dump_seg(&m))));
        if let Err(e) = truthful(&b.cass, &zero, &qs, &m) {
            why.push(format!("qd{}-mem-untruthful:{}", nq, e));
        }
        // on-disk, unkeyed
        let mut rd = Cursor::new(&bytes);
        match info.chunk_hash_dedup_query(&mut rd, &qs) {
            Ok(d) => {
                out.push(("obs", format!("qd{} disk {}", nq, dump_seg(&d))));
                if let Err(e) = truthful(&b.cass, &zero, &qs, &d) {
                    why.push(format!("qd{}-disk-untruthful:{}", nq, e));
                }
                if matches!(d, Some((0, _))) {
                    why.push(format!("qd{}-disk-empty-run", nq));
                }
            },
            Err(_) => out.push(("obs", format!("qd{} disk error", nq))),
        }
        // on-disk, keyed export (queries stay unkeyed)
        if let Some(ki) = &kinfo {
            let mut rd = Cursor::new(&kbytes);
            match ki.chunk_hash_dedup_query(&mut rd, &qs) {
                Ok(d) => {
                    out.push(("obs", format!("qd{} keyed {}", nq, dump_seg(&d))));
                    if let Err(e) = truthful(&kc, &key, &qs, &d) {
                        why.push(format!("qd{}-keyed-untruthful:{}", nq, e));
                    }
                },
                Err(_) => out.push(("obs", format!("qd{} keyed error", nq))),
            }
        }
        nq += 1;
    }
    out.push(("orc", if why.is_empty() { "ok".to_string() } else { format!("FAIL {}", why.join(",")) }));
    out
}

// C05 manager stream: a history of add / flush / reg (re-open) / keyed (export every shard under a key into the
// directory) / consolidate steps against a real ShardFileManager, with queries in between; oracle only.
pub fn run_c05m(toks: &[&str]) -> Lines {
    let ops = split_ops(toks);
    let rt = tokio::runtime::Builder::new_multi_thread().worker_threads(2).enable_all().build().unwrap();
    let dir = tempfile::tempdir().unwrap();
    let mut out: Lines = vec![];
    let mut why: Vec<String> = vec![];
    rt.block_on(async {
        let path = dir.path().to_path_buf();
        let mut mgr = ShardFileManager::new_in_session_directory(&path).await.unwrap();
        let mut all: Vec<MDBCASInfo> = vec![];
        let mut keys: Vec<MerkleHash> = vec![MerkleHash::default()];
        let mut nq = 0;
        for op in &ops {
            match op[0] {
                "C" => {
                    let c = parse_cas(op);
                    all.push(c.clone());
                    mgr.add_cas_block(c).await.unwrap();
                },
                "F" => {
                    mgr.add_file_reconstruction_info(parse_file(op)).await.unwrap();
                },
                "flush" => {
                    mgr.flush().await.unwrap();
                },
                "keyed" => {
                    // export every on-disk shard under the key into the same directory, then register them
                    let key = h32(op[1]);
                    keys.push(key);
                    mgr.flush().await.unwrap();
                    let shards = mgr.registered_shard_list().await.unwrap();
                    let mut new_paths = vec![];
                    for s in shards {
                        // shards already exported under a key, and shards whose file an earlier `keyed .. drop` step of
                        // this case removed (the manager still lists them), are not exported again
                        if s.shard.metadata.chunk_hash_hmac_key != MerkleHash::default() || !s.path.exists() {
                            continue;
                        }
                        let flags: u32 = op[2].parse().unwrap();
                        let ks = s
                            .export_as_keyed_shard(&path, key, std::time::Duration::from_secs(3600), flags & 1 != 0, flags & 2 != 0, flags & 4 != 0)
                            .unwrap();
                        new_paths.push(ks.path.clone());
                        if op.len() > 3 && op[3] == "drop" {
                            std::fs::remove_file(&s.path).unwrap();
                        }
                    }
                    mgr.register_shards_by_path(&new_paths).await.unwrap();
                },
                "reopen" => {
                    mgr.flush().await.unwrap();
                    drop(mgr);
                    mgr = ShardFileManager::new_in_session_directory(&path).await.unwrap();
                    mgr.refresh_shard_dir().await.unwrap();
                },
                "consolidate" => {
                    mgr.flush().await.unwrap();
                    let t: u64 = op[1].parse().unwrap();
                    let _ = mdb_shard::session_directory::consolidate_shards_in_directory(&path, t).unwrap();
                    drop(mgr);
                    mgr = ShardFileManager::new_in_session_directory(&path).await.unwrap();
                    mgr.refresh_shard_dir().await.unwrap();
                },
                "qd" => {
                    let qs = hashes(op[1]);
                    match mgr.chunk_hash_dedup_query(&qs).await {
                        Ok(ans) => {
                            out.push(("obs", format!("qd{} {}", nq, if ans.is_some() { "hit" } else { "miss" })));
                            // truthful under at least one of the keys in play (the answer does not say which collection)
                            let mut okk = false;
                            let mut last = String::new();
                            for k in &keys {
                                match truthful(&keyed_cass(&all, k), k, &qs, &ans) {
                                    Ok(()) => {
                                        okk = true;
                                        break;
                                    },
                                    Err(e) => last = e,
                                }
                            }
                            if !okk {
                                why.push(format!("qd{}-untruthful:{}", nq, last));
                            }
                        },
                        Err(e) => out.push(("obs", format!("qd{} error {:?}", nq, e))),
                    }
                    nq += 1;
                },
                _ => {},
            }
        }
    });
    out.push(("orc", if why.is_empty() { "ok".to_string() } else { format!("FAIL {}", why.join(",")) }));
    out
}

// ---------------------------------------------------------------------------------------------
// C10: union / difference (on-disk walks and in-memory) and directory consolidation.
use mdb_shard::set_operations::{shard_set_difference, shard_set_union};

fn split_ab<'a>(ops: &[Vec<&'a str>]) -> (Vec<Vec<&'a str>>, Vec<Vec<&'a str>>) {
    let mut a = vec![];
    let mut b = vec![];
    let mut second = false;
    for op in ops {
        if op[0] == "==" {
            second = true;
        } else if second {
            b.push(op.clone());
        } else {
            a.push(op.clone());
        }
    }
    (a, b)
}

fn richer(a: &MDBFileInfo, b: &MDBFileInfo, got: &MDBFileInfo) -> bool {
    // the union's record for a file in both inputs: same key and segments, and it carries verification /
    // metadata whenever either input does (taken from an input that has them)
    let hv = a.contains_verification() || b.contains_verification();
    let he = a.contains_metadata_ext() || b.contains_metadata_ext();
    got.metadata.file_hash == a.metadata.file_hash
        && (got.segments == a.segments || got.segments == b.segments)
        && got.contains_verification() == hv
        && got.contains_metadata_ext() == he
        && (!hv || got.verification == a.verification || got.verification == b.verification)
        && (!hv || got.verification.len() == got.segments.len())
        && (!he || got.metadata_ext == a.metadata_ext || got.metadata_ext == b.metadata_ext)
}

fn check_output(tag: &str, bytes: &[u8], want_files: &[MDBFileInfo], want_cas: &[MDBCASInfo], why: &mut Vec<String>) {
    let mut rd = Cursor::new(bytes);
    let info = match MDBShardInfo::load_from_reader(&mut rd) {
        Ok(i) => i,
        Err(_) => {
            why.push(format!("{}-unloadable", tag));
            return;
        },
    };
    let files = info.read_all_file_info_sections(&mut rd).unwrap_or_default();
    let cass = info.read_all_cas_blocks_full(&mut rd).unwrap_or_default();
    if files.len() != want_files.len() || files.iter().zip(want_files).any(|(g, w)| g.metadata.file_hash != w.metadata.file_hash) {
        why.push(format!("{}-file-keys", tag));
    }
    if cass != want_cas {
        why.push(format!("{}-cas-records", tag));
    }
    // every record retrievable through the lookup tables, totals exact
    for f in &files {
        match info.get_file_reconstruction_info(&mut rd, &f.metadata.file_hash) {
            Ok(Some(g)) if &g == f => {},
            Err(_) if files.iter().filter(|x| x.metadata.file_hash[0] == f.metadata.file_hash[0]).count() >= 8 => {},
            _ => why.push(format!("{}-lookup-file", tag)),
        }
    }
    let nchunks: usize = cass.iter().map(|c| c.chunks.len()).sum();
    if info.num_file_entries() != files.len() || info.num_cas_entries() != cass.len() || info.total_num_chunks() != nchunks {
        why.push(format!("{}-table-counts", tag));
    }
    let stored: u64 = cass.iter().map(|c| c.metadata.num_bytes_in_cas as u64).sum();
    let mat: u64 = files.iter().map(|f| f.segments.iter().map(|s| s.unpacked_segment_bytes as u64).sum::<u64>()).sum();
    if info.stored_bytes() != stored || info.materialized_bytes() != mat || info.num_bytes() != bytes.len() as u64 {
        why.push(format!("{}-totals", tag));
    }
    let hashes = info.read_all_truncated_hashes(&mut rd).unwrap_or_default();
    if !hashes.windows(2).all(|w| w[0].0 <= w[1].0) {
        why.push(format!("{}-chunk-table-unsorted", tag));
    }
}

pub fn run_c10(toks: &[&str]) -> Lines {
    let ops = split_ops(toks);
    let (oa, ob) = split_ab(&ops);
    let a = build(&oa);
    let b = build(&ob);
    let (ba, ia) = serialize(&a.mem);
    let (bb, ib) = serialize(&b.mem);
    let mut out: Lines = vec![];
    let mut why: Vec<String> = vec![];
    // expected key sets
    let mut want_cas_u: Vec<MDBCASInfo> = a.cass.clone();
    for c in &b.cass {
        if !a.cass.iter().any(|x| x.metadata.cas_hash == c.metadata.cas_hash) {
            want_cas_u.push(c.clone());
        }
    }
    want_cas_u.sort_by_key(|c| c.metadata.cas_hash);
    let mut want_files_u: Vec<MDBFileInfo> = a.files.clone();
    for f in &b.files {
        if !a.files.iter().any(|x| x.metadata.file_hash == f.metadata.file_hash) {
            want_files_u.push(f.clone());
        }
    }
    want_files_u.sort_by_key(|f| f.metadata.file_hash);
    let want_cas_d: Vec<MDBCASInfo> = b.cass.iter().filter(|c| !a.cass.iter().any(|x| x.metadata.cas_hash == c.metadata.cas_hash)).cloned().collect();
    let want_files_d: Vec<MDBFileInfo> =
        b.files.iter().filter(|f| !a.files.iter().any(|x| x.metadata.file_hash == f.metadata.file_hash)).cloned().collect();

    // the same file in both inputs under two different segment lists (the same bytes deduplicated differently): known finding K2
    // (DESIGN.md 12.3) -- the code assumes equal lists (a debug assertion says so) and, without it, grafts the verification
    // entries of one list onto the segments of the other.  What such a case shows is reported under this marker; anything
    // else it shows is reported without it.
    let reseg = a.files.iter().any(|x| b.files.iter().any(|y| x.metadata.file_hash == y.metadata.file_hash && x.segments.len() != y.segments.len()));
    const K2: &str = "[same-file-other-segmentation: union of two records of one file whose segment lists differ]";
    let mut k2: Vec<String> = vec![];
    let mut union_bytes: Option<Vec<u8>> = None;
    let assumed = |p: &Box<dyn std::any::Any + Send>| {
        let m = p.downcast_ref::<String>().cloned().or_else(|| p.downcast_ref::<&str>().map(|x| x.to_string())).unwrap_or_default();
        m.contains("num entries for same hash don't match")
    };
    // on-disk union
    let du = std::panic::catch_unwind(std::panic::AssertUnwindSafe(|| {
        let mut u = vec![];
        let iu = shard_set_union(&ia, &mut Cursor::new(&ba), &ib, &mut Cursor::new(&bb), &mut u).unwrap();
        (u, iu)
    }));
    match du {
        Err(p) => {
            if reseg && assumed(&p) {
                k2.push("disk-union: debug assertion 'num entries for same hash don't match'".into());
            } else {
                std::panic::resume_unwind(p);
            }
        },
        Ok((u, iu)) => {
    union_bytes = Some(u.clone());
    out.push(("obs", format!("disk-union {}", describe_bytes(&u, &iu))));
    check_output("disk-union", &u, &want_files_u, &want_cas_u, &mut why);
    {
        let mut rd = Cursor::new(&u);
        let files = iu.read_all_file_info_sections(&mut rd).unwrap_or_default();
        for g in &files {
            let fa = a.files.iter().find(|x| x.metadata.file_hash == g.metadata.file_hash);
            let fb = b.files.iter().find(|x| x.metadata.file_hash == g.metadata.file_hash);
            let ok = match (fa, fb) {
                (Some(x), Some(y)) => richer(x, y, g),
                (Some(x), None) => x == g,
                (None, Some(y)) => y == g,
                _ => false,
            };
            if !ok {
                why.push("disk-union-file-record".into());
            }
        }
    }
        },
    }
    // on-disk difference
    let mut d = vec![];
    let id = shard_set_difference(&ia, &mut Cursor::new(&ba), &ib, &mut Cursor::new(&bb), &mut d).unwrap();
    out.push(("obs", format!("disk-diff {}", describe_bytes(&d, &id))));
    check_output("disk-diff", &d, &want_files_d, &want_cas_d, &mut why);
    {
        let mut rd = Cursor::new(&d);
        if id.read_all_file_info_sections(&mut rd).unwrap_or_default() != want_files_d {
            why.push("disk-diff-file-records".into());
        }
    }
    // in-memory
    match std::panic::catch_unwind(std::panic::AssertUnwindSafe(|| a.mem.union(&b.mem).unwrap())) {
        Err(p) => {
            if reseg && assumed(&p) {
                k2.push("mem-union: debug assertion 'num entries for same hash don't match'".into());
            } else {
                std::panic::resume_unwind(p);
            }
        },
        Ok(mu) => {
            let (bmu, imu) = serialize(&mu);
            out.push(("obs", format!("mem-union {} acct={}", describe_bytes(&bmu, &imu), mu.shard_file_size())));
            check_output("mem-union", &bmu, &want_files_u, &want_cas_u, &mut why);
            if mu.shard_file_size() != bmu.len() as u64 {
                why.push(format!("mem-union-size-accounting:{}!={}", mu.shard_file_size(), bmu.len()));
            }
        },
    }
    let md = a.mem.difference(&b.mem).unwrap();
    let (bmd, imd) = serialize(&md);
    out.push(("obs", format!("mem-diff {} acct={}", describe_bytes(&bmd, &imd), md.shard_file_size())));
    check_output("mem-diff", &bmd, &want_files_d, &want_cas_d, &mut why);
    if md.shard_file_size() != bmd.len() as u64 {
        why.push(format!("mem-diff-size-accounting:{}!={}", md.shard_file_size(), bmd.len()));
    }
    // the file-level operations (shard_file_union / shard_file_difference: temporary file, hash of what was written, rename):
    // without a fault the output file is the reader-level result and its returned hash is its content hash; with the output
    // cut short inside its last block (a file-size limit: the failure a full disk or a quota produces on the final write)
    // the call fails and leaves nothing under the output name -- or succeeds with the complete file
    if let (Some(u), false) = (&union_bytes, reseg) {
        let dir = tempfile::tempdir().unwrap();
        let (p1, p2) = (dir.path().join("a.mdb"), dir.path().join("b.mdb"));
        std::fs::write(&p1, &ba).unwrap();
        std::fs::write(&p2, &bb).unwrap();
        let mut judge = |what: String, res: mdb_shard::error::Result<(MerkleHash, MDBShardInfo)>, outp: &std::path::Path, want: &[u8]| match res {
            Err(_) => {
                if outp.exists() {
                    why.push(format!("{}-failed-but-left-an-output-file", what));
                }
            },
            Ok((h, _)) => match std::fs::read(outp) {
                Ok(got) => {
                    if got != want {
                        why.push(format!("{}-reported-success-output-{}-of-{}-bytes", what, got.len(), want.len()));
                    } else if merklehash::compute_data_hash(&got) != h {
                        why.push(format!("{}-returned-hash-is-not-the-content-hash", what));
                    }
                },
                Err(_) => why.push(format!("{}-reported-success-without-output", what)),
            },
        };
        let o = dir.path().join("u.mdb");
        judge("file-union".into(), mdb_shard::set_operations::shard_file_union(&p1, &p2, &o), &o, u);
        let o = dir.path().join("d.mdb");
        judge("file-diff".into(), mdb_shard::set_operations::shard_file_difference(&p1, &p2, &o), &o, &d);
        for cut in [1u64, 57, 300] {
            if (u.len() as u64) > cut {
                let o = dir.path().join(format!("u{}.mdb", cut));
                let r = crate::fslimit::with_file_size_limit(u.len() as u64 - cut, || mdb_shard::set_operations::shard_file_union(&p1, &p2, &o));
                judge(format!("file-union-cut-{}", cut), r, &o, u);
            }
            if (d.len() as u64) > cut {
                let o = dir.path().join(format!("d{}.mdb", cut));
                let r = crate::fslimit::with_file_size_limit(d.len() as u64 - cut, || mdb_shard::set_operations::shard_file_difference(&p1, &p2, &o));
                judge(format!("file-diff-cut-{}", cut), r, &o, &d);
            }
        }
    }
    if reseg {
        // what the unions of such a pair get wrong belongs to K2; the differences are judged as always
        let (un, rest): (Vec<String>, Vec<String>) = why.into_iter().partition(|w| w.starts_with("disk-union") || w.starts_with("mem-union"));
        k2.extend(un);
        why = rest;
    }
    if !k2.is_empty() {
        out.push(("orc", format!("FAIL {} {}", K2, k2.join(","))));
    }
    if !why.is_empty() || k2.is_empty() {
        out.push(("orc", if why.is_empty() { "ok".to_string() } else { format!("FAIL {}", why.join(",")) }));
    }
    out
}

// consolidation: shards separated by `==` are written to a directory in order, then consolidated with the threshold
// given by a `target <n>` op; oracle only.
pub fn run_c10c(toks: &[&str]) -> Lines {
    use mdb_shard::MDBShardFile;
    let ops = split_ops(toks);
    let dir = tempfile::tempdir().unwrap();
    let mut groups: Vec<Vec<Vec<&str>>> = vec![vec![]];
    let mut target = 0u64;
    for op in &ops {
        if op[0] == "==" {
            groups.push(vec![]);
        } else if op[0] == "target" {
            target = op[1].parse().unwrap();
        } else {
            groups.last_mut().unwrap().push(op.clone());
        }
    }
    let mut all_files: Vec<MDBFileInfo> = vec![];
    let mut all_cas: Vec<MDBCASInfo> = vec![];
    let mut before: std::collections::HashSet<String> = Default::default();
    for (i, g) in groups.iter().enumerate() {
        // `nolookup`: this shard is written in the streaming form, records and footer without lookup tables (what
        // MDBMinimalShard::serialize produces): a valid shard file whose table counts are zero
        let nolookup = g.iter().any(|op| op[0] == "nolookup");
        let g: Vec<Vec<&str>> = g.iter().filter(|op| op[0] != "nolookup").cloned().collect();
        let b = build(&g);
        if b.mem.is_empty() {
            continue;
        }
        all_files.extend(b.files.iter().cloned());
        all_cas.extend(b.cass.iter().cloned());
        let p = if nolookup {
            let (bytes, _) = serialize(&b.mem);
            let ms = MDBMinimalShard::from_reader(&mut Cursor::new(&bytes), true, true).unwrap();
            let mut nt = vec![];
            ms.serialize(&mut nt).unwrap();
            let p = dir.path().join(format!("{}.mdb", merklehash::compute_data_hash(&nt).hex()));
            std::fs::write(&p, &nt).unwrap();
            p
        } else {
            b.mem.write_to_directory(dir.path()).unwrap()
        };
        before.insert(p.file_name().unwrap().to_string_lossy().to_string());
        // distinct, increasing mtimes so that the grouping order is the write order
        let t = std::time::SystemTime::UNIX_EPOCH + std::time::Duration::from_secs(1_700_000_000 + 10 * i as u64);
        let f = std::fs::File::options().write(true).open(&p).unwrap();
        f.set_modified(t).unwrap();
    }
    let mut out: Lines = vec![];
    let mut why: Vec<String> = vec![];
    let res = mdb_shard::session_directory::consolidate_shards_in_directory(dir.path(), target).unwrap();
    let mut listing: Vec<String> = std::fs::read_dir(dir.path()).unwrap().map(|e| e.unwrap().file_name().to_string_lossy().to_string()).collect();
    listing.sort();
    out.push(("obs", format!("returned={} files-in-dir={} before={}", res.len(), listing.len(), before.len())));
    let mut ret_names: std::collections::HashSet<String> = Default::default();
    for s in &res {
        let name = s.path.file_name().unwrap().to_string_lossy().to_string();
        ret_names.insert(name.clone());
        if !s.path.exists() {
            why.push("returned-path-missing".into());
            continue;
        }
        let content = std::fs::read(&s.path).unwrap();
        let h = merklehash::compute_data_hash(&content);
        if name != format!("{}.mdb", h.hex()) || s.shard_hash != h {
            why.push("returned-name-is-not-content-hash".into());
        }
    }
    for n in &listing {
        if !n.ends_with(".mdb") {
            why.push(format!("leftover-{}", n));
        }
    }
    // every record retrievable before is retrievable from a returned shard
    // (an input that is returned as it was is judged by a scan of its records: a shard written without lookup tables has none
    // to answer with; a shard consolidation wrote must answer through its tables)
    let returned: Vec<(MDBShardInfo, Vec<u8>, bool)> = res
        .iter()
        .filter(|s| s.path.exists())
        .map(|s| {
            let c = std::fs::read(&s.path).unwrap();
            (MDBShardInfo::load_from_reader(&mut Cursor::new(&c)).unwrap(), c, before.contains(&s.path.file_name().unwrap().to_string_lossy().to_string()))
        })
        .collect();
    for f in &all_files {
        let found = returned.iter().any(|(i, c, input)| {
            matches!(i.get_file_reconstruction_info(&mut Cursor::new(c), &f.metadata.file_hash), Ok(Some(_)))
                || (*input && i.read_all_file_info_sections(&mut Cursor::new(c)).unwrap_or_default().iter().any(|x| x.metadata.file_hash == f.metadata.file_hash))
        });
        if !found {
            why.push("file-record-lost".into());
        }
    }
    let ret_cas: std::collections::HashSet<MerkleHash> = returned
        .iter()
        .flat_map(|(i, c, _)| i.read_all_cas_blocks_full(&mut Cursor::new(c)).unwrap_or_default().into_iter().map(|x| x.metadata.cas_hash))
        .collect();
    for c in &all_cas {
        if !ret_cas.contains(&c.metadata.cas_hash) {
            why.push("xorb-record-lost".into());
        }
    }
    // deleted files: a shard that existed before and is gone must not be a returned one (checked above by existence)
    for n in &before {
        if !listing.contains(n) && ret_names.contains(n) {
            why.push("deleted-a-returned-shard".into());
        }
    }
    // nothing but returned shards and untouched inputs remains
    for n in &listing {
        if n.ends_with(".mdb") && !ret_names.contains(n) {
            why.push(format!("unreturned-shard-left-behind-{}", &n[..8]));
        }
    }
    out.push(("orc", if why.is_empty() { "ok".to_string() } else { format!("FAIL {}", why.join(",")) }));
    out
}

// ---------------------------------------------------------------------------------------------
// C18: keyed export.  ops: F.. / C.. build a shard; `exp <key> <flags 0..7> <valid_for secs>` exports it
// (bit0 file info, bit1 cas table, bit2 chunk table); `qd` queries go through a ShardFileManager that has
// only the exported shard registered, and through one that has the original.
fn zero_times(bytes: &[u8], info: &MDBShardInfo) -> Vec<u8> {
    let mut b = bytes.to_vec();
    let fo = info.metadata.footer_offset as usize;
    for i in (fo + 104)..(fo + 120) {
        b[i] = 0;
    }
    b
}

pub fn run_c18(toks: &[&str]) -> Lines {
    let ops = split_ops(toks);
    let b = build(&ops);
    let (bytes, info) = serialize(&b.mem);
    let mut out: Lines = vec![];
    let mut why: Vec<String> = vec![];
    let zero = MerkleHash::default();
    let rt = tokio::runtime::Builder::new_multi_thread().worker_threads(2).enable_all().build().unwrap();
    let mut ne = 0;
    for op in &ops {
        if op[0] != "exp" {
            continue;
        }
        let key = h32(op[1]);
        let flags: u32 = op[2].parse().unwrap();
        let valid: u64 = op[3].parse().unwrap();
        let (fi, ct, kt) = (flags & 1 != 0, flags & 2 != 0, flags & 4 != 0);
        let mut w = vec![];
        let t0 = std::time::SystemTime::now().duration_since(std::time::UNIX_EPOCH).unwrap().as_secs();
        let r = info.export_as_keyed_shard(&mut Cursor::new(&bytes), &mut w, key, std::time::Duration::from_secs(valid), fi, ct, kt);
        let t1 = std::time::SystemTime::now().duration_since(std::time::UNIX_EPOCH).unwrap().as_secs();
        if r.is_err() {
            out.push(("obs", format!("exp{} export-error", ne)));
            why.push(format!("exp{}-export-of-a-valid-shard-failed", ne));
            ne += 1;
            continue;
        }
        let ki = MDBShardInfo::load_from_reader(&mut Cursor::new(&w)).unwrap();
        out.push(("obs", format!("exp{} {}", ne, describe_bytes(&zero_times(&w, &ki), &ki))));
        // footer: key, timestamps
        if ki.metadata.chunk_hash_hmac_key != key {
            why.push(format!("exp{}-footer-key", ne));
        }
        let c = ki.metadata.shard_creation_timestamp;
        if c < t0 || c > t1 || ki.metadata.shard_key_expiry != c + valid {
            why.push(format!("exp{}-timestamps", ne));
        }
        // characterisation of the exported records
        let mut rd = Cursor::new(&w);
        let files = ki.read_all_file_info_sections(&mut rd).unwrap_or_default();
        let cass = ki.read_all_cas_blocks_full(&mut rd).unwrap_or_default();
        if fi && files != b.files {
            why.push(format!("exp{}-files-not-kept", ne));
        }
        if !fi && !files.is_empty() {
            why.push(format!("exp{}-files-not-dropped", ne));
        }
        if cass.len() != b.cass.len() {
            why.push(format!("exp{}-xorb-count", ne));
        } else {
            for (g, o) in cass.iter().zip(&b.cass) {
                if g.metadata != o.metadata || g.chunks.len() != o.chunks.len() {
                    why.push(format!("exp{}-xorb-header", ne));
                    continue;
                }
                for (gc, oc) in g.chunks.iter().zip(&o.chunks) {
                    let want = if key == zero { oc.chunk_hash } else { oc.chunk_hash.hmac(key) };
                    if gc.chunk_hash != want
                        || gc.unpacked_segment_bytes != oc.unpacked_segment_bytes
                        || gc.chunk_byte_range_start != oc.chunk_byte_range_start
                    {
                        why.push(format!("exp{}-chunk-not-keyed", ne));
                    }
                }
            }
        }
        // tables present iff requested
        let nchunks: usize = b.cass.iter().map(|c| c.chunks.len()).sum();
        if ki.num_file_entries() != if fi { b.files.len() } else { 0 }
            || ki.num_cas_entries() != if ct { b.cass.len() } else { 0 }
            || ki.total_num_chunks() != if kt { nchunks } else { 0 }
        {
            why.push(format!("exp{}-table-presence", ne));
        }
        // no raw chunk hash leaks into a keyed export (chunk lists and chunk table)
        if key != zero {
            let a = ki.metadata.cas_info_offset as usize;
            let e = ki.metadata.footer_offset as usize;
            let region = &w[a..e];
            for c in &b.cass {
                for ch in &c.chunks {
                    let raw = ch.chunk_hash.as_bytes();
                    if region.chunks(48).any(|rec| rec.len() == 48 && &rec[..32] == raw && rec[..32] != c.metadata.cas_hash.as_bytes()[..]) {
                        // a 48-byte record starting with the raw hash that is not a xorb header
                        if !b.cass.iter().any(|x| x.metadata.cas_hash == ch.chunk_hash) {
                            why.push(format!("exp{}-raw-chunk-hash-leaked", ne));
                        }
                    }
                }
            }
        }
        // dedup equivalence through the manager: original vs exported
        let dir_o = tempfile::tempdir().unwrap();
        let dir_k = tempfile::tempdir().unwrap();
        let name_o = format!("{}.mdb", merklehash::compute_data_hash(&bytes).hex());
        let name_k = format!("{}.mdb", merklehash::compute_data_hash(&w).hex());
        std::fs::write(dir_o.path().join(&name_o), &bytes).unwrap();
        std::fs::write(dir_k.path().join(&name_k), &w).unwrap();
        let mut nq = 0;
        rt.block_on(async {
            let mo = ShardFileManager::new_in_session_directory(dir_o.path()).await.unwrap();
            mo.refresh_shard_dir().await.unwrap();
            let mk = ShardFileManager::new_in_session_directory(dir_k.path()).await.unwrap();
            mk.refresh_shard_dir().await.unwrap();
            let loaded = mk.registered_shard_list().await.unwrap().len() == 1;
            if valid >= 60 && !loaded {
                why.push(format!("exp{}-exported-shard-not-loaded", ne));
            }
            for q in &ops {
                if q[0] != "qd" || !loaded {
                    continue;
                }
                let qs = hashes(q[1]);
                let ao = mo.chunk_hash_dedup_query(&qs).await.unwrap();
                let ak = mk.chunk_hash_dedup_query(&qs).await.unwrap();
                out.push(("obs", format!("exp{} qd{} orig={} keyed={}", ne, nq, dump_seg(&ao).split(' ').next().unwrap(), dump_seg(&ak).split(' ').next().unwrap())));
                if let Err(e) = truthful(&b.cass, &zero, &qs, &ak) {
                    why.push(format!("exp{}-qd{}-keyed-untruthful:{}", ne, nq, e));
                }
                // same number of matched chunks unless several candidates exist (then both must still be truthful)
                let no = ao.as_ref().map(|x| x.0).unwrap_or(0);
                let nk = ak.as_ref().map(|x| x.0).unwrap_or(0);
                let first_dups = qs.first().map(|q0| b.cass.iter().flat_map(|c| c.chunks.iter()).filter(|c| c.chunk_hash == *q0).count()).unwrap_or(0);
                let prefix_sharers = qs.first().map(|q0| b.cass.iter().flat_map(|c| c.chunks.iter()).filter(|c| c.chunk_hash[0] == q0[0]).count()).unwrap_or(0);
                if no != nk && first_dups <= 1 && prefix_sharers <= 1 {
                    why.push(format!("exp{}-qd{}-answers-differ:{}vs{}", ne, nq, no, nk));
                }
                nq += 1;
            }
        });
        // export_with_expiration of this (possibly keyed) export: same content and key, only the expiry changes -- byte for byte
        // before the footer, field for field in it -- and a manager holding it answers exactly like the one holding the export
        {
            let dir_x = tempfile::tempdir().unwrap();
            let sf = mdb_shard::MDBShardFile::load_from_file(&dir_k.path().join(&name_k)).unwrap();
            let x0 = std::time::SystemTime::now().duration_since(std::time::UNIX_EPOCH).unwrap().as_secs();
            match sf.export_with_expiration(dir_x.path(), std::time::Duration::from_secs(7200)) {
                Err(e) => why.push(format!("exp{}-export-with-expiration-failed:{:?}", ne, e)),
                Ok(xf) => {
                    let x1 = std::time::SystemTime::now().duration_since(std::time::UNIX_EPOCH).unwrap().as_secs();
                    let x = std::fs::read(&xf.path).unwrap();
                    let fo = ki.metadata.footer_offset as usize;
                    if x.len() != w.len() || x[..fo.min(x.len())] != w[..fo] {
                        why.push(format!("exp{}-export-with-expiration-changed-the-content", ne));
                    }
                    match MDBShardInfo::load_from_reader(&mut Cursor::new(&x)) {
                        Err(_) => why.push(format!("exp{}-export-with-expiration-unreadable", ne)),
                        Ok(xi) => {
                            let mut want = ki.metadata.clone();
                            want.shard_key_expiry = xi.metadata.shard_key_expiry;
                            if xi.metadata != want {
                                why.push(format!("exp{}-export-with-expiration-changed-the-footer", ne));
                            }
                            if xi.metadata.shard_key_expiry < x0 + 7200 || xi.metadata.shard_key_expiry > x1 + 7200 {
                                why.push(format!("exp{}-export-with-expiration-expiry", ne));
                            }
                        },
                    }
                    match MDBShardInfo::load_from_reader(&mut Cursor::new(&x)) {
                        Ok(xi) => out.push(("obs", format!("rex{} {}", ne, describe_bytes(&zero_times(&x, &xi), &xi)))),
                        Err(_) => out.push(("obs", format!("rex{} unreadable", ne))),
                    }
                    rt.block_on(async {
                        let mk = ShardFileManager::new_in_session_directory(dir_k.path()).await.unwrap();
                        mk.refresh_shard_dir().await.unwrap();
                        let mx = ShardFileManager::new_in_session_directory(dir_x.path()).await.unwrap();
                        mx.refresh_shard_dir().await.unwrap();
                        if mx.registered_shard_list().await.unwrap().len() != 1 {
                            why.push(format!("exp{}-export-with-expiration-not-loaded", ne));
                        } else if mk.registered_shard_list().await.unwrap().len() == 1 {
                            for (qi, q) in ops.iter().filter(|q| q[0] == "qd").enumerate() {
                                let qs = hashes(q[1]);
                                let ak = mk.chunk_hash_dedup_query(&qs).await.unwrap();
                                let ax = mx.chunk_hash_dedup_query(&qs).await.unwrap();
                                if dump_seg(&ak) != dump_seg(&ax) {
                                    why.push(format!("exp{}-qd{}-answer-changes-after-export-with-expiration:{}vs{}", ne, qi, dump_seg(&ak), dump_seg(&ax)));
                                }
                            }
                        }
                    });
                },
            }
        }
        ne += 1;
    }
    // expiry arithmetic: `expire <created> <valid_for> <now-offset>` writes a keyed shard whose footer times are set
    // explicitly and checks load_all_valid / clean_expired_shards against the stated rule
    for op in &ops {
        if op[0] != "expire" {
            continue;
        }
        let expiry: u64 = op[1].parse().unwrap(); // absolute, relative to now: now + x - 100000
        let grace: u64 = op[2].parse().unwrap();
        let now = std::time::SystemTime::now().duration_since(std::time::UNIX_EPOCH).unwrap().as_secs();
        let dir = tempfile::tempdir().unwrap();
        let mut w = vec![];
        info.export_as_keyed_shard(&mut Cursor::new(&bytes), &mut w, h32(op[3]), std::time::Duration::from_secs(0), true, true, true).unwrap();
        let ki = MDBShardInfo::load_from_reader(&mut Cursor::new(&w)).unwrap();
        let mut footer = ki.metadata.clone();
        let abs_expiry = if expiry == u64::MAX { u64::MAX } else { (now + expiry).saturating_sub(100000) };
        footer.shard_key_expiry = abs_expiry;
        // `expire .. <key> c<offset>`: the creation time the footer records, relative to now as the expiry is (a shard written by a
        // machine whose clock is ahead carries a creation time in the local future; the load rule looks at the expiry only)
        if let Some(c) = op.get(4).and_then(|t| t.strip_prefix('c')) {
            footer.shard_creation_timestamp = (now + c.parse::<u64>().unwrap()).saturating_sub(100000);
        }
        let mut fb = vec![];
        footer.serialize(&mut fb).unwrap();
        let fo = ki.metadata.footer_offset as usize;
        w.truncate(fo);
        w.extend_from_slice(&fb);
        let name = format!("{}.mdb", merklehash::compute_data_hash(&w).hex());
        let p = dir.path().join(&name);
        std::fs::write(&p, &w).unwrap();
        let loaded = mdb_shard::MDBShardFile::load_all_valid(dir.path()).unwrap().len();
        mdb_shard::MDBShardFile::clean_expired_shards(dir.path(), grace).unwrap();
        let still = p.exists();
        let now2 = std::time::SystemTime::now().duration_since(std::time::UNIX_EPOCH).unwrap().as_secs();
        out.push(("obs", format!("expire loaded={} deleted={}", loaded, !still)));
        // rule: loaded iff now <= expiry ; deleted iff expiry + grace <= now (saturating); allow the clock to tick between now and now2
        let must_load = now2 <= abs_expiry;
        let must_not_load = now > abs_expiry;
        if (must_load && loaded != 1) || (must_not_load && loaded != 0) {
            why.push(format!("expire-load-rule:expiry={} now={} loaded={}", abs_expiry, now, loaded));
        }
        let must_delete = abs_expiry.saturating_add(grace) <= now;
        let must_keep = abs_expiry.saturating_add(grace) > now2;
        if (must_delete && still) || (must_keep && !still) {
            why.push(format!("expire-delete-rule:expiry={} grace={} now={} still={}", abs_expiry, grace, now, still));
        }
    }
    out.push(("orc", if why.is_empty() { "ok".to_string() } else { format!("FAIL {}", why.join(",")) }));
    out
}

// C18 mixtures: groups (separated by `==`) each become one shard exported under its own key
// (`key <hex> <flags>` inside the group); all exports live in one directory that a manager opens in one
// batch.  Queries must be answered as by a manager over the original unkeyed shards.
pub fn run_c18m(toks: &[&str]) -> Lines {
    let ops = split_ops(toks);
    let mut groups: Vec<Vec<Vec<&str>>> = vec![vec![]];
    for op in &ops {
        if op[0] == "==" {
            groups.push(vec![]);
        } else {
            groups.last_mut().unwrap().push(op.clone());
        }
    }
    let dir_o = tempfile::tempdir().unwrap();
    let dir_k = tempfile::tempdir().unwrap();
    let mut all: Vec<MDBCASInfo> = vec![];
    let mut nshards = 0;
    for g in &groups {
        let b = build(g);
        if b.mem.is_empty() {
            continue;
        }
        all.extend(b.cass.iter().cloned());
        let (bytes, info) = serialize(&b.mem);
        let kop = g.iter().find(|o| o[0] == "key");
        let (key, flags): (MerkleHash, u32) = match kop {
            Some(o) => (h32(o[1]), o[2].parse().unwrap()),
            None => (MerkleHash::default(), 7),
        };
        let mut w = vec![];
        info.export_as_keyed_shard(&mut Cursor::new(&bytes), &mut w, key, std::time::Duration::from_secs(3600), flags & 1 != 0, flags & 2 != 0, flags & 4 != 0)
            .unwrap();
        std::fs::write(dir_o.path().join(format!("{}.mdb", merklehash::compute_data_hash(&bytes).hex())), &bytes).unwrap();
        std::fs::write(dir_k.path().join(format!("{}.mdb", merklehash::compute_data_hash(&w).hex())), &w).unwrap();
        nshards += 1;
    }
    let mut out: Lines = vec![];
    let mut why: Vec<String> = vec![];
    let rt = tokio::runtime::Builder::new_multi_thread().worker_threads(2).enable_all().build().unwrap();
    let zero = MerkleHash::default();
    rt.block_on(async {
        let mo = ShardFileManager::new_in_session_directory(dir_o.path()).await.unwrap();
        mo.refresh_shard_dir().await.unwrap();
        let mk = ShardFileManager::new_in_session_directory(dir_k.path()).await.unwrap();
        mk.refresh_shard_dir().await.unwrap();
        if mk.registered_shard_list().await.unwrap().len() != nshards {
            why.push("not-all-exports-registered".into());
        }
        let mut nq = 0;
        for q in &ops {
            if q[0] == "qdk" {
                // a chunk of a keyed shard whose 64-bit prefix also occurs, for another chunk, in the unkeyed shard of the
                // directory: the answer must be the hit the shard gives on its own
                let qs = hashes(q[1]);
                let ak = mk.chunk_hash_dedup_query(&qs).await.unwrap();
                let nk = ak.as_ref().map(|x| x.0).unwrap_or(0);
                out.push(("obs", format!("qdk{} keyed={}", nq, nk)));
                if let Err(e) = truthful(&all, &zero, &qs, &ak) {
                    why.push(format!("qdk{}-keyed-untruthful:{}", nq, e));
                }
                if nk == 0 {
                    why.push(format!("qdk{}-chunk-of-a-keyed-shard-not-found-behind-a-prefix-collision-in-the-unkeyed-shard", nq));
                }
                nq += 1;
                continue;
            }
            if q[0] != "qd" {
                continue;
            }
            let qs = hashes(q[1]);
            let ao = mo.chunk_hash_dedup_query(&qs).await.unwrap();
            let ak = mk.chunk_hash_dedup_query(&qs).await.unwrap();
            let no = ao.as_ref().map(|x| x.0).unwrap_or(0);
            let nk = ak.as_ref().map(|x| x.0).unwrap_or(0);
            out.push(("obs", format!("qd{} orig={} keyed={}", nq, no, nk)));
            if let Err(e) = truthful(&all, &zero, &qs, &ak) {
                why.push(format!("qd{}-keyed-untruthful:{}", nq, e));
            }
            let first_dups = qs.first().map(|q0| all.iter().flat_map(|c| c.chunks.iter()).filter(|c| c.chunk_hash == *q0).count()).unwrap_or(0);
            if no != nk && first_dups <= 1 {
                why.push(format!("qd{}-answers-differ:{}vs{}", nq, no, nk));
            }
            nq += 1;
        }
    });
    out.push(("orc", if why.is_empty() { "ok".to_string() } else { format!("FAIL {}", why.join(",")) }));
    out
}

// stream mgr: the shard manager.  `cap N | tgt T | C .. | key K f | == | C .. | == | R 0 | qd a,b | A <block> | FL | qd ..`:
// every group with C ops is a shard file (serialized by the crate, exported under a key if a `key` op is present; flag bit 4 of the
// export drops the chunk table); `R i` registers shard i (one call per shard, so the order is the script's), `A` adds a block to
// the in-memory shard through the manager (which flushes by itself when the size target is reached), `FL` flushes, `qd` asks the
// manager.  The answers are compared with the model; every answer is judged for truthfulness, and -- when the cap was never
// reached -- a query for a chunk the manager was told about, whose first 64 bits are unambiguous under its key, must be answered.
// `Cbig <xorb hash> <n> <seed>` stands for a block of n chunks of 7 bytes each with hashes derived from the seed (a xorb far
// beyond this client's own limit of chunks per xorb, as another client may have written it); `Abig ..` adds such a block through
// the manager; `qbig <seed> <from> <len>` asks for len of its chunks starting at chunk <from>
fn big_chunk_hash(seed: u64, i: u64) -> String {
    let mut h = [0u8; 32];
    for w in 0..4u64 {
        let mut z = seed.wrapping_mul(0x9E3779B97F4A7C15).wrapping_add(i.wrapping_mul(4).wrapping_add(w)).wrapping_add(0x632BE59BD9B4E019);
        z = (z ^ (z >> 30)).wrapping_mul(0xBF58476D1CE4E5B9);
        z = (z ^ (z >> 27)).wrapping_mul(0x94D049BB133111EB);
        z ^= z >> 31;
        h[(w as usize) * 8..(w as usize) * 8 + 8].copy_from_slice(&z.to_le_bytes());
    }
    h.iter().map(|b| format!("{:02x}", b)).collect()
}
fn expand_big(toks: &[&str]) -> String {
    let mut out: Vec<String> = vec![];
    let mut i = 0;
    while i < toks.len() {
        match toks[i] {
            "Cbig" | "Abig" => {
                let n: u64 = toks[i + 2].parse().unwrap();
                let seed: u64 = toks[i + 3].parse().unwrap();
                let chunks: Vec<String> = (0..n).map(|k| format!("{}:7:{}:0", big_chunk_hash(seed, k), (k * 7) & 0xFFFFFFFF)).collect();
                out.push(format!("{} {} 0 {} {} {}", if toks[i] == "Cbig" { "C" } else { "A" }, toks[i + 1], (n * 7) & 0xFFFFFFFF, (n * 7) & 0xFFFFFFFF, chunks.join(",")));
                i += 4;
            },
            "qbig" => {
                let seed: u64 = toks[i + 1].parse().unwrap();
                let from: u64 = toks[i + 2].parse().unwrap();
                let len: u64 = toks[i + 3].parse().unwrap();
                out.push(format!("qd {}", (from..from + len).map(|k| big_chunk_hash(seed, k)).collect::<Vec<_>>().join(",")));
                i += 4;
            },
            t => {
                out.push(t.to_string());
                i += 1;
            },
        }
    }
    out.join(" ")
}

pub fn run_mgr(toks: &[&str]) -> Lines {
    let expanded = expand_big(toks);
    let toks: Vec<&str> = expanded.split(' ').filter(|t| !t.is_empty()).collect();
    let toks = &toks[..];
    let ops = split_ops(toks);
    let mut groups: Vec<Vec<Vec<&str>>> = vec![vec![]];
    for op in &ops {
        if op[0] == "==" {
            groups.push(vec![]);
        } else {
            groups.last_mut().unwrap().push(op.clone());
        }
    }
    let dir = tempfile::tempdir().unwrap();
    let mut out: Lines = vec![];
    let mut why: Vec<String> = vec![];
    // (path, key, stored blocks)
    let mut shards: Vec<(std::path::PathBuf, MerkleHash, Vec<MDBCASInfo>)> = vec![];
    let mut files: Vec<Vec<u8>> = vec![];
    let mut mtimes: Vec<Option<u64>> = vec![];
    for g in &groups {
        if !g.iter().any(|o| o[0] == "C") {
            continue;
        }
        let b = build(g);
        let (bytes, info) = serialize(&b.mem);
        let (w, key, stored) = match g.iter().find(|o| o[0] == "key") {
            Some(o) => {
                let key = h32(o[1]);
                let flags: u32 = o[2].parse().unwrap();
                let mut w = vec![];
                info.export_as_keyed_shard(&mut Cursor::new(&bytes), &mut w, key, std::time::Duration::from_secs(3600), flags & 1 != 0, flags & 2 != 0, flags & 4 != 0).unwrap();
                (w, key, keyed_cass(&b.cass, &key))
            },
            None => (bytes, MerkleHash::default(), b.cass.clone()),
        };
        let path = dir.path().join(format!("{}.mdb", merklehash::compute_data_hash(&w).hex()));
        files.push(w);
        shards.push((path, key, stored));
        mtimes.push(g.iter().find(|o| o[0] == "mt").map(|o| o[1].parse::<u64>().unwrap()));
    }
    let cap = *mdb_shard::constants::CHUNK_INDEX_TABLE_MAX_SIZE;
    out.push(("obs", format!("cap={} tgt={}", cap, *mdb_shard::constants::MDB_SHARD_MIN_TARGET_SIZE)));
    let rt = tokio::runtime::Builder::new_current_thread().enable_all().build().unwrap();
    rt.block_on(async {
        // the manager is opened on the still empty directory; the files appear afterwards and are registered one by one
        let mgr = ShardFileManager::new_in_session_directory(dir.path()).await.unwrap();
        for (i, w) in files.iter().enumerate() {
            std::fs::write(&shards[i].0, w).unwrap();
            // `mt <secs>` in the shard's group: its modification time (decides the order within one register_shards call)
            if let Some(mt) = mtimes[i] {
                let f = std::fs::File::options().write(true).open(&shards[i].0).unwrap();
                f.set_modified(std::time::UNIX_EPOCH + std::time::Duration::from_secs(mt)).unwrap();
            }
        }
        let mut registered: Vec<usize> = vec![];
        // what the manager was told: (key, stored blocks)
        let mut told: Vec<(MerkleHash, Vec<MDBCASInfo>)> = vec![];
        let mut told_chunks = 0usize;
        let mut nq = 0;
        for op in &ops {
            match op[0] {
                "R" => {
                    let i: usize = op[1].parse().unwrap();
                    if i < shards.len() {
                        mgr.register_shards(&[mdb_shard::MDBShardFile::load_from_file(&shards[i].0).unwrap()]).await.unwrap();
                        if !registered.contains(&i) {
                            registered.push(i);
                            told.push((shards[i].1, shards[i].2.clone()));
                            told_chunks += shards[i].2.iter().map(|c| c.chunks.len()).sum::<usize>();
                        }
                    }
                },
                "RB" => {
                    // several files in one register_shards call; their modification times were set when they were written
                    let mut batch = vec![];
                    for x in op[1].split(',') {
                        let i: usize = x.parse().unwrap();
                        if i < shards.len() {
                            batch.push(i);
                        }
                    }
                    let loaded: Vec<_> = batch.iter().map(|&i| mdb_shard::MDBShardFile::load_from_file(&shards[i].0).unwrap()).collect();
                    mgr.register_shards(&loaded).await.unwrap();
                    for i in batch {
                        if !registered.contains(&i) {
                            registered.push(i);
                            told.push((shards[i].1, shards[i].2.clone()));
                            told_chunks += shards[i].2.iter().map(|c| c.chunks.len()).sum::<usize>();
                        }
                    }
                },
                "A" => {
                    let c = parse_cas(op);
                    told_chunks += c.chunks.len();
                    told.push((MerkleHash::default(), vec![c.clone()]));
                    mgr.add_cas_block(c).await.unwrap();
                },
                "FL" => {
                    mgr.flush().await.unwrap();
                },
                "qd" => {
                    let qs = hashes(op[1]);
                    match mgr.chunk_hash_dedup_query(&qs).await {
                        Ok(a) => {
                            out.push(("obs", format!("qd{} {}", nq, dump_seg(&a))));
                            // truthful for a block the manager was told about, under that block's key
                            if a.is_some() && !told.iter().any(|(k, bl)| truthful(bl, k, &qs, &a).is_ok()) {
                                why.push(format!("qd{}-answer-is-no-run-of-any-block-the-manager-was-told-about", nq));
                            }
                            // complete below the cap (an upper bound of the counter is the number of chunks told)
                            let answered = matches!(&a, Some((n, _)) if *n >= 1);
                            if !answered && told_chunks < cap {
                                let zero = MerkleHash::default();
                                for (k, bl) in &told {
                                    let want = if *k == zero { qs[0] } else { qs[0].hmac(*k) };
                                    let known = bl.iter().any(|c| c.chunks.iter().take(65536).any(|ch| ch.chunk_hash == want));
                                    if !known {
                                        continue;
                                    }
                                    // ambiguous first 64 bits under this key: the table keeps one entry, the answer may be none
                                    let clash = told.iter().filter(|(k2, _)| k2 == k).any(|(_, bl2)| {
                                        bl2.iter().any(|c| c.chunks.iter().any(|ch| ch.chunk_hash[0] == want[0] && ch.chunk_hash != want))
                                    });
                                    if !clash {
                                        why.push(format!("qd{}-chunk-the-manager-was-told-about-is-not-found-below-the-cap", nq));
                                        break;
                                    }
                                }
                            }
                        },
                        Err(e) => {
                            out.push(("obs", format!("qd{} err", nq)));
                            why.push(format!("qd{}-query-failed:{:?}", nq, e));
                        },
                    }
                    nq += 1;
                },
                _ => {},
            }
        }
    });
    out.push(("orc", if why.is_empty() { "ok".to_string() } else { format!("FAIL [mgr] {}", why.join(",")) }));
    out
}
