// C12 / C13: the disk chunk cache.  One stream (`cache`) runs histories of open / put / get / close with on-disk
// damage between a close and the next open, and concurrent phases whose interleaving is fixed by a schedule through
// the guarded schedule-point hook.  After every step it prints the result of the step, the tracked state (guarded
// snapshot hook) and a digest of the cache files on disk; the model prints the same line.  Nondeterministic choices of
// the implementation (directory listing order, random eviction victims) are handed to the model as `aux` records.
use std::collections::BTreeMap;
use std::os::unix::ffi::{OsStrExt, OsStringExt};
use std::path::{Path, PathBuf};
use std::sync::{Arc, Condvar, Mutex};

use base64::Engine;
use cas_types::{ChunkRange, Key};
use chunk_cache::error::ChunkCacheError;
use chunk_cache::{CacheConfig, ChunkCache, DiskCache};
use merklehash::MerkleHash;

use crate::shard::cksum;
use crate::util::{hex, unhex, Lines};

const B64: base64::engine::GeneralPurpose = base64::engine::general_purpose::URL_SAFE;

struct UKey {
    buf: Vec<u8>,
    key: Key,
    lens: Vec<u32>,
}

pub fn chunk_bytes(k: usize, i: usize, len: u32) -> Vec<u8> {
    (0..len as usize).map(|j| ((k * 131 + i * 17 + j * 7 + 3) % 256) as u8).collect()
}

fn key_of_buf(buf: &[u8]) -> Key {
    Key {
        prefix: String::from_utf8(buf[32..].to_vec()).unwrap(),
        hash: MerkleHash::from_slice(&buf[..32]).unwrap(),
    }
}

fn slice_of(uni: &[UKey], k: usize, s: u32, e: u32) -> (Vec<u32>, Vec<u8>) {
    let mut offs = vec![0u32];
    let mut data = vec![];
    for i in s..e {
        let l = uni[k].lens.get(i as usize).copied().unwrap_or(1);
        data.extend(chunk_bytes(k, i as usize, l));
        offs.push(data.len() as u32);
    }
    (offs, data)
}

fn err_class(e: &ChunkCacheError) -> &'static str {
    match e {
        ChunkCacheError::General(_) => "General",
        ChunkCacheError::IO(_) => "IO",
        ChunkCacheError::Parse(_) => "Parse",
        ChunkCacheError::BadRange => "BadRange",
        ChunkCacheError::CacheEmpty => "CacheEmpty",
        ChunkCacheError::Infallible => "Infallible",
        ChunkCacheError::LockPoison => "LockPoison",
        ChunkCacheError::InvalidArguments => "InvalidArguments",
    }
}

type Item = (u32, u32, u64, u32);

fn key_dir_names(buf: &[u8]) -> (String, String) {
    let enc = B64.encode(buf);
    (enc[..2].to_string(), enc)
}

fn item_name(it: &Item) -> String {
    let mut b = vec![];
    b.extend(it.0.to_le_bytes());
    b.extend(it.1.to_le_bytes());
    b.extend(it.2.to_le_bytes());
    b.extend(it.3.to_le_bytes());
    B64.encode(b)
}

fn parse_item_name(n: &[u8]) -> Option<Item> {
    let b = B64.decode(n).ok()?;
    if b.len() != 20 {
        return None;
    }
    let s = u32::from_le_bytes(b[0..4].try_into().unwrap());
    let e = u32::from_le_bytes(b[4..8].try_into().unwrap());
    let l = u64::from_le_bytes(b[8..16].try_into().unwrap());
    let c = u32::from_le_bytes(b[16..20].try_into().unwrap());
    Some((s, e, l, c))
}

fn keybuf_of(k: &Key) -> Vec<u8> {
    let mut b = k.hash.as_bytes().to_vec();
    b.extend(k.prefix.as_bytes());
    b
}

fn tracked_of(c: &DiskCache) -> (usize, u64, BTreeMap<Vec<u8>, Vec<Item>>) {
    // a poisoned state lock (a cache call panicked while holding it) reads as an impossible snapshot
    let Ok((n, b, items)) = c.verif_snapshot() else {
        return (usize::MAX, u64::MAX, BTreeMap::new());
    };
    let mut m = BTreeMap::new();
    for (k, v) in items {
        m.insert(keybuf_of(&k), v);
    }
    (n, b, m)
}

fn tracked_str(m: &BTreeMap<Vec<u8>, Vec<Item>>, full: bool) -> String {
    let mut parts = vec![];
    for (k, v) in m {
        let items: Vec<String> = v.iter().map(|i| format!("{}-{}-{}-{}", i.0, i.1, i.2, i.3)).collect();
        parts.push(format!("{}={}", if full { hex(k) } else { cksum(k) }, items.join(",")));
    }
    if parts.is_empty() {
        "-".into()
    } else {
        parts.join(";")
    }
}

fn read_dir_raw(p: &Path) -> Vec<(Vec<u8>, PathBuf, bool, bool)> {
    // (name bytes, path, is_dir, is_file) in the order the OS lists them
    let mut v = vec![];
    if let Ok(rd) = std::fs::read_dir(p) {
        for e in rd.flatten() {
            let md = match e.metadata() {
                Ok(m) => m,
                Err(_) => continue,
            };
            v.push((e.file_name().as_bytes().to_vec(), e.path(), md.is_dir(), md.is_file()));
        }
    }
    v
}

// all files at depth 3 (root/x/y/file), sorted by path bytes
fn files_of(root: &Path) -> Vec<(Vec<u8>, Vec<u8>, Vec<u8>, Vec<u8>)> {
    let mut out = vec![];
    for (n1, p1, d1, _) in read_dir_raw(root) {
        if !d1 {
            continue;
        }
        for (n2, p2, d2, _) in read_dir_raw(&p1) {
            if !d2 {
                continue;
            }
            for (n3, p3, _, f3) in read_dir_raw(&p2) {
                if f3 {
                    out.push((n1.clone(), n2.clone(), n3, std::fs::read(&p3).unwrap_or_default()));
                }
            }
        }
    }
    out.sort();
    out
}

fn files_digest(root: &Path) -> String {
    let fs = files_of(root);
    let mut buf = vec![];
    for (a, b, c, d) in &fs {
        buf.extend(a);
        buf.push(47);
        buf.extend(b);
        buf.push(47);
        buf.extend(c);
        buf.push(0);
        buf.extend(d);
        buf.push(0);
    }
    format!("{}:{}", fs.len(), cksum(&buf))
}

fn b64_field(n: &[u8]) -> (String, u8) {
    match B64.decode(n) {
        Ok(b) => {
            let u = if b.len() >= 32 { std::str::from_utf8(&b[32..]).is_ok() as u8 } else { 0 };
            (hex(&b), u)
        },
        Err(_) => ("!".into(), 0),
    }
}

// the directory tree as the scan will meet it (listing order of the OS), for the model
fn tree_aux(root: &Path) -> String {
    let mut ents = vec![];
    for (n1, p1, d1, f1) in read_dir_raw(root) {
        ents.push(format!("e:1:{}:{}:-:!:0", hex(&n1), if d1 { "d" } else if f1 { "f" } else { "o" }));
        if !d1 {
            continue;
        }
        for (n2, p2, d2, f2) in read_dir_raw(&p1) {
            let (b, u) = b64_field(&n2);
            ents.push(format!("e:2:{}:{}:-:{}:{}", hex(&n2), if d2 { "d" } else if f2 { "f" } else { "o" }, b, u));
            if !d2 {
                continue;
            }
            for (n3, p3, d3, f3) in read_dir_raw(&p2) {
                let (b, u) = b64_field(&n3);
                let content = if f3 { hex(&std::fs::read(&p3).unwrap_or_default()) } else { "-".into() };
                ents.push(format!("e:3:{}:{}:{}:{}:{}", hex(&n3), if d3 { "d" } else if f3 { "f" } else { "o" }, content, b, u));
            }
        }
    }
    format!("T:{} {}", ents.len(), ents.join(" "))
}

fn state_line(c: &DiskCache, root: &Path) -> (String, String) {
    let (n, b, m) = tracked_of(c);
    (format!("n={} b={} t={} f={}", n, b, tracked_str(&m, false), files_digest(root)), format!("V:{}", tracked_str(&m, true)))
}

// ---- direct oracles -------------------------------------------------------------------------------------------

fn check_c13(c: &DiskCache, root: &Path, cap: u64, after_insert: Option<u64>, why: &mut Vec<String>, at: &str, disk: bool) {
    let (n, b, m) = tracked_of(c);
    let cnt: usize = m.values().map(|v| v.len()).sum();
    let sum: u64 = m.values().flat_map(|v| v.iter().map(|i| i.2)).sum();
    if n != cnt {
        why.push(format!("[C13] {}: num_items={} but {} entries are tracked", at, n, cnt));
    }
    if b != sum {
        why.push(format!("[C13] {}: total_bytes={} but tracked entries sum to {}", at, b, sum));
    }
    if let Some(len) = after_insert {
        if len <= cap && b > cap {
            why.push(format!("[C13] {}: total_bytes={} exceeds capacity {} after an insertion of {} bytes", at, b, cap, len));
        }
    }
    if !disk {
        // the directory was filled under another capacity: the scan may have stopped early or skipped large files
        return;
    }
    // every cache file (valid item name, within capacity, in a valid key directory under its own prefix) is tracked
    for (n1, n2, n3, content) in files_of(root) {
        let Ok(kb) = B64.decode(&n2) else { continue };
        if kb.len() < 32 || std::str::from_utf8(&kb[32..]).is_err() || n1.len() != 2 || n2[..2] != n1[..] {
            continue;
        }
        let Some(it) = parse_item_name(&n3) else { continue };
        if it.0 >= it.1 || content.len() as u64 > cap {
            continue;
        }
        if !m.get(&kb).map(|v| v.contains(&it)).unwrap_or(false) {
            why.push(format!("[C13] {}: cache file {}/{} ({} bytes) belongs to no tracked entry", at, String::from_utf8_lossy(&n2), String::from_utf8_lossy(&n3), content.len()));
        }
    }
}

// read every tracked entry back, then the totals must equal what is on disk
fn check_readback(c: &DiskCache, root: &Path, cap: u64, why: &mut Vec<String>) {
    let (_, _, m) = tracked_of(c);
    for (kb, v) in &m {
        let key = key_of_buf(kb);
        for it in v {
            let _ = c.get(&key, &ChunkRange { start: it.0, end: it.1 });
        }
    }
    let (n, b, m) = tracked_of(c);
    let mut dn = 0usize;
    let mut db = 0u64;
    for (n1, n2, n3, content) in files_of(root) {
        let Ok(kb) = B64.decode(&n2) else { continue };
        if kb.len() < 32 || std::str::from_utf8(&kb[32..]).is_err() || n1.len() != 2 || n2[..2] != n1[..] {
            continue;
        }
        let Some(it) = parse_item_name(&n3) else { continue };
        if it.0 >= it.1 || content.len() as u64 > cap {
            continue;
        }
        dn += 1;
        db += content.len() as u64;
    }
    let cnt: usize = m.values().map(|v| v.len()).sum();
    if n != dn || b != db || cnt != dn {
        why.push(format!("[C13] after reading every entry back: num_items={} total_bytes={} tracked={} but the disk holds {} cache files with {} bytes", n, b, cnt, dn, db));
    }
}

fn check_hit(uni: &[UKey], k: usize, s: u32, e: u32, r: &chunk_cache::CacheRange, consistent: bool, why: &mut Vec<String>) {
    let (offs, data) = slice_of(uni, k, s, e);
    if r.data.as_ref() != &data[..] || r.offsets.as_ref() != &offs[..] || r.range.start != s || r.range.end != e {
        why.push(format!("[C12] hit for key {} range {}..{} returns {} bytes (cksum {}) offsets {:?} range {:?}; what was put is {} bytes (cksum {}) offsets {:?}{}",
            k, s, e, r.data.len(), cksum(&r.data), r.offsets, r.range, data.len(), cksum(&data), offs,
            if consistent { "" } else { " [entry-under-foreign-name: an entry file whose length and checksum match its name was renamed, moved or planted under a key/range it was not stored under]" }));
    }
}

// ---- deterministic scheduling of threads through the guarded hook -------------------------------------------

#[derive(Clone, Debug, PartialEq)]
enum St {
    Parked(String),
    Finished,
}

struct Ctl {
    turn: Option<usize>,
    st: Vec<St>,
    // set when the controller gives up: every thread then runs freely to its end
    free: bool,
}

thread_local! {
    static TID: std::cell::Cell<Option<usize>> = const { std::cell::Cell::new(None) };
}
// set when a put passes its commit (sequential calls: was this put an insertion?)
static COMMITTED: std::sync::atomic::AtomicBool = std::sync::atomic::AtomicBool::new(false);

fn park(ctl: &Arc<(Mutex<Ctl>, Condvar)>, t: usize, at: St) {
    let (m, cv) = &**ctl;
    let mut g = m.lock().unwrap();
    let fin = at == St::Finished;
    g.st[t] = at;
    g.turn = None;
    cv.notify_all();
    if fin {
        return;
    }
    while g.turn != Some(t) && !g.free {
        g = cv.wait(g).unwrap();
    }
}

// ---- the stream ----------------------------------------------------------------------------------------------

fn sel_file(root: &Path, kb: &[u8], n: usize) -> Option<(PathBuf, Item)> {
    let (pp, kd) = key_dir_names(kb);
    let dir = root.join(pp).join(kd);
    let mut v: Vec<(Item, PathBuf)> = read_dir_raw(&dir).into_iter().filter(|x| x.3).filter_map(|x| parse_item_name(&x.0).map(|i| (i, x.1))).collect();
    v.sort();
    if v.is_empty() {
        return None;
    }
    let (i, p) = v[n % v.len()].clone();
    Some((p, i))
}

fn do_put(c: &DiskCache, uni: &[UKey], k: usize, s: u32, e: u32) -> String {
    let (offs, data) = slice_of(uni, k, s, e);
    match c.put(&uni[k].key, &ChunkRange { start: s, end: e }, &offs, &data) {
        Ok(()) => "ok".into(),
        Err(e) => format!("err:{}", err_class(&e)),
    }
}

fn do_get(c: &DiskCache, uni: &[UKey], k: usize, s: u32, e: u32, consistent: bool, why: &mut Vec<String>) -> String {
    match c.get(&uni[k].key, &ChunkRange { start: s, end: e }) {
        Ok(Some(r)) => {
            check_hit(uni, k, s, e, &r, consistent, why);
            let offs: Vec<String> = r.offsets.iter().map(|x| x.to_string()).collect();
            format!("hit:{}-{}:{}:{}", r.range.start, r.range.end, offs.join(","), cksum(&r.data))
        },
        Ok(None) => "miss".into(),
        Err(e) => format!("err:{}", err_class(&e)),
    }
}

pub fn run(toks: &[&str]) -> Lines {
    let ops = crate::shard::split_ops(toks);
    let tmp = tempfile::tempdir().unwrap();
    let root = tmp.path().join("cache");
    std::fs::create_dir_all(&root).unwrap();
    let mut out: Lines = vec![];
    let mut aux: Vec<String> = vec![];
    let mut why: Vec<String> = vec![];
    let mut uni: Vec<UKey> = vec![];
    let mut cache: Option<DiskCache> = None;
    let mut cap = 0u64;
    // false once an entry was moved to a name it was not stored under (the recorded finding of C12) or a forged
    // entry with a consistent name was planted: hits are then compared with the model only
    let mut consistent = true;
    let mut step = 0usize;
    let mut same_cap_history = true;
    let mut first_cap: Option<u64> = None;

    macro_rules! emit {
        ($res:expr) => {{
            let c = cache.as_ref().unwrap();
            let (sl, al) = state_line(c, &root);
            out.push(("obs", format!("{} {} {}", step, $res, sl)));
            aux.push(al);
            step += 1;
        }};
    }

    for op in &ops {
        match op[0] {
            "U" => {
                let buf = unhex(op[1]);
                let lens: Vec<u32> = op[2].split(',').map(|x| x.parse().unwrap()).collect();
                uni.push(UKey { key: key_of_buf(&buf), buf, lens });
            },
            "O" => {
                cap = op[1].parse().unwrap();
                if let Some(fc) = first_cap {
                    if fc != cap {
                        same_cap_history = false;
                    }
                } else {
                    first_cap = Some(cap);
                }
                aux.push(tree_aux(&root));
                let r = std::panic::catch_unwind(|| DiskCache::initialize(&CacheConfig { cache_directory: root.clone(), cache_size: cap }));
                match r {
                    Ok(Ok(c)) => {
                        cache = Some(c);
                        emit!("open");
                        let total: u64 = files_of(&root).iter().map(|f| f.3.len() as u64).sum();
                        if same_cap_history && total < 2 * cap {
                            check_c13(cache.as_ref().unwrap(), &root, cap, None, &mut why, &format!("step {} (open)", step - 1), true);
                        }
                    },
                    Ok(Err(e)) => {
                        out.push(("obs", format!("{} open-err:{}", step, err_class(&e))));
                        step += 1;
                        cache = None;
                    },
                    Err(_) => {
                        out.push(("obs", format!("{} open-PANIC", step)));
                        why.push(format!("[C12] step {}: DiskCache::initialize panicked on the directory left by the damage ops", step));
                        break;
                    },
                }
            },
            "C" => {
                if let Some(c) = cache.take() {
                    if same_cap_history {
                        check_readback(&c, &root, cap, &mut why);
                    }
                }
            },
            "P" | "G" | "PB" => {
                let Some(c) = cache.clone() else { continue };
                let k: usize = op[1].parse().unwrap();
                let s: u32 = op[2].parse().unwrap();
                let e: u32 = op[3].parse().unwrap();
                let mut inserted = None;
                COMMITTED.store(false, std::sync::atomic::Ordering::SeqCst);
                chunk_cache::verif::set_hook(Some(Box::new(|name: &str| {
                    if name == "put:after_commit" {
                        COMMITTED.store(true, std::sync::atomic::Ordering::SeqCst);
                    }
                })));
                let r = std::panic::catch_unwind(std::panic::AssertUnwindSafe(|| match op[0] {
                    "P" => {
                        let (o, d) = slice_of(&uni, k, s, e);
                        inserted = Some((o.len() * 4 + 4 + d.len()) as u64);
                        do_put(&c, &uni, k, s, e)
                    },
                    "G" => do_get(&c, &uni, k, s, e, consistent, &mut why),
                    _ => {
                        let (mut offs, mut data) = slice_of(&uni, k, s.min(e), e.max(s));
                        match op[4] {
                            "len" => {
                                offs.pop();
                            },
                            "first" => offs[0] = 1,
                            "last" => {
                                let l = offs.len() - 1;
                                offs[l] += 1
                            },
                            "incr" => {
                                if offs.len() > 2 {
                                    offs[1] = offs[2]
                                } else {
                                    offs[0] = offs[1]
                                }
                            },
                            "range" => {},
                            "data" => {
                                let l = data.len() - 1;
                                data[l] ^= 0x40
                            },
                            "lens" => {
                                if offs.len() > 2 {
                                    offs[1] += 1
                                }
                            },
                            _ => panic!("variant"),
                        }
                        // `data` and `lens` are only sent when the range is currently served (they would otherwise store
                        // bytes that differ from the ground truth of this case)
                        if (op[4] == "data" || op[4] == "lens") && !matches!(c.get(&uni[k].key, &ChunkRange { start: s, end: e }), Ok(Some(_))) {
                            return "skipped".to_string();
                        }
                        if op[4] == "lens" && offs.len() > 2 && offs[1] >= offs[2] {
                            return "skipped".to_string();
                        }
                        match c.put(&uni[k].key, &ChunkRange { start: s, end: e }, &offs, &data) {
                            Ok(()) => "ok".into(),
                            Err(e) => format!("err:{}", err_class(&e)),
                        }
                    },
                }));
                match r {
                    Ok(res) => {
                        let tag = format!("{}:{}", op[0], res);
                        emit!(tag);
                        chunk_cache::verif::set_hook(None);
                        let ins = if res == "ok" && COMMITTED.load(std::sync::atomic::Ordering::SeqCst) { inserted } else { None };
                        check_c13(&c, &root, cap, ins, &mut why, &format!("step {} ({})", step - 1, op.join(" ")), same_cap_history);
                    },
                    Err(_) => {
                        out.push(("obs", format!("{} {}:PANIC", step, op[0])));
                        why.push(format!("[C12] step {}: {} panicked", step, op.join(" ")));
                        break;
                    },
                }
            },
            // ---- damage (between a close and the next open; DD also while open) ----
            "DD" | "DF" | "DT" | "DX" | "DR" => {
                let k: usize = op[1].parse().unwrap();
                let n: usize = op[2].parse().unwrap();
                if cache.is_some() && op[0] != "DD" {
                    continue;
                }
                let Some((p, it)) = sel_file(&root, &uni[k].buf, n) else {
                    if cache.is_some() {
                        aux.push("X:-".into());
                    }
                    continue;
                };
                match op[0] {
                    "DD" => {
                        std::fs::remove_file(&p).unwrap();
                        if cache.is_some() {
                            let (pp, kd) = key_dir_names(&uni[k].buf);
                            aux.push(format!("X:{}:{}:{}", hex(pp.as_bytes()), hex(kd.as_bytes()), hex(p.file_name().unwrap().as_bytes())));
                        }
                    },
                    "DF" => {
                        let mut b = std::fs::read(&p).unwrap();
                        // (an empty file planted by an earlier DP step has no bit to flip)
                        // `e<n>`: n bits before the end of the file (the chunk data), else a bit offset from the start
                        let off: usize = match op[3].strip_prefix('e') {
                            Some(back) => (b.len() * 8).saturating_sub(1 + back.parse::<usize>().unwrap()),
                            None => op[3].parse::<usize>().unwrap() % (b.len() * 8).max(1),
                        };
                        let pat: u32 = op[4].parse().unwrap();
                        for j in 0..32 {
                            if (pat >> j) & 1 == 1 && off + j < b.len() * 8 {
                                b[(off + j) / 8] ^= 1 << ((off + j) % 8);
                            }
                        }
                        std::fs::write(&p, b).unwrap();
                    },
                    "DT" => {
                        let b = std::fs::read(&p).unwrap();
                        let m: usize = op[3].parse::<usize>().unwrap().max(1).min(b.len());
                        std::fs::write(&p, &b[..b.len() - m]).unwrap();
                    },
                    "DX" => {
                        let mut b = std::fs::read(&p).unwrap();
                        let m: usize = op[3].parse().unwrap();
                        b.extend((0..m).map(|j| (j * 13 + 1) as u8));
                        std::fs::write(&p, b).unwrap();
                    },
                    _ => {
                        let dir = p.parent().unwrap().to_path_buf();
                        match op[3] {
                            "range" => {
                                // same length and checksum, another chunk range of the same width (the recorded finding)
                                let d: u32 = op[4].parse().unwrap();
                                let ni = (it.0 + d, it.1 + d, it.2, it.3);
                                std::fs::rename(&p, dir.join(item_name(&ni))).unwrap();
                                consistent = false;
                                out.push(("note", "renamed-to-other-range".into()));
                            },
                            "wider" => {
                                let ni = (it.0, it.1 + op[4].parse::<u32>().unwrap(), it.2, it.3);
                                std::fs::rename(&p, dir.join(item_name(&ni))).unwrap();
                                out.push(("note", "renamed-to-wider-range".into()));
                            },
                            "len" => {
                                let ni = (it.0, it.1, it.2 + 1, it.3);
                                std::fs::rename(&p, dir.join(item_name(&ni))).unwrap();
                            },
                            "crc" => {
                                let ni = (it.0, it.1, it.2, it.3 ^ 1);
                                std::fs::rename(&p, dir.join(item_name(&ni))).unwrap();
                            },
                            "key" => {
                                let k2: usize = op[4].parse().unwrap();
                                let (pp, kd) = key_dir_names(&uni[k2].buf);
                                let d2 = root.join(pp).join(kd);
                                std::fs::create_dir_all(&d2).unwrap();
                                std::fs::rename(&p, d2.join(p.file_name().unwrap())).unwrap();
                                if k2 != k {
                                    consistent = false;
                                    out.push(("note", "moved-to-other-key".into()));
                                }
                            },
                            "junk" => {
                                std::fs::rename(&p, dir.join(std::ffi::OsString::from_vec(unhex(op[4])))).unwrap();
                            },
                            _ => panic!("rename kind"),
                        }
                    },
                }
            },
            "DP" => {
                // DP <depth> <parent> <namehex> <f|d> [contenthex]; parent: `-` (root), hex of a prefix-dir name, or k<id>
                if cache.is_some() {
                    continue;
                }
                let parent = match (op[1], op[2]) {
                    ("1", _) => root.clone(),
                    ("2", p) if p.starts_with('k') => root.join(key_dir_names(&uni[p[1..].parse::<usize>().unwrap()].buf).0),
                    ("2", p) => root.join(std::ffi::OsString::from_vec(unhex(p))),
                    (_, p) if p.starts_with('k') => {
                        let (pp, kd) = key_dir_names(&uni[p[1..].parse::<usize>().unwrap()].buf);
                        root.join(pp).join(kd)
                    },
                    (_, p) => {
                        let v: Vec<&str> = p.split('/').collect();
                        root.join(std::ffi::OsString::from_vec(unhex(v[0]))).join(std::ffi::OsString::from_vec(unhex(v[1])))
                    },
                };
                let _ = std::fs::create_dir_all(&parent);
                let name = std::ffi::OsString::from_vec(unhex(op[3]));
                if name.is_empty() {
                    continue;
                }
                let p = parent.join(name);
                if p.exists() {
                    continue;
                }
                if op[4] == "d" {
                    let _ = std::fs::create_dir(&p);
                } else {
                    let _ = std::fs::write(&p, unhex(op.get(5).copied().unwrap_or("-")));
                }
            },
            "DV" => {
                // DV k s e <headerhex+datahex>: plant a forged entry whose name is consistent with its content
                if cache.is_some() {
                    continue;
                }
                let k: usize = op[1].parse().unwrap();
                let content = unhex(op[4]);
                let it = (op[2].parse().unwrap(), op[3].parse().unwrap(), content.len() as u64, crc32fast::hash(&content));
                let (pp, kd) = key_dir_names(&uni[k].buf);
                let d = root.join(pp).join(kd);
                std::fs::create_dir_all(&d).unwrap();
                std::fs::write(d.join(item_name(&it)), content).unwrap();
                consistent = false;
                out.push(("note", "forged-consistent-entry".into()));
            },
            // ---- a concurrent phase: R <prog>/<prog>/... <schedule> ----
            "R" => {
                let Some(c) = cache.clone() else { continue };
                let progs: Vec<Vec<Vec<String>>> = op[1]
                    .split('/')
                    .map(|p| p.split(';').map(|o| o.split(',').map(|x| x.to_string()).collect()).collect())
                    .collect();
                let sched: Vec<usize> = op[2].chars().filter_map(|ch| ch.to_digit(10)).map(|d| d as usize).collect();
                let nt = progs.len();
                let ctl = Arc::new((Mutex::new(Ctl { turn: None, st: vec![St::Parked("start".into()); nt], free: false }), Condvar::new()));
                let ctl_h = ctl.clone();
                chunk_cache::verif::set_hook(Some(Box::new(move |name: &str| {
                    if let Some(t) = TID.with(|x| x.get()) {
                        park(&ctl_h, t, St::Parked(name.to_string()));
                    }
                })));
                let uni_a: Arc<Vec<(Key, Vec<u32>)>> = Arc::new(uni.iter().map(|u| (u.key.clone(), u.lens.clone())).collect());
                let results: Arc<Mutex<Vec<(usize, String)>>> = Arc::new(Mutex::new(vec![]));
                let hitfail: Arc<Mutex<Vec<String>>> = Arc::new(Mutex::new(vec![]));
                let mut handles = vec![];
                for (t, prog) in progs.iter().enumerate() {
                    let (c, ctl, prog, uni_a, results, hitfail) = (c.clone(), ctl.clone(), prog.clone(), uni_a.clone(), results.clone(), hitfail.clone());
                    let cons = consistent;
                    handles.push(std::thread::spawn(move || {
                        TID.with(|x| x.set(Some(t)));
                        // wait for the first turn
                        {
                            let (m, cv) = &*ctl;
                            let mut g = m.lock().unwrap();
                            while g.turn != Some(t) && !g.free {
                                g = cv.wait(g).unwrap();
                            }
                        }
                        let u: Vec<UKey> = uni_a.iter().map(|(k, l)| UKey { buf: vec![], key: k.clone(), lens: l.clone() }).collect();
                        let n = prog.len();
                        for (i, o) in prog.iter().enumerate() {
                            let k: usize = o[1].parse().unwrap();
                            let s: u32 = o[2].parse().unwrap();
                            let e: u32 = o[3].parse().unwrap();
                            let r = std::panic::catch_unwind(std::panic::AssertUnwindSafe(|| {
                                if o[0] == "P" {
                                    do_put(&c, &u, k, s, e)
                                } else {
                                    let mut w = vec![];
                                    let r = do_get(&c, &u, k, s, e, cons, &mut w);
                                    hitfail.lock().unwrap().extend(w);
                                    r
                                }
                            }))
                            .unwrap_or_else(|_| "PANIC".into());
                            results.lock().unwrap().push((t, format!("{}:{}", o[0], r)));
                            if i + 1 < n {
                                park(&ctl, t, St::Parked(format!("done:{}:{}", o[0], r)));
                            } else {
                                park(&ctl, t, St::Finished);
                            }
                        }
                        if n == 0 {
                            park(&ctl, t, St::Finished);
                        }
                    }));
                }
                let mut order = sched.clone();
                // after the schedule is used up the remaining threads run one at a time, lowest id first
                let run_one = |t: usize| -> Option<String> {
                    let (m, cv) = &*ctl;
                    let mut g = m.lock().unwrap();
                    if t >= nt || g.st[t] == St::Finished {
                        return None;
                    }
                    g.turn = Some(t);
                    cv.notify_all();
                    while g.turn.is_some() {
                        g = cv.wait(g).unwrap();
                    }
                    Some(match &g.st[t] {
                        St::Parked(n) => n.clone(),
                        St::Finished => {
                            let r = results.lock().unwrap();
                            format!("done:{}", r.iter().rev().find(|x| x.0 == t).map(|x| x.1.clone()).unwrap_or_default())
                        },
                    })
                };
                let mut i = 0;
                loop {
                    let t = if i < order.len() {
                        order[i]
                    } else {
                        let g = ctl.0.lock().unwrap();
                        match (0..nt).find(|t| g.st[*t] != St::Finished) {
                            Some(t) => {
                                drop(g);
                                order.push(t);
                                t
                            },
                            None => break,
                        }
                    };
                    i += 1;
                    let Some(at) = run_one(t) else { continue };
                    let (sl, al) = state_line(&c, &root);
                    out.push(("obs", format!("{} t{}@{} {}", step, t, at, sl)));
                    aux.push(format!("S:{} {}", t, al));
                    step += 1;
                    // counters are exact at every point outside the lock, and the capacity bound holds right after a commit
                    let (n, b, m) = tracked_of(&c);
                    let cnt: usize = m.values().map(|v| v.len()).sum();
                    let sum: u64 = m.values().flat_map(|v| v.iter().map(|i| i.2)).sum();
                    if n != cnt || b != sum {
                        why.push(format!("[C13] schedule step {} (t{}@{}): num_items={} total_bytes={} but {} entries with {} bytes are tracked", step - 1, t, at, n, b, cnt, sum));
                    }
                    if at == "put:after_commit" && b > cap {
                        why.push(format!("[C13] schedule step {} (t{}@{}): total_bytes={} exceeds capacity {} right after an insertion", step - 1, t, at, b, cap));
                    }
                }
                aux.push("S:end".into());
                {
                    let mut g = ctl.0.lock().unwrap();
                    g.free = true;
                    ctl.1.notify_all();
                }
                for h in handles {
                    let _ = h.join();
                }
                chunk_cache::verif::set_hook(None);
                why.extend(hitfail.lock().unwrap().drain(..));
                if results.lock().unwrap().iter().any(|r| r.1.ends_with("PANIC")) {
                    why.push("[C12] a cache operation panicked in a concurrent phase".into());
                }
                // quiescent: every cache file is tracked
                check_c13(&c, &root, cap, None, &mut why, "quiescent point after the concurrent phase", same_cap_history);
            },
            _ => panic!("cache op {}", op[0]),
        }
    }
    if let Some(c) = cache.take() {
        if same_cap_history {
            check_readback(&c, &root, cap, &mut why);
        }
    }
    out.push(("aux", aux.join(" ")));
    if why.is_empty() {
        out.push(("orc", "ok".into()));
    } else {
        for w in why {
            out.push(("orc", format!("FAIL {}", w)));
        }
    }
    out
}
