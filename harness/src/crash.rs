// C19: interrupted writes.  The parent (`xv crash`) prepares a directory, lets a child process (`xv crashchild`) run one
// operation under strace, once in full (the effect trace, compared with the model's plan) and once per file-system
// system call with SIGKILL injected at the entry of that call (a crash between two effects).  After every crash a third
// process (`xv crashverify`) re-opens the directory with the crate's own readers and reports every file under a final
// name (complete and consistent with its name?) and every retrievable record; the parent compares with the state before.
use std::collections::{BTreeSet, HashMap};
use std::io::Write;
use std::path::{Path, PathBuf};
use std::process::Command;

use cas_types::{ChunkRange, Key};
use chunk_cache::{CacheConfig, ChunkCache, DiskCache};
use mdb_shard::shard_format::MDBShardInfo;
use mdb_shard::MDBShardFile;
use merklehash::{compute_data_hash, MerkleHash};

use crate::shard::{build, cksum, split_ops};
use crate::util::{hex, unhex, Lines};

const MARK: &str = "/XV_CRASH_MARK";
// every call that creates, fills, links, renames, shrinks or removes a file (a crash is injected at the entry of each)
const INJECT: &str = "openat,creat,write,pwrite64,writev,pwritev,pwritev2,copy_file_range,sendfile,rename,renameat,renameat2,unlink,unlinkat,ftruncate,truncate,\
link,linkat,symlink,symlinkat,fallocate,fchmod,mkdir,mkdirat,rmdir";

fn copy_dir(src: &Path, dst: &Path) {
    std::fs::create_dir_all(dst).unwrap();
    for e in std::fs::read_dir(src).unwrap().flatten() {
        let p = e.path();
        let d = dst.join(e.file_name());
        let md = e.metadata().unwrap();
        if md.is_dir() {
            copy_dir(&p, &d);
        } else {
            std::fs::copy(&p, &d).unwrap();
            // keep the modification time (consolidation orders shards by it)
            if let Ok(t) = md.modified() {
                if let Ok(f) = std::fs::File::options().append(true).open(&d) {
                    let _ = f.set_modified(t);
                }
            }
        }
    }
}

// ---- case text: `<kind> <param> | op | op ...`; `==` separates shards / phases -------------------------------

struct Case<'a> {
    kind: &'a str,
    param: u64,
    groups: Vec<Vec<Vec<&'a str>>>,
}

fn parse_case<'a>(toks: &[&'a str]) -> Case<'a> {
    let kind = toks[0];
    let param: u64 = toks[1].parse().unwrap();
    let ops = split_ops(&toks[2..]);
    let mut groups: Vec<Vec<Vec<&str>>> = vec![vec![]];
    for op in ops {
        if op[0] == "==" {
            groups.push(vec![]);
        } else {
            groups.last_mut().unwrap().push(op);
        }
    }
    Case { kind, param, groups }
}

fn xorb_chunks(id: usize, n: usize) -> Vec<Vec<u8>> {
    (0..n).map(|i| (0..(5 + (id * 7 + i * 13) % 40)).map(|j| ((id * 31 + i * 17 + j * 3 + 1) % 256) as u8).collect()).collect()
}
fn xorb_parts(chunks: &[Vec<u8>]) -> (MerkleHash, Vec<u8>, Vec<(MerkleHash, u32)>) {
    let mut data = vec![];
    let mut cb = vec![];
    let mut nodes = vec![];
    for c in chunks {
        data.extend_from_slice(c);
        let h = compute_data_hash(c);
        cb.push((h, data.len() as u32));
        nodes.push((h, c.len()));
    }
    (merkledb::aggregate_hashes::cas_node_hash(&nodes), data, cb)
}

struct CacheUni {
    keys: Vec<(Key, Vec<u32>)>,
}
fn cache_slice(u: &CacheUni, k: usize, s: u32, e: u32) -> (Vec<u32>, Vec<u8>) {
    let mut offs = vec![0u32];
    let mut data = vec![];
    for i in s..e {
        let l = u.keys[k].1.get(i as usize).copied().unwrap_or(1);
        data.extend(crate::cache::chunk_bytes(k, i as usize, l));
        offs.push(data.len() as u32);
    }
    (offs, data)
}
fn cache_uni(ops: &[Vec<&str>]) -> CacheUni {
    let mut keys = vec![];
    for op in ops {
        if op[0] == "U" {
            let buf = unhex(op[1]);
            let key = Key { prefix: String::from_utf8(buf[32..].to_vec()).unwrap(), hash: MerkleHash::from_slice(&buf[..32]).unwrap() };
            keys.push((key, op[2].split(',').map(|x| x.parse().unwrap()).collect()));
        }
    }
    CacheUni { keys }
}

// ---- setup (parent) ------------------------------------------------------------------------------------------

fn rt() -> tokio::runtime::Runtime {
    tokio::runtime::Builder::new_multi_thread().worker_threads(1).enable_all().build().unwrap()
}

fn setup(c: &Case, dir: &Path) {
    std::fs::create_dir_all(dir).unwrap();
    match c.kind {
        "flush" | "consol" => {
            // every group but (for flush) the last is a shard already in the directory
            let n = if c.kind == "flush" { c.groups.len() - 1 } else { c.groups.len() };
            for (i, g) in c.groups[..n].iter().enumerate() {
                let b = build(g);
                if b.mem.is_empty() {
                    continue;
                }
                let p = b.mem.write_to_directory(dir).unwrap();
                let t = std::time::SystemTime::UNIX_EPOCH + std::time::Duration::from_secs(1_700_000_000 + 10 * i as u64);
                std::fs::File::options().write(true).open(&p).unwrap().set_modified(t).unwrap();
            }
        },
        "xorb" => {
            let r = rt();
            r.block_on(async {
                use cas_client::LocalClient;
                let lc = LocalClient::new(dir, None).unwrap();
                for id in 0..c.param as usize {
                    let (h, data, cb) = xorb_parts(&xorb_chunks(100 + id, 2 + id % 3));
                    cas_client::UploadClient::put(&lc, "default", &h, data, cb).await.unwrap();
                }
            });
        },
        "cput" => {
            let u = cache_uni(&c.groups[0]);
            let cache = DiskCache::initialize(&CacheConfig { cache_directory: dir.to_path_buf(), cache_size: c.param }).unwrap();
            for op in &c.groups[0] {
                if op[0] == "P" {
                    let (k, s, e): (usize, u32, u32) = (op[1].parse().unwrap(), op[2].parse().unwrap(), op[3].parse().unwrap());
                    let (offs, data) = cache_slice(&u, k, s, e);
                    cache.put(&u.keys[k].0, &ChunkRange { start: s, end: e }, &offs, &data).unwrap();
                }
            }
        },
        _ => panic!("crash kind"),
    }
}

// ---- the operation (child) -----------------------------------------------------------------------------------

pub fn child(args: &[String]) {
    let dir = PathBuf::from(&args[0]);
    let toks: Vec<&str> = args[1..].iter().map(|s| s.as_str()).collect();
    let c = parse_case(&toks);
    match c.kind {
        "flush" => {
            let b = build(c.groups.last().unwrap());
            let _ = std::fs::remove_file(MARK);
            b.mem.write_to_directory(&dir).unwrap();
        },
        "consol" => {
            let _ = std::fs::remove_file(MARK);
            mdb_shard::session_directory::consolidate_shards_in_directory(&dir, c.param).unwrap();
        },
        "xorb" => {
            let r = rt();
            r.block_on(async {
                let lc = cas_client::LocalClient::new(&dir, None).unwrap();
                let (h, data, cb) = xorb_parts(&xorb_chunks(7, 3));
                let _ = std::fs::remove_file(MARK);
                cas_client::UploadClient::put(&lc, "default", &h, data, cb).await.unwrap();
            });
        },
        "cput" => {
            let u = cache_uni(&c.groups[0]);
            let cache = DiskCache::initialize(&CacheConfig { cache_directory: dir.clone(), cache_size: c.param }).unwrap();
            let op = &c.groups[1][0];
            let (k, s, e): (usize, u32, u32) = (op[1].parse().unwrap(), op[2].parse().unwrap(), op[3].parse().unwrap());
            let (offs, data) = cache_slice(&u, k, s, e);
            let _ = std::fs::remove_file(MARK);
            cache.put(&u.keys[k].0, &ChunkRange { start: s, end: e }, &offs, &data).unwrap();
        },
        _ => panic!("crash kind"),
    }
}

// ---- re-open and report (verify process) ---------------------------------------------------------------------

fn is_shard_final(n: &str) -> bool {
    n.len() == 68 && n.ends_with(".mdb") && n[..64].chars().all(|c| c.is_ascii_hexdigit())
}

pub fn verify(args: &[String]) {
    let dir = PathBuf::from(&args[0]);
    let toks: Vec<&str> = args[1..].iter().map(|s| s.as_str()).collect();
    let c = parse_case(&toks);
    let out = std::io::stdout();
    let mut out = out.lock();
    match c.kind {
        "flush" | "consol" => {
            // every file under a final shard name is a complete shard whose content hashes to its name
            let mut names: Vec<String> = std::fs::read_dir(&dir).unwrap().flatten().map(|e| e.file_name().to_string_lossy().to_string()).collect();
            names.sort();
            for n in &names {
                if !is_shard_final(n) {
                    writeln!(out, "other {}", if n.ends_with("mdb_temp") { "temp" } else { n.as_str() }).unwrap();
                    continue;
                }
                let bytes = std::fs::read(dir.join(n)).unwrap();
                let h = compute_data_hash(&bytes);
                let parsed = MDBShardInfo::load_from_reader(&mut std::io::Cursor::new(&bytes));
                if h.hex() != n[..64] {
                    writeln!(out, "final {} BAD content of {} bytes does not hash to the name", n, bytes.len()).unwrap();
                } else if let Err(e) = parsed {
                    writeln!(out, "final {} BAD does not parse: {:?}", n, e).unwrap();
                } else {
                    writeln!(out, "final {} ok", n).unwrap();
                }
            }
            // the crate's own scan and lookups
            match MDBShardFile::load_all_valid(&dir) {
                Err(e) => writeln!(out, "open ERR {:?}", e).unwrap(),
                Ok(shards) => {
                    writeln!(out, "open ok {}", shards.len()).unwrap();
                    let mut recs = BTreeSet::new();
                    for s in &shards {
                        let mut r = s.get_reader().unwrap();
                        for f in s.shard.read_all_file_info_sections(&mut r).unwrap_or_default() {
                            let segs: Vec<String> = f.segments.iter().map(|x| format!("{}:{}:{}:{}", x.cas_hash.hex(), x.unpacked_segment_bytes, x.chunk_index_start, x.chunk_index_end)).collect();
                            recs.insert(format!("rec file {} {}", f.metadata.file_hash.hex(), cksum(segs.join(",").as_bytes())));
                        }
                        let mut r = s.get_reader().unwrap();
                        for ci in s.shard.read_all_cas_blocks_full(&mut r).unwrap_or_default() {
                            let ch: Vec<String> = ci.chunks.iter().map(|x| format!("{}:{}:{}", x.chunk_hash.hex(), x.unpacked_segment_bytes, x.chunk_byte_range_start)).collect();
                            recs.insert(format!("rec cas {} {}", ci.metadata.cas_hash.hex(), cksum(ch.join(",").as_bytes())));
                        }
                    }
                    for r in recs {
                        writeln!(out, "{}", r).unwrap();
                    }
                },
            }
        },
        "xorb" => {
            let xd = dir.join("xorbs");
            let mut names: Vec<String> = std::fs::read_dir(&xd).unwrap().flatten().map(|e| e.file_name().to_string_lossy().to_string()).collect();
            names.sort();
            for n in &names {
                if !(n.starts_with("default.") && n.len() == 72) {
                    writeln!(out, "other {}", if n.ends_with(".tmp") { "temp" } else { n.as_str() }).unwrap();
                    continue;
                }
                let bytes = std::fs::read(xd.join(n)).unwrap();
                let want = MerkleHash::from_hex(&n[8..]).unwrap();
                let mut cur = std::io::Cursor::new(&bytes);
                match cas_object::CasObject::deserialize(&mut cur) {
                    Err(e) => writeln!(out, "final {} BAD {} bytes do not parse as a xorb: {:?}", n, bytes.len(), e).unwrap(),
                    Ok(co) => {
                        let mut cur = std::io::Cursor::new(&bytes);
                        let v = cas_object::CasObject::validate_cas_object(&mut cur, &want);
                        let mut cur = std::io::Cursor::new(&bytes);
                        let all = co.get_all_bytes(&mut cur);
                        match (&v, &all) {
                            (Ok(Some(_)), Ok(d)) => {
                                writeln!(out, "final {} ok", n).unwrap();
                                writeln!(out, "rec xorb {} {}", &n[8..], cksum(&d[..])).unwrap();
                            },
                            _ => writeln!(out, "final {} BAD validate={} read={}", n, matches!(v, Ok(Some(_))), all.is_ok()).unwrap(),
                        }
                    },
                }
            }
            // the client itself opens the store and sees the same objects
            let r = rt();
            r.block_on(async {
                match cas_client::LocalClient::new(&dir, None) {
                    Err(e) => writeln!(out, "open ERR {:?}", e).unwrap(),
                    Ok(lc) => match lc.get_all_entries() {
                        Ok(v) => writeln!(out, "open ok {}", v.len()).unwrap(),
                        Err(e) => writeln!(out, "open ERR {:?}", e).unwrap(),
                    },
                }
            });
        },
        "cput" => {
            let u = cache_uni(&c.groups[0]);
            match DiskCache::initialize(&CacheConfig { cache_directory: dir.clone(), cache_size: c.param }) {
                Err(e) => writeln!(out, "open ERR {:?}", e).unwrap(),
                Ok(cache) => {
                    writeln!(out, "open ok {}", cache.num_items().unwrap()).unwrap();
                    // every file left in a key directory after the scan has the length and checksum of its name
                    for p1 in std::fs::read_dir(&dir).unwrap().flatten() {
                        if !p1.path().is_dir() {
                            continue;
                        }
                        for p2 in std::fs::read_dir(p1.path()).unwrap().flatten() {
                            if !p2.path().is_dir() {
                                continue;
                            }
                            for f in std::fs::read_dir(p2.path()).unwrap().flatten() {
                                let name = f.file_name().to_string_lossy().to_string();
                                let bytes = std::fs::read(f.path()).unwrap_or_default();
                                use base64::Engine;
                                match base64::engine::general_purpose::URL_SAFE.decode(name.as_bytes()) {
                                    Ok(b) if b.len() == 20 => {
                                        let len = u64::from_le_bytes(b[8..16].try_into().unwrap());
                                        let crc = u32::from_le_bytes(b[16..20].try_into().unwrap());
                                        if len == bytes.len() as u64 && crc == crc32fast::hash(&bytes) {
                                            writeln!(out, "final {} ok", name).unwrap();
                                        } else {
                                            writeln!(out, "final {} BAD {} bytes, checksum {} under a name that says {} bytes, checksum {}", name, bytes.len(), crc32fast::hash(&bytes), len, crc).unwrap();
                                        }
                                    },
                                    _ => writeln!(out, "other {}", if name.ends_with(".tmp") { "temp-left-after-scan" } else { name.as_str() }).unwrap(),
                                }
                            }
                        }
                    }
                    // every range stored before the operation, read through the cache
                    for op in &c.groups[0] {
                        if op[0] != "P" {
                            continue;
                        }
                        let (k, s, e): (usize, u32, u32) = (op[1].parse().unwrap(), op[2].parse().unwrap(), op[3].parse().unwrap());
                        let (offs, data) = cache_slice(&u, k, s, e);
                        match cache.get(&u.keys[k].0, &ChunkRange { start: s, end: e }) {
                            Ok(Some(r)) => {
                                if r.data.as_ref() == &data[..] && r.offsets.as_ref() == &offs[..] {
                                    writeln!(out, "rec range {} {}-{} {}", k, s, e, cksum(&data)).unwrap();
                                } else {
                                    writeln!(out, "final range-{}-{}-{} BAD the hit returns other bytes than were stored", k, s, e).unwrap();
                                }
                            },
                            Ok(None) => {},
                            Err(e) => writeln!(out, "note get error {:?}", e).unwrap(),
                        }
                    }
                },
            }
        },
        _ => panic!("crash kind"),
    }
}

// ---- strace log --------------------------------------------------------------------------------------------

#[derive(Debug, Clone)]
struct Sys {
    pid: String,
    name: String,
    args: String,
    ret: String,
}

fn parse_log(text: &str) -> Vec<Sys> {
    let mut v = vec![];
    for line in text.lines() {
        let Some((pid, rest)) = line.split_once(' ') else { continue };
        let rest = rest.trim_start();
        let Some(p) = rest.find('(') else { continue };
        let name = &rest[..p];
        if !name.chars().all(|c| c.is_ascii_alphanumeric() || c == '_') {
            continue;
        }
        let (args, ret) = match rest.rfind(" = ") {
            Some(q) => (rest[p + 1..q].trim_end().trim_end_matches(')'), rest[q + 3..].trim()),
            None => (&rest[p + 1..], "?"),
        };
        v.push(Sys { pid: pid.to_string(), name: name.to_string(), args: args.to_string(), ret: ret.to_string() });
    }
    v
}

fn quoted(args: &str) -> Vec<String> {
    // the double-quoted strings of an argument list (paths; strace escapes quotes inside)
    let mut out = vec![];
    let b = args.as_bytes();
    let mut i = 0;
    while i < b.len() {
        if b[i] == b'"' {
            let mut j = i + 1;
            let mut s = String::new();
            while j < b.len() && b[j] != b'"' {
                if b[j] == b'\\' && j + 1 < b.len() {
                    j += 1;
                }
                s.push(b[j] as char);
                j += 1;
            }
            out.push(s);
            i = j + 1;
        } else {
            i += 1;
        }
    }
    out
}

// the effects on the directory after the marker, normalised
fn effects(log: &[Sys], dir: &Path, inputs: &BTreeSet<String>) -> (Vec<String>, Vec<(String, usize)>) {
    let main = log.first().map(|s| s.pid.clone()).unwrap_or_default();
    let inj: Vec<&str> = INJECT.split(',').collect();
    // strace counts the invocations of each system call separately (per process): a crash point is (call, its k-th use)
    let mut counts: HashMap<String, usize> = HashMap::new();
    let mut points: Vec<(String, usize)> = vec![];
    let mut after = false;
    let mut fds: HashMap<String, String> = HashMap::new();
    let mut temps: Vec<String> = vec![];
    let mut merged: Vec<String> = vec![];
    let mut out: Vec<String> = vec![];
    let dirs = dir.to_string_lossy().to_string();
    let mut norm = |p: &str, temps: &mut Vec<String>, merged: &mut Vec<String>| -> Option<String> {
        let rel = p.strip_prefix(&dirs)?.trim_start_matches('/').to_string();
        let base = rel.rsplit('/').next().unwrap_or("").to_string();
        if base.ends_with(".tmp") || base.ends_with("mdb_temp") {
            let i = temps.iter().position(|t| *t == rel).unwrap_or_else(|| {
                temps.push(rel.clone());
                temps.len() - 1
            });
            return Some(format!("T{}", i));
        }
        if is_shard_final(&base) && !inputs.contains(&base) {
            let i = merged.iter().position(|t| *t == rel).unwrap_or_else(|| {
                merged.push(rel.clone());
                merged.len() - 1
            });
            return Some(format!("M{}", i));
        }
        Some(rel)
    };
    for s in log {
        if s.pid != main {
            continue;
        }
        if inj.contains(&s.name.as_str()) {
            let k = counts.entry(s.name.clone()).or_insert(0);
            *k += 1;
            if after {
                points.push((s.name.clone(), *k));
            }
        }
        if !after {
            if (s.name == "unlink" || s.name == "unlinkat") && s.args.contains(MARK) {
                after = true;
            }
            continue;
        }
        let q = quoted(&s.args);
        match s.name.as_str() {
            "openat" | "creat" => {
                if let Some(p) = q.first() {
                    if let Some(np) = norm(p, &mut temps, &mut merged) {
                        let fd = s.ret.split(' ').next().unwrap_or("").to_string();
                        if s.args.contains("O_CREAT") || s.name == "creat" {
                            if !s.ret.starts_with('-') {
                                if out.last() != Some(&format!("C:{}", np)) {
                                    out.push(format!("C:{}", np));
                                }
                                fds.insert(fd, np);
                            }
                        } else if s.args.contains("O_WRONLY") || s.args.contains("O_RDWR") {
                            fds.insert(fd, np);
                        }
                    }
                }
            },
            "write" | "pwrite64" | "writev" | "pwritev" | "pwritev2" | "sendfile" | "copy_file_range" => {
                // the descriptor written to: the first argument (the third of copy_file_range)
                let fd = s.args.split(',').nth(if s.name == "copy_file_range" { 2 } else { 0 }).unwrap_or("").trim().to_string();
                if let Some(np) = fds.get(&fd) {
                    let nb: usize = s.ret.split(' ').next().unwrap_or("0").parse().unwrap_or(0);
                    if let Some(last) = out.last_mut() {
                        if let Some(rest) = last.strip_prefix(&format!("W:{}:", np)) {
                            let prev: usize = rest.parse().unwrap_or(0);
                            *last = format!("W:{}:{}", np, prev + nb);
                            continue;
                        }
                    }
                    out.push(format!("W:{}:{}", np, nb));
                }
            },
            "close" => {
                let fd = s.args.trim().to_string();
                fds.remove(&fd);
            },
            "rename" | "renameat" | "renameat2" => {
                if q.len() >= 2 {
                    if let (Some(a), Some(b)) = (norm(&q[0], &mut temps, &mut merged), norm(&q[1], &mut temps, &mut merged)) {
                        out.push(format!("R:{}:{}", a, b));
                    }
                }
            },
            "unlink" | "unlinkat" => {
                if let Some(p) = q.first() {
                    if let Some(np) = norm(p, &mut temps, &mut merged) {
                        if !s.ret.starts_with('-') {
                            out.push(format!("U:{}", np));
                        }
                    }
                }
            },
            _ => {},
        }
    }
    (out, points)
}

fn strace_child(exe: &Path, dir: &Path, case: &str, log: Option<&Path>, when: Option<&(String, usize)>) -> (bool, String) {
    let mut cmd = Command::new("strace");
    cmd.arg("-f").arg("-qq").arg("-s").arg("0");
    cmd.arg("-e").arg(format!("trace={},close", INJECT));
    if let Some((call, k)) = when {
        cmd.arg("-e").arg(format!("inject={}:signal=SIGKILL:when={}", call, k));
    }
    cmd.arg("-o").arg(log.map(|p| p.to_path_buf()).unwrap_or_else(|| PathBuf::from("/dev/null")));
    cmd.arg(exe).arg("crashchild").arg(dir);
    for t in case.split(' ') {
        cmd.arg(t);
    }
    let o = cmd.output().expect("strace");
    (o.status.success(), String::from_utf8_lossy(&o.stderr).to_string())
}

fn run_verify(exe: &Path, dir: &Path, case: &str) -> Vec<String> {
    let mut cmd = Command::new(exe);
    cmd.arg("crashverify").arg(dir);
    for t in case.split(' ') {
        cmd.arg(t);
    }
    let o = cmd.output().expect("verify");
    let mut v: Vec<String> = String::from_utf8_lossy(&o.stdout).lines().map(|s| s.to_string()).collect();
    if !o.status.success() {
        v.push(format!("open ERR the re-opening process failed: {}", String::from_utf8_lossy(&o.stderr).lines().last().unwrap_or("")));
    }
    v
}

pub fn run(toks: &[&str]) -> Lines {
    let case_text = toks.join(" ");
    let c = parse_case(toks);
    let exe = std::env::current_exe().unwrap();
    let tmp = tempfile::tempdir().unwrap();
    let base = tmp.path().join("base");
    setup(&c, &base);
    let mut out: Lines = vec![];
    let mut why: Vec<String> = vec![];

    // the state before the operation
    let before = run_verify(&exe, &base, &case_text);
    let recs_before: BTreeSet<String> = before.iter().filter(|l| l.starts_with("rec ")).cloned().collect();
    for l in before.iter().filter(|l| l.contains(" BAD ") || l.starts_with("open ERR")) {
        why.push(format!("[C19] before the operation: {}", l));
    }
    let inputs: BTreeSet<String> = std::fs::read_dir(&base).unwrap().flatten().map(|e| e.file_name().to_string_lossy().to_string()).collect();
    // aux for the model: the shards in the directory, in modification-time order
    if c.kind == "consol" {
        let mut v: Vec<(std::time::SystemTime, String, Vec<u8>)> = inputs
            .iter()
            .filter(|n| is_shard_final(n))
            .map(|n| (std::fs::metadata(base.join(n)).unwrap().modified().unwrap(), n.clone(), std::fs::read(base.join(n)).unwrap()))
            .collect();
        v.sort();
        let parts: Vec<String> = v.iter().map(|(_, n, b)| format!("{}={}", n, hex(b))).collect();
        out.push(("aux", parts.join(" ")));
    }

    // 1. the full run: the effect trace
    let d0 = tmp.path().join("run0");
    copy_dir(&base, &d0);
    let log0 = tmp.path().join("log0");
    let (ok, err) = strace_child(&exe, &d0, &case_text, Some(&log0), None);
    if !ok {
        out.push(("obs", format!("child failed: {}", err.lines().last().unwrap_or(""))));
        out.push(("orc", "FAIL [C19] the operation itself failed in the child process".into()));
        return out;
    }
    if std::env::var("XV_CRASH_DEBUG").is_ok() {
        eprintln!("{}", std::fs::read_to_string(&log0).unwrap_or_default());
    }
    let log = parse_log(&std::fs::read_to_string(&log0).unwrap_or_default());
    let (eff, crash_points) = effects(&log, &d0, &inputs);
    // unlinks that follow each other are a set (HashSet iteration order in the cache's put)
    let mut eff_norm: Vec<String> = vec![];
    let mut run: Vec<String> = vec![];
    for e in eff {
        if e.starts_with("U:") && c.kind == "cput" {
            run.push(e);
        } else {
            run.sort();
            eff_norm.append(&mut run);
            eff_norm.push(e);
        }
    }
    run.sort();
    eff_norm.append(&mut run);
    if c.kind == "cput" && c.groups.len() > 2 {
        out.push(("obs", "trace (eviction: victims are random)".into()));
    } else {
        out.push(("obs", format!("trace {}", eff_norm.join(" "))));
    }
    let after = run_verify(&exe, &d0, &case_text);
    let judge = |lines: &[String], at: &str, why: &mut Vec<String>, strict_recs: bool| {
        for l in lines.iter().filter(|l| l.contains(" BAD ") || l.starts_with("open ERR") || l.contains("temp-left-after-scan")) {
            why.push(format!("[C19] {}: {}", at, l));
        }
        if strict_recs {
            let recs: BTreeSet<String> = lines.iter().filter(|l| l.starts_with("rec ")).cloned().collect();
            for r in recs_before.difference(&recs) {
                why.push(format!("[C19] {}: retrievable before the operation, not after: {}", at, r));
            }
        }
    };
    // a cache put under capacity pressure evicts on purpose: only the consistency half is judged there
    let strict = !(c.kind == "cput" && c.groups.len() > 2);
    judge(&after, "after the completed operation", &mut why, strict);

    // 2. a crash at the entry of every file-system call after the marker
    let mut points = 0;
    let mut reruns = 0;
    let mut second = 0;
    let two_level = std::env::var_os("XV_CRASH_TWO_LEVEL").is_some();
    for (i, cp) in crash_points.iter().enumerate() {
        let dn = tmp.path().join(format!("crash{}", i));
        copy_dir(&base, &dn);
        let (ok, _) = strace_child(&exe, &dn, &case_text, None, Some(cp));
        if ok {
            // the call count differed between the runs: the run simply completed
            let _ = std::fs::remove_dir_all(&dn);
            continue;
        }
        points += 1;
        let lines = run_verify(&exe, &dn, &case_text);
        judge(&lines, &format!("crash at the entry of file-system call {} of {} of the operation ({} #{})", i + 1, crash_points.len(), cp.0, cp.1), &mut why, strict);
        // 3. restart: the operation is run again on the directory the crash left behind ("after any prior history": an
        // interrupted run is such a history) -- to its end, and, with XV_CRASH_TWO_LEVEL set, with a second crash at the
        // entry of each of its file-system calls
        {
            let dr = tmp.path().join(format!("crash{}_again", i));
            copy_dir(&dn, &dr);
            let log2 = tmp.path().join(format!("log2_{}", i));
            let (ok2, err2) = strace_child(&exe, &dr, &case_text, if two_level { Some(&log2) } else { None }, None);
            let at = format!("the operation run again after a crash at the entry of file-system call {} of {} ({} #{})", i + 1, crash_points.len(), cp.0, cp.1);
            if !ok2 {
                why.push(format!("[C19] {} failed: {}", at, err2.lines().last().unwrap_or("")));
            } else {
                reruns += 1;
                let lines = run_verify(&exe, &dr, &case_text);
                judge(&lines, &at, &mut why, strict);
                if two_level {
                    let inputs2: BTreeSet<String> = std::fs::read_dir(&dn).unwrap().flatten().map(|e| e.file_name().to_string_lossy().to_string()).collect();
                    let l2 = parse_log(&std::fs::read_to_string(&log2).unwrap_or_default());
                    let (_, points2) = effects(&l2, &dr, &inputs2);
                    for (j, cp2) in points2.iter().enumerate() {
                        let d2 = tmp.path().join(format!("crash{}_{}", i, j));
                        copy_dir(&dn, &d2);
                        let (okj, _) = strace_child(&exe, &d2, &case_text, None, Some(cp2));
                        if !okj {
                            second += 1;
                            let lines = run_verify(&exe, &d2, &case_text);
                            judge(&lines, &format!("second crash at the entry of file-system call {} of {} ({} #{}) of {}", j + 1, points2.len(), cp2.0, cp2.1, at), &mut why, strict);
                        }
                        let _ = std::fs::remove_dir_all(&d2);
                    }
                }
            }
            let _ = std::fs::remove_dir_all(&dr);
        }
        let _ = std::fs::remove_dir_all(&dn);
    }
    out.push(("note", format!("crash points exercised: {} of {}; operation run again after a crash: {}; second-level crash points: {}", points, crash_points.len(), reruns, second)));
    if why.is_empty() {
        out.push(("orc", format!("ok points={}", points)));
    } else {
        for w in why {
            out.push(("orc", format!("FAIL {}", w)));
        }
    }
    out
}
