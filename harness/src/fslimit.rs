// A file-size limit for the duration of one call (RLIMIT_FSIZE with SIGXFSZ ignored, so that the write that crosses it fails
// with EFBIG instead of killing the process): the failure a full disk or a quota produces, placed at a chosen offset.
#[repr(C)]
struct RLimit {
    cur: u64,
    max: u64,
}

extern "C" {
    fn getrlimit(resource: i32, rlim: *mut RLimit) -> i32;
    fn setrlimit(resource: i32, rlim: *const RLimit) -> i32;
    fn signal(signum: i32, handler: usize) -> usize;
}

const RLIMIT_FSIZE: i32 = 1;
const SIGXFSZ: i32 = 25;
const SIG_IGN: usize = 1;

struct Restore(RLimit);
impl Drop for Restore {
    fn drop(&mut self) {
        unsafe {
            setrlimit(RLIMIT_FSIZE, &self.0);
        }
    }
}

pub fn with_file_size_limit<T>(limit: u64, f: impl FnOnce() -> T) -> T {
    unsafe {
        signal(SIGXFSZ, SIG_IGN);
        let mut old = RLimit { cur: 0, max: 0 };
        assert_eq!(getrlimit(RLIMIT_FSIZE, &mut old), 0);
        let new = RLimit { cur: limit, max: old.max };
        // the old limit comes back when the guard is dropped, also when f panics
        let _restore = Restore(old);
        assert_eq!(setrlimit(RLIMIT_FSIZE, &new), 0);
        f()
    }
}
