// C16: shards follow their xorbs, upload failures are never swallowed.  A wrapper around the real LocalClient logs the
// start and the end of every store call, fails chosen calls and delays others; real upload sessions run against it
// (through the guarded constructor).  Oracles: when a shard upload starts, every xorb its file records reference is
// in the store; a session whose calls all returned Ok had no failed store call and every file can be rebuilt.
use std::collections::{HashMap, HashSet};
use std::path::PathBuf;
use std::sync::{Arc, Mutex};
use std::time::Duration;

use async_trait::async_trait;
use cas_client::{CasClientError, Client, LocalClient, OutputProvider, ReconstructionClient, ShardClientInterface, UploadClient, VerifRegistrationClient, VerifShardDedupProber};
use cas_types::FileRange;
use data::configurations::*;
use data::{CacheConfig, FileDownloader, FileUploadSession, PointerFile};
use mdb_shard::file_structs::MDBFileInfo;
use mdb_shard::shard_file_reconstructor::FileReconstructor;
use mdb_shard::MDBShardInfo;
use merklehash::MerkleHash;
use utils::progress::ProgressUpdater;
use xet_threadpool::ThreadPool;

use crate::sess::content_of;
use crate::util::Lines;

#[derive(Default)]
struct Plan {
    // 1-based indices of the put / upload_shard calls that fail, and of the puts that are delayed (ms)
    fail_put: HashSet<usize>,
    fail_shard: HashSet<usize>,
    delay_put: HashMap<usize, u64>,
}

struct Faulty {
    inner: Arc<LocalClient>,
    plan: Plan,
    nput: Mutex<usize>,
    nshard: Mutex<usize>,
    log: Arc<Mutex<Vec<String>>>,
    stored: Arc<Mutex<HashSet<MerkleHash>>>,
    why: Arc<Mutex<Vec<String>>>,
}

#[async_trait]
impl UploadClient for Faulty {
    async fn put(&self, prefix: &str, hash: &MerkleHash, data: Vec<u8>, cb: Vec<(MerkleHash, u32)>) -> Result<usize, CasClientError> {
        let k = {
            let mut n = self.nput.lock().unwrap();
            *n += 1;
            *n
        };
        self.log.lock().unwrap().push(format!("put_start {}", k));
        if let Some(ms) = self.plan.delay_put.get(&k) {
            tokio::time::sleep(Duration::from_millis(*ms)).await;
        }
        if self.plan.fail_put.contains(&k) {
            self.log.lock().unwrap().push(format!("put_end {} err", k));
            return Err(CasClientError::Other(format!("injected failure of put #{}", k)));
        }
        let r = self.inner.put(prefix, hash, data, cb).await;
        if r.is_ok() {
            self.stored.lock().unwrap().insert(*hash);
        }
        self.log.lock().unwrap().push(format!("put_end {} {}", k, if r.is_ok() { "ok" } else { "err" }));
        r
    }
    async fn exists(&self, prefix: &str, hash: &MerkleHash) -> Result<bool, CasClientError> {
        self.inner.exists(prefix, hash).await
    }
}

#[async_trait]
impl ReconstructionClient for Faulty {
    async fn get_file(&self, hash: &MerkleHash, byte_range: Option<FileRange>, out: &OutputProvider, p: Option<Arc<dyn ProgressUpdater>>) -> Result<u64, CasClientError> {
        self.inner.get_file(hash, byte_range, out, p).await
    }
}

#[async_trait]
impl VerifRegistrationClient for Faulty {
    async fn upload_shard(&self, prefix: &str, hash: &MerkleHash, force_sync: bool, shard_data: &[u8], salt: &[u8; 32]) -> Result<bool, CasClientError> {
        let k = {
            let mut n = self.nshard.lock().unwrap();
            *n += 1;
            *n
        };
        self.log.lock().unwrap().push(format!("shard_start {}", k));
        // the ordering oracle: every xorb named by a file record of this shard is in the store now
        if let Ok(info) = MDBShardInfo::load_from_reader(&mut std::io::Cursor::new(shard_data)) {
            if let Ok(files) = info.read_all_file_info_sections(&mut std::io::Cursor::new(shard_data)) {
                let stored = self.stored.lock().unwrap().clone();
                for f in files {
                    for s in &f.segments {
                        let here = stored.contains(&s.cas_hash) || self.inner.exists("default", &s.cas_hash).await.unwrap_or(false);
                        if !here {
                            self.why.lock().unwrap().push(format!(
                                "[C16] shard upload #{} starts while xorb {} referenced by file {} is not stored",
                                k,
                                &s.cas_hash.hex()[..12],
                                &f.metadata.file_hash.hex()[..12]
                            ));
                        }
                    }
                }
            }
        }
        if self.plan.fail_shard.contains(&k) {
            self.log.lock().unwrap().push(format!("shard_end {} err", k));
            return Err(CasClientError::Other(format!("injected failure of upload_shard #{}", k)));
        }
        let r = self.inner.upload_shard(prefix, hash, force_sync, shard_data, salt).await;
        self.log.lock().unwrap().push(format!("shard_end {} {}", k, if r.is_ok() { "ok" } else { "err" }));
        r
    }
}

#[async_trait]
impl FileReconstructor<CasClientError> for Faulty {
    async fn get_file_reconstruction_info(&self, h: &MerkleHash) -> Result<Option<(MDBFileInfo, Option<MerkleHash>)>, CasClientError> {
        self.inner.get_file_reconstruction_info(h).await
    }
}

#[async_trait]
impl VerifShardDedupProber for Faulty {
    async fn query_for_global_dedup_shard(&self, prefix: &str, chunk_hash: &MerkleHash, salt: &[u8; 32]) -> Result<Option<PathBuf>, CasClientError> {
        self.inner.query_for_global_dedup_shard(prefix, chunk_hash, salt).await
    }
}

impl ShardClientInterface for Faulty {}
impl Client for Faulty {}

fn config(base: &std::path::Path, salt: u8) -> Arc<TranslatorConfig> {
    config_with(base, salt, false)
}

fn config_with(base: &std::path::Path, salt: u8, dry_remote: bool) -> Arc<TranslatorConfig> {
    let path = base.join("xet");
    std::fs::create_dir_all(&path).unwrap();
    Arc::new(TranslatorConfig {
        data_config: DataConfig {
            endpoint: if dry_remote { Endpoint::Server("http://127.0.0.1:9".into()) } else { Endpoint::FileSystem(path.join("xorbs")) },
            compression: Default::default(),
            auth: None,
            prefix: "default".into(),
            cache_config: CacheConfig { cache_directory: path.join("cache"), cache_size: 1 << 30 },
            staging_directory: None,
        },
        shard_config: ShardConfig {
            prefix: "default".into(),
            cache_directory: path.join("shard-cache"),
            session_directory: path.join("shard-session"),
            global_dedup_policy: if dry_remote { data::configurations::GlobalDedupPolicy::Never } else { Default::default() },
            repo_salt: [salt; 32],
        },
        repo_info: Some(RepoInfo { repo_paths: vec!["".into()] }),
    })
}

// case: `S fp=<i,j> fs=<i> dp=<i:ms,..> | f <name> <recipe> | ... | E` repeated per session
pub fn run(toks: &[&str]) -> Lines {
    let ops: Vec<Vec<String>> = crate::shard::split_ops(toks).iter().map(|o| o.iter().map(|s| s.to_string()).collect()).collect();
    let tp = Arc::new(ThreadPool::new().unwrap());
    let base = tempfile::tempdir().unwrap();
    let base_path = base.path().to_path_buf();
    let tp2 = tp.clone();
    tp.external_run_async_task(async move { run_async(ops, base_path, tp2).await }).unwrap()
}

async fn run_async(ops: Vec<Vec<String>>, base: PathBuf, tp: Arc<ThreadPool>) -> Lines {
    let mut out: Lines = vec![];
    let why: Arc<Mutex<Vec<String>>> = Arc::new(Mutex::new(vec![]));
    let mut cfg = config(&base, 0);
    let mut session: Option<Arc<FileUploadSession>> = None;
    let mut client: Option<Arc<Faulty>> = None;
    let mut errors: Vec<String> = vec![];
    let mut files: Vec<(String, Vec<u8>, String, u64)> = vec![];
    let mut ns = 0;
    for op in &ops {
        match op[0].as_str() {
            "S" => {
                if op.get(1).map(|x| x.as_str()) == Some("dry") {
                    // a dry-run session (as the migration tool runs them) against a remote endpoint that is never contacted: it must
                    // leave nothing behind that a later session could deduplicate against
                    let c = config_with(&base, 0, true);
                    client = None;
                    errors.clear();
                    files.clear();
                    session = FileUploadSession::dry_run(c, tp.clone(), None).await.ok();
                    continue;
                }
                let mut plan = Plan::default();
                for t in &op[1..] {
                    let (k, v) = t.split_once('=').unwrap();
                    if k == "salt" {
                        // another repository salt: the same bytes get another file hash, while their chunks are known
                        cfg = config(&base, v.parse().unwrap());
                        continue;
                    }
                    for x in v.split(',').filter(|x| !x.is_empty() && *x != "-") {
                        match k {
                            "fp" => {
                                plan.fail_put.insert(x.parse().unwrap());
                            },
                            "fs" => {
                                plan.fail_shard.insert(x.parse().unwrap());
                            },
                            _ => {
                                let (i, ms) = x.split_once(':').unwrap();
                                plan.delay_put.insert(i.parse().unwrap(), ms.parse().unwrap());
                            },
                        }
                    }
                }
                let inner = Arc::new(LocalClient::new(base.join("xet/xorbs"), None).unwrap());
                let c = Arc::new(Faulty { inner, plan, nput: Mutex::new(0), nshard: Mutex::new(0), log: Arc::new(Mutex::new(vec![])), stored: Arc::new(Mutex::new(HashSet::new())), why: why.clone() });
                client = Some(c.clone());
                errors.clear();
                files.clear();
                session = Some(FileUploadSession::new_with_client(cfg.clone(), tp.clone(), c).await.unwrap());
            },
            "f" => {
                let Some(s) = session.clone() else { continue };
                let content = content_of(&op[2]);
                let mut cl = s.start_clean(op[1].clone());
                let mut failed = false;
                for piece in content.chunks(5000) {
                    if let Err(e) = cl.add_data(piece).await {
                        errors.push(format!("add_data({}): {:?}", op[1], e));
                        failed = true;
                        break;
                    }
                }
                if !failed {
                    match cl.finish().await {
                        Ok((pf, _)) => files.push((op[1].clone(), content, pf.hash_string().clone(), pf.filesize())),
                        Err(e) => errors.push(format!("finish({}): {:?}", op[1], e)),
                    }
                }
            },
            "E" => {
                let Some(s) = session.take() else { continue };
                let Some(c) = client.take() else {
                    // the dry run: finalized, judged by what the sessions after it do
                    let _ = s.finalize().await;
                    files.clear();
                    errors.clear();
                    continue;
                };
                let fin = s.finalize().await;
                if let Err(e) = &fin {
                    errors.push(format!("finalize: {:?}", e));
                }
                // let stragglers (delayed puts of a failed session) finish before the log is read
                tokio::time::sleep(Duration::from_millis(60)).await;
                let log = c.log.lock().unwrap().clone();
                let failed_calls: Vec<&String> = log.iter().filter(|l| l.ends_with(" err")).collect();
                let shard_started = log.iter().any(|l| l.starts_with("shard_start"));
                let nput = log.iter().filter(|l| l.starts_with("put_start")).count();
                let put_failed = log.iter().any(|l| l.starts_with("put_end") && l.ends_with(" err"));
                out.push(("obs", format!("E{} put_failed={} shard_started={} success={}", ns, put_failed, shard_started, errors.is_empty())));
                out.push(("aux", format!("E{}: {}", ns, log.join(" ; "))));
                let _ = nput;
                out.push(("note", format!("E{} log: {}", ns, log.join(" ; "))));
                out.push(("note", format!("E{} errors: {:?} ; finished files: {:?}", ns, errors, files.iter().map(|f| format!("{}={}", f.0, &f.2[..12])).collect::<Vec<_>>())));
                // no swallowed failure
                if errors.is_empty() && !failed_calls.is_empty() {
                    why.lock().unwrap().push(format!("[C16] session {}: every session call returned Ok although store calls failed: {:?}", ns, failed_calls));
                }
                // a failed xorb upload never lets a shard upload start
                if log.iter().any(|l| l.starts_with("put_end") && l.ends_with(" err")) && shard_started {
                    why.lock().unwrap().push(format!("[C16] session {}: a shard upload started although a xorb upload had failed: {}", ns, log.join(" ; ")));
                }
                // a session that reports success leaves every file reconstructible
                if errors.is_empty() {
                    for (name, content, hash, size) in &files {
                        let outp = base.join(format!("dl_{}_{}", ns, name));
                        let dl = FileDownloader::new(cfg.clone(), tp.clone()).await;
                        let r = match dl {
                            Ok(d) => d.smudge_file_from_pointer(&PointerFile::init_from_info(name, hash, *size), &OutputProvider::File(cas_client::FileProvider::new(outp.clone())), None, None).await.map(|_| ()),
                            Err(e) => Err(e),
                        };
                        let got = std::fs::read(&outp).unwrap_or_default();
                        if r.is_err() || &got != content {
                            why.lock().unwrap().push(format!("[C16] session {} reported success but file {} cannot be rebuilt from the store ({:?}, {} of {} bytes)", ns, name, r.err(), got.len(), content.len()));
                        }
                    }
                }
                ns += 1;
            },
            _ => {},
        }
    }
    let aux: Vec<String> = out.iter().filter(|x| x.0 == "aux").map(|x| x.1.clone()).collect();
    out.retain(|x| x.0 != "aux");
    out.push(("aux", aux.join(" || ")));
    let w = why.lock().unwrap().clone();
    if w.is_empty() {
        out.push(("orc", "ok".into()));
    } else {
        for x in w {
            out.push(("orc", format!("FAIL {}", x)));
        }
    }
    out
}
