// C20: singleflight.  A script of caller arrivals and task outcomes is run against the real `Group::work` on a
// current-thread and on a multi-thread runtime.  Every supplied task is gated: it logs its start, waits until the script
// releases it with an outcome (value, error, panic), logs its end.  The log (arrive / start / end / ret, in real-time
// order under one mutex) is judged by direct oracles and handed to the model, which must accept it as one of its runs.
use std::collections::HashMap;
use std::sync::{Arc, Mutex};
use std::time::Duration;

use utils::singleflight::{Group, SingleflightError};

use crate::util::Lines;

#[derive(Clone, Debug)]
enum Out {
    Val(u64),
    Err(u64),
    Panic,
}

fn res_str(r: &Result<u64, SingleflightError<String>>) -> String {
    match r {
        Ok(v) => format!("val:{}", v),
        Err(SingleflightError::InternalError(e)) => format!("internal:{}", e),
        Err(SingleflightError::WaiterInternalError(e)) => format!("waitererr:{}", e.trim_matches('"')),
        Err(SingleflightError::JoinError(_)) => "joinerr".into(),
        Err(SingleflightError::OwnerPanicked) => "ownerpanicked".into(),
        Err(SingleflightError::NoResult) => "noresult".into(),
        Err(SingleflightError::CallMissing) => "callmissing".into(),
        Err(e) => format!("other:{:?}", e),
    }
}

async fn run_script(ops: Vec<Vec<String>>, multi: bool) -> (Vec<String>, Vec<String>) {
    let log: Arc<Mutex<Vec<String>>> = Arc::new(Mutex::new(vec![]));
    let group: Arc<Group<u64, String>> = Arc::new(Group::new());
    let mut gates: HashMap<usize, tokio::sync::watch::Sender<Option<Out>>> = HashMap::new();
    let mut handles: Vec<(usize, tokio::task::JoinHandle<()>)> = vec![];
    let pause = |n: usize| async move {
        if multi {
            tokio::time::sleep(Duration::from_micros(200 * n as u64)).await;
        } else {
            for _ in 0..n {
                tokio::task::yield_now().await;
            }
        }
    };
    for op in &ops {
        match op[0].as_str() {
            "A" => {
                let c: usize = op[1].parse().unwrap();
                let k = op[2].clone();
                // `A c k auto:<o>`: the task is not gated, it finishes on its own after one yield
                let auto = op.get(3).map(|a| match a.as_str() {
                    "auto:v" => Out::Val(1000 + c as u64),
                    "auto:p" => Out::Panic,
                    a => Out::Err(a.trim_start_matches("auto:e").parse().unwrap_or(1)),
                });
                let (tx, mut rx) = tokio::sync::watch::channel::<Option<Out>>(auto.clone());
                gates.insert(c, tx);
                let (log1, log2, g) = (log.clone(), log.clone(), group.clone());
                let fut = async move {
                    log1.lock().unwrap().push(format!("start {}", c));
                    if auto.is_some() {
                        tokio::task::yield_now().await;
                    }
                    let o = loop {
                        if let Some(o) = rx.borrow().clone() {
                            break o;
                        }
                        if rx.changed().await.is_err() {
                            break Out::Val(1000 + c as u64);
                        }
                    };
                    log1.lock().unwrap().push(format!("end {} {}", c, match &o { Out::Val(v) => format!("val:{}", v), Out::Err(e) => format!("err:{}", e), Out::Panic => "panic".into() }));
                    match o {
                        Out::Val(v) => Ok(v),
                        Out::Err(e) => Err(format!("{}", e)),
                        Out::Panic => panic!("task panics on purpose"),
                    }
                };
                handles.push((c, tokio::spawn(async move {
                    log2.lock().unwrap().push(format!("arrive {} {}", c, k));
                    let (r, owner) = g.work(&k, fut).await;
                    log2.lock().unwrap().push(format!("ret {} {} {}", c, res_str(&r), owner));
                })));
            },
            "F" => {
                let c: usize = op[1].parse().unwrap();
                let o = match op[2].as_str() {
                    "v" => Out::Val(1000 + c as u64),
                    "e" => Out::Err(op[3].parse().unwrap()),
                    _ => Out::Panic,
                };
                if let Some(tx) = gates.get(&c) {
                    let _ = tx.send(Some(o));
                }
            },
            "Y" => pause(op[1].parse().unwrap()).await,
            // every caller spawned so far has logged its arrival (and, a moment later, registered with its call)
            "Q" => {
                let want = handles.len();
                for _ in 0..20000 {
                    if log.lock().unwrap().iter().filter(|l| l.starts_with("arrive ")).count() >= want {
                        break;
                    }
                    pause(1).await;
                }
                pause(50).await;
            },
            _ => panic!("sf op"),
        }
    }
    // release every task that is still gated, then wait for the callers
    pause(3).await;
    for (c, tx) in gates.iter() {
        if tx.borrow().is_none() {
            let _ = tx.send(Some(Out::Val(1000 + *c as u64)));
        }
    }
    // one deadline for all callers: 3 s after every task was released (plus 1 s per 10000 callers of a wide flight)
    let mut hung = vec![];
    let deadline = tokio::time::Instant::now() + Duration::from_secs(3) + Duration::from_millis(handles.len() as u64 / 10);
    for (c, h) in handles {
        match tokio::time::timeout_at(deadline, h).await {
            Ok(_) => {},
            Err(_) => {
                if hung.len() < 5 {
                    hung.push(format!("caller {} did not return within 3 s after every task was released", c));
                }
            },
        }
    }
    let l = log.lock().unwrap().clone();
    (l, hung)
}

fn judge(log: &[String], hung: &[String], why: &mut Vec<String>, flavour: &str) {
    // positions of the events
    let mut arrive: HashMap<usize, (usize, String)> = HashMap::new();
    let mut start: HashMap<usize, usize> = HashMap::new();
    let mut end: HashMap<usize, (usize, String)> = HashMap::new();
    let mut ret: HashMap<usize, (usize, String, bool)> = HashMap::new();
    for (i, l) in log.iter().enumerate() {
        let t: Vec<&str> = l.split(' ').collect();
        let c: usize = t[1].parse().unwrap();
        match t[0] {
            "arrive" => {
                arrive.insert(c, (i, t[2].to_string()));
            },
            "start" => {
                if start.insert(c, i).is_some() {
                    why.push(format!("[C20] {}: the task supplied by caller {} was started twice", flavour, c));
                }
            },
            "end" => {
                end.insert(c, (i, t[2].to_string()));
            },
            _ => {
                ret.insert(c, (i, t[2].to_string(), t[3] == "true"));
            },
        }
    }
    for h in hung {
        why.push(format!("[C20] {}: {}", flavour, h));
    }
    for (c, (ri, r, owner)) in &ret {
        let key = &arrive[c].1;
        // owner <=> the caller's own task ran
        if *owner != start.contains_key(c) {
            why.push(format!("[C20] {}: caller {} reports owner={} but its task {}", flavour, c, owner, if start.contains_key(c) { "was executed" } else { "was never executed" }));
        }
        // the result is the outcome of an executed task of the same key whose flight overlaps the call
        let mut ok = false;
        for (o, (ei, out)) in &end {
            if &arrive[o].1 != key {
                continue;
            }
            let want = match (out.as_str(), o == c) {
                (v, _) if v.starts_with("val:") => v.to_string(),
                (e, _) if e.starts_with("err:") => format!("waitererr:{}", &e[4..]),
                ("panic", true) => "joinerr".to_string(),
                _ => "ownerpanicked".to_string(),
            };
            // the flight of task o: from o's arrival to o's return; the call of c must overlap it, and the task must have ended before c returned
            let o_ret = ret.get(o).map(|x| x.0).unwrap_or(usize::MAX);
            if *r == want && arrive[c].0 < o_ret && *ei < *ri && arrive[o].0 <= *ri {
                ok = true;
            }
        }
        if !ok {
            why.push(format!("[C20] {}: caller {} (key {}) returned {} which is not the outcome of a task of its flight", flavour, c, key, r));
        }
    }
    // executions of tasks of one key never overlap
    let mut by_key: HashMap<String, Vec<(usize, usize, usize)>> = HashMap::new();
    for (c, si) in &start {
        let ei = end.get(c).map(|x| x.0).unwrap_or(usize::MAX);
        by_key.entry(arrive[c].1.clone()).or_default().push((*si, ei, *c));
    }
    for (k, mut v) in by_key {
        v.sort();
        for w in v.windows(2) {
            if w[1].0 < w[0].1 {
                why.push(format!("[C20] {}: two tasks of key {} ran at the same time (callers {} and {})", flavour, k, w[0].2, w[1].2));
            }
        }
    }
}

// `B <probers> <hammers> <calls>`: back-to-back calls under contention.  Each prober is the only caller of its key and makes
// <calls> calls one after the other, every call with a task that returns the call's own number; meanwhile <hammers> tasks keep
// calling on keys of their own, so that the group's map is contended when an owner finishes.  A call made after the owning call
// of a finished flight has returned starts a new flight: call i must return i (its own task ran), never the value of call i-1.
fn run_back_to_back(probers: usize, hammers: usize, calls: usize) -> Vec<String> {
    let mut why = vec![];
    for (flavour, workers) in [("current-thread", 0usize), ("multi-thread", 8usize)] {
        let rt = if workers > 0 {
            tokio::runtime::Builder::new_multi_thread().worker_threads(workers).enable_all().build().unwrap()
        } else {
            tokio::runtime::Builder::new_current_thread().enable_all().build().unwrap()
        };
        let bad: Arc<Mutex<Vec<String>>> = Arc::new(Mutex::new(vec![]));
        rt.block_on(async {
            let group: Arc<Group<u64, String>> = Arc::new(Group::new());
            let stop = Arc::new(std::sync::atomic::AtomicBool::new(false));
            let mut hs = vec![];
            for h in 0..hammers {
                let (g, stop) = (group.clone(), stop.clone());
                hs.push(tokio::spawn(async move {
                    let mut i = 0u64;
                    while !stop.load(std::sync::atomic::Ordering::Relaxed) {
                        let _ = g.work(&format!("h{}_{}", h, i % 3), async move { Ok::<u64, String>(i) }).await;
                        i += 1;
                        if i % 64 == 0 {
                            tokio::task::yield_now().await;
                        }
                    }
                }));
            }
            let mut ps = vec![];
            for p in 0..probers {
                let (g, bad) = (group.clone(), bad.clone());
                ps.push(tokio::spawn(async move {
                    let key = format!("p{}", p);
                    for i in 0..calls as u64 {
                        let ran = Arc::new(std::sync::atomic::AtomicBool::new(false));
                        let ran2 = ran.clone();
                        let (r, _owner) = g
                            .work(&key, async move {
                                ran2.store(true, std::sync::atomic::Ordering::SeqCst);
                                Ok::<u64, String>(i)
                            })
                            .await;
                        let ok = matches!(&r, Ok(v) if *v == i) && ran.load(std::sync::atomic::Ordering::SeqCst);
                        if !ok {
                            let mut b = bad.lock().unwrap();
                            if b.len() < 3 {
                                b.push(format!("call {} on key {} (its only caller, made after call {} had returned) returned {} and its task {}", i, key, i.saturating_sub(1), res_str(&r), if ran.load(std::sync::atomic::Ordering::SeqCst) { "ran" } else { "never ran" }));
                            }
                        }
                    }
                }));
            }
            for p in ps {
                if tokio::time::timeout(Duration::from_secs(60), p).await.is_err() {
                    bad.lock().unwrap().push("a back-to-back caller did not finish within 60 s".into());
                }
            }
            stop.store(true, std::sync::atomic::Ordering::Relaxed);
            for h in hs {
                let _ = tokio::time::timeout(Duration::from_secs(10), h).await;
            }
        });
        rt.shutdown_timeout(Duration::from_millis(100));
        for b in bad.lock().unwrap().iter() {
            why.push(format!("[C20] {}: {}", flavour, b));
        }
    }
    why
}

pub fn run(toks: &[&str]) -> Lines {
    let ops: Vec<Vec<String>> = crate::shard::split_ops(toks).iter().map(|o| o.iter().map(|s| s.to_string()).collect()).collect();
    let mut out: Lines = vec![];
    let mut why = vec![];
    if ops.first().map(|o| o[0] == "B").unwrap_or(false) {
        let o = &ops[0];
        let w = run_back_to_back(o[1].parse().unwrap(), o[2].parse().unwrap(), o[3].parse().unwrap());
        out.push(("obs", format!("back-to-back {} {} {}", o[1], o[2], o[3])));
        if w.is_empty() {
            out.push(("orc", "ok".into()));
        } else {
            for x in w {
                out.push(("orc", format!("FAIL {}", x)));
            }
        }
        return out;
    }
    // silence the intended panics of gated tasks
    std::panic::set_hook(Box::new(|_| {}));
    // `X n` as the first op: the script is repeated n times on the multi-thread runtime (races in narrow windows)
    let reps: usize = ops.first().filter(|o| o[0] == "X").map(|o| o[1].parse().unwrap()).unwrap_or(1);
    let ops: Vec<Vec<String>> = ops.into_iter().filter(|o| o[0] != "X").collect();
    // `W n k`: n callers arrive on key k one after the other (callers numbered from the current count); a wide flight.  The
    // log of a wide script is judged by the oracles only (it is not handed to the model).
    let wide = ops.iter().any(|o| o[0] == "W");
    let ops: Vec<Vec<String>> = {
        let mut v: Vec<Vec<String>> = vec![];
        let mut next = 0usize;
        for o in ops {
            if o[0] == "W" {
                let n: usize = o[1].parse().unwrap();
                for _ in 0..n {
                    v.push(vec!["A".into(), next.to_string(), o[2].clone()]);
                    next += 1;
                }
            } else {
                if o[0] == "A" {
                    next = next.max(o[1].parse::<usize>().unwrap() + 1);
                }
                v.push(o);
            }
        }
        v
    };
    for (flavour, multi) in [("current-thread", false), ("multi-thread", true)] {
        let rt = if multi {
            tokio::runtime::Builder::new_multi_thread().worker_threads(4).enable_all().build().unwrap()
        } else {
            tokio::runtime::Builder::new_current_thread().enable_all().build().unwrap()
        };
        let n = if multi { reps } else { 1 };
        let mut shown = 0;
        for i in 0..n {
            let (log, hung) = rt.block_on(run_script(ops.clone(), multi));
            let before = why.len();
            judge(&log, &hung, &mut why, flavour);
            // the model judges the first two runs and every run the oracles reject
            if shown < 2 || why.len() > before {
                shown += 1;
                let name = if n > 1 { format!("{}#{}", flavour, i) } else { flavour.to_string() };
                if wide {
                    out.push(("obs", format!("{} {} events", name, log.len())));
                } else if why.len() == before || shown <= 2 {
                    out.push(("obs", format!("{} accepted", name)));
                    out.push(("aux", format!("{}: {}", name, log.join(" ; "))));
                }
            }
            if why.len() > before + 3 {
                break;
            }
        }
        rt.shutdown_timeout(Duration::from_millis(100));
    }
    let _ = std::panic::take_hook();
    // main.rs joins the aux lines of a case: keep them on one line
    let aux: Vec<String> = out.iter().filter(|x| x.0 == "aux").map(|x| x.1.clone()).collect();
    out.retain(|x| x.0 != "aux");
    out.push(("aux", aux.join(" || ")));
    if why.is_empty() {
        out.push(("orc", "ok".into()));
    } else {
        for w in why {
            out.push(("orc", format!("FAIL {}", w)));
        }
    }
    out
}
