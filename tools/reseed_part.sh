#!/bin/bash
# usage (through `vp run --with-repo -- tools/reseed_part.sh K N`): runs the kept seeded changes number K, K+N, K+2N, ... against the
# quick check of their property, in this snapshot of /verif and against the snapshot of /repo in $VP_RUN_REPO (the harness's
# path dependencies are redirected to it), so that /repo itself stays untouched.  One line per seed.  RESEED_ONLY="C01 C14" restricts
# the run to the seeds of those properties.
K=${1:-0}; N=${2:-1}
cd "$(dirname "$0")/.."
R=${VP_RUN_REPO:?needs --with-repo}
export XV_REPO=$R
sed -i "s#path = \"/repo/#path = \"$R/#" harness/Cargo.toml
./setup.sh > reseed_setup.log 2>&1
i=0
for d in /verif/seeded/*/; do
  if [ $((i % N)) -eq $K ]; then
    i=$((i+1))
    id=$(basename $d); P=${id%%-*}
    if [ -n "$RESEED_ONLY" ] && ! echo " $RESEED_ONLY " | grep -q " $P "; then continue; fi
    ( cd $R && git apply $d/patch.diff ) || { echo "$id PATCH-DOES-NOT-APPLY"; continue; }
    out=$(./check $P --tier quick 2>&1 | grep -E "^VIOLATION|\[check\] C")
    ( cd $R && git checkout -q -- . )
    if echo "$out" | grep -q "^VIOLATION"; then
      if echo "$out" | grep "^VIOLATION" | grep -q "no-failing-input-found"; then echo "$id DETECTED (no failing input)"; else echo "$id DETECTED"; fi
    else echo "$id MISSED: $(echo "$out" | tail -1 | cut -c1-160)"; fi
  else i=$((i+1)); fi
done
echo PART-DONE $K
