#!/usr/bin/env python3
"""Regenerate MANIFEST.json from the table below (kept in one place so it stays valid)."""
import json, os, subprocess
ROOT = os.path.dirname(os.path.dirname(os.path.abspath(__file__)))
TECH = "machine-checked proof in Coq 8.16 of an executable Gallina model; constants/guards regenerated from source by a translator; differential correspondence (extracted OCaml model vs. real crates) + independent direct oracle"
NOTE = "Trusted: Coq kernel (+vm_compute), translator (fails closed), extraction (ExtrOcamlBasic only), OCaml driver, Rust harness; "
CHECKS = {
 "C04": ("Coq theorems over an executable model of Chunker::{new,next,next_block,finish} for all byte streams, call partitions and accepted targets: the literal transcription equals a byte-at-a-time machine, which equals the closed-form reference gear rule; concatenation, partition invariance, locality and size bounds follow. Tie: constants and guard expressions regenerated from the source on every run; correspondence of chunk boundaries on generated streams/partitions; independent reference-rule oracle in the harness.",
         NOTE + "gearhash SIMD==scalar and BLAKE3 chunk hash checked by correspondence/oracle only.", "DESIGN.md 6 C04"),
 "C06": ("Coq theorems: validators' aggregation path == uploader's cas_node_hash for every interior hash function; HashedWrite hashes exactly the accepted bytes for every writer behaviour (fact regenerated from the source); hex round-trip/injectivity; single-chunk boundary fact; pinned values of an independent Gallina BLAKE3. Tie: keys, cut rule and formats regenerated from source; correspondence of every hash function, text form and HashedWrite script against the real crates; inequality oracle on mutated chunk lists.",
         NOTE + "blake3/base64 crates tied to the Gallina implementations by correspondence only; no collision-freeness assumed.", "DESIGN.md 6 C06"),
 "C09": ("Coq theorems: every record codec generated from the Rust serialize/deserialize call sequences round-trips; file and xorb records (all flag combinations, any number of entries) and whole sections parse back to exactly the records that were serialised, for any number of records. Tie: codecs, tags, versions and the statements of the interpolation search regenerated/pinned from source; correspondence of serialised bytes, size accounting, scans and every lookup on generated shards (clustered/dense/extreme/prefix-sharing keys, tables above the read window); direct oracle: stored keys found exactly, absent keys not found, three readers agree, totals exact. Search correctness for every probe oracle is modelled and exercised; its Coq proof is not yet part of this revision (stated in DESIGN.md).",
         NOTE + "BTreeMap/HashMap as association lists; f64 probe replaced by exact rationals in the executable model (results do not depend on the probe).", "DESIGN.md 6 C09"),
 "C05": ("Coq theorems: the direct dedup query is truthful for every block, hint and query sequence (1<=n<=|qs|, range inside the named xorb, hashes equal directly or under the HMAC key, byte count = sum of lengths); the byte-level query the correspondence executes equals the record-level one whenever the hinted position holds a serialised well-formed block; the in-memory index is truthful whatever its hash map points at. Tie: correspondence of in-memory, on-disk and keyed-export answers (membership in the model's candidate set where the sort is unstable) + truthfulness oracle on every answer, incl. real ShardFileManager histories (add/flush/keyed export/re-open/consolidate).",
         NOTE + "manager bookkeeping (collections, u16 narrowing, mtime order) covered by the oracle and by 'every answer comes from the direct query'.", "DESIGN.md 6 C05"),
 "C10": ("Coq theorems on the record-level union/difference walks: key set of the union = union of key sets (files and xorbs); no record is invented (every output record is an input record or the stated merge of two same-key records); difference returns only records of the second input (the 'not in the first' half needs sortedness and is not proved in this revision). Tie: output bytes of shard_set_union/shard_set_difference and of MDBInMemoryShard::union/difference compared with the model on generated pairs (all 4x4 flag pairs, prefix collisions, empty/identical/subsumed); oracle re-reads every output (key sets, records, lookup tables, totals, size accounting) and checks directory consolidation on real directories.",
         NOTE + "directory consolidation checked by oracle only.", "DESIGN.md 6 C10"),
 "C18": ("Coq theorems: keyed blocks keep headers/lengths/offsets and replace every chunk hash by keyed(key,h) (identity for the zero key, HMAC otherwise); the exported CAS section scans back to exactly the keyed blocks; no raw chunk hash survives unless an explicit HMAC coincidence is exhibited; unkeyed dedup queries against the keyed block answer exactly as against the original or an explicit HMAC collision is exhibited; expiry rules (regenerated from the source) for all orderings of now/expiry/grace. Tie: exported bytes for all 8 include-flag triples x keys compared byte-for-byte with the model (timestamps zeroed); oracle characterises every export, compares manager answers original vs export, and checks expiry on shards with explicit footer times.",
         NOTE + "wall clock outside the model; manager-level equivalence by oracle.", "DESIGN.md 6 C18"),
}
ALL = ["C%02d" % i for i in range(1, 21)]
def main():
    commits = subprocess.run(["git", "-C", "/repo", "log", "--format=%h %s"], stdout=subprocess.PIPE).stdout.decode().split("\n")
    hooks = [c.split(" ")[0] for c in commits if "xet_verif" in c or c.split(" ", 1)[-1].startswith("verif hook")]
    m = {"version": 1, "setup_cmd": "./setup.sh",
         "hooks": {"guard": "xet_verif", "enable": "RUSTFLAGS=\"--cfg xet_verif\" (set by lib/core.py when building /verif/harness against /repo)",
                   "baseline_off_cmd": "cd /repo && cargo test --workspace --no-fail-fast --offline", "source_commits": hooks, "add_only": True},
         "engines": [{"name": "XetModel", "path": "/verif/coq", "serves_properties": sorted(CHECKS),
                      "kind_free_text": "Coq 8.16.1 development: executable Gallina models (Model/), proofs (Proofs/), property theorems (Props/), facts regenerated from /repo by /verif/translate; correspondence via extracted OCaml (/verif/ocaml) against the Rust harness (/verif/harness)"}],
         "checks": [], "notes": "See DESIGN.md. Every check: ./check <id> --tier quick|thorough; replay: ./check <id> --replay <file>.", "not_applicable": []}
    for pid in ALL:
        if pid in CHECKS:
            text, note, ref = CHECKS[pid]
            m["checks"].append({"property_id": pid, "quick_cmd": "./check %s --tier quick" % pid, "thorough_cmd": "./check %s --tier thorough" % pid,
                                "evidence_file": "/verif/evidence/%s.json" % pid, "replay_cmd_template": "./check %s --replay {path}" % pid, "engine": "XetModel",
                                "level_claimed": {"category": "proof", "text": text, "design_ref": ref}, "level_note": note, "technique": TECH})
        else:
            m["not_applicable"].append({"property_id": pid, "reason": "not yet built in this revision (work in progress; see DESIGN.md section 11 build order) -- no check is claimed"})
    json.dump(m, open(os.path.join(ROOT, "MANIFEST.json"), "w"), indent=1)
main()
