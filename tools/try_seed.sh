#!/bin/bash
# usage: try_seed.sh <Cxx> <patch.diff> [tier]  -- apply a seeded change to /repo, run the check, undo it
P=$1; PATCH=$2; TIER=${3:-quick}
cd /repo && git apply $PATCH || { echo "patch does not apply"; exit 2; }
cd /verif && ./check $P --tier $TIER 2>&1 | grep -E "VIOLATION|KNOWN|\[check\] C|ERROR" | cut -c1-300
rc=${PIPESTATUS[0]}
cd /repo && git checkout -- . && git status --short | head -3
exit $rc
