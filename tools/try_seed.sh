#!/bin/bash
# usage: try_seed.sh <Cxx> <patch.diff> [tier]  -- apply a seeded change to /repo, run the check, undo it.
# The evidence file of the property is saved and restored: committed evidence must come from the unchanged tree.
P=$1; PATCH=$2; TIER=${3:-quick}
cp /verif/evidence/$P.json /var/tmp/evidence_$P.json.keep 2>/dev/null
cd /repo && git apply $PATCH || { echo "patch does not apply"; exit 2; }
cd /verif && ./check $P --tier $TIER 2>&1 | grep -E "VIOLATION|KNOWN|\[check\] C|ERROR" | cut -c1-300
rc=${PIPESTATUS[0]}
cd /repo && git checkout -- . && git status --short | head -3
cp /var/tmp/evidence_$P.json.keep /verif/evidence/$P.json 2>/dev/null; rm -f /var/tmp/evidence_$P.json.keep
exit $rc
