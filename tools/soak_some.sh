#!/bin/bash
# usage: soak_some.sh "<C01 C08 ...>" <first seed> <last seed> [tier]  -- like soak.sh, for the named checks only
PS=$1; A=${2:-2}; B=${3:-3}; TIER=${4:-quick}
cd "$(dirname "$0")/.."
if [ -n "$VP_RUN_REPO" ]; then export XV_REPO=$VP_RUN_REPO; sed -i "s#path = \"/repo/#path = \"$VP_RUN_REPO/#" harness/Cargo.toml; fi
./setup.sh > soak_setup.log 2>&1
for s in $(seq $A $B); do
  for p in $PS; do
    VERIF_SEED=$s ./check $p --tier $TIER 2>&1 | grep -E "VIOLATION|\[check\] C|ERROR" | sed "s/^/seed $s: /" | cut -c1-260
  done
done
echo SOAK-DONE
