#!/bin/bash
# usage: goal.sh <file.v> <line>   -- print the proof state just before <line> (dev helper)
f=$1; n=$2
tmp=/var/tmp/goal_$$.v
head -n $((n-1)) "$f" > $tmp
echo "Show. Abort." >> $tmp
cd /verif/coq && coqc -Q . XetModel -w -notation-overridden $tmp 2>&1 | head -${3:-80}
rm -f /var/tmp/goal_$$.*
