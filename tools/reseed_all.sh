#!/bin/bash
# usage: reseed_all.sh [logfile]  -- runs every kept seeded change against its property's quick check (applies the patch to /repo,
# checks, undoes it).  Nothing else may use /repo meanwhile.  One line per seed: DETECTED / MISSED.
LOG=${1:-/tmp/reseed.log}; : > $LOG
cd /verif
for d in seeded/*/; do
  id=$(basename $d); P=${id%%-*}
  out=$(tools/try_seed.sh $P /verif/$d/patch.diff 2>&1)
  if echo "$out" | grep -q "^VIOLATION"; then
    if echo "$out" | grep "^VIOLATION" | grep -q "no-failing-input-found"; then echo "$id DETECTED (no failing input)" >> $LOG; else echo "$id DETECTED" >> $LOG; fi
  else echo "$id MISSED: $(echo "$out" | tail -2 | tr '\n' ' ' | cut -c1-200)" >> $LOG; fi
done
echo ALL-DONE >> $LOG
