#!/bin/bash
# usage: run_all.sh [tier]  -- every check on the unchanged tree (refreshes every evidence file)
TIER=${1:-quick}
cd /verif
for i in $(seq -w 1 20); do ./check C$i --tier $TIER 2>&1 | grep -E "VIOLATION|KNOWN-FINDING|\[check\] C|ERROR" | cut -c1-200; done
