#!/usr/bin/env python3
"""keep_seed.py <Cxx> <name> <src dir> <detected: yes|no> <how>  -- store a confirmed seeded change under /verif/seeded/"""
import json, os, shutil, sys
pid, name, src, det, how = sys.argv[1:6]
dst = "/verif/seeded/%s-%s" % (pid, name)
os.makedirs(dst, exist_ok=True)
shutil.copy(os.path.join(src, "patch.diff"), dst)
if os.path.isdir(os.path.join(dst, "demo")):
    shutil.rmtree(os.path.join(dst, "demo"))
shutil.copytree(os.path.join(src, "demo"), os.path.join(dst, "demo"), ignore=shutil.ignore_patterns("target", "*.log"))
meta = json.load(open(os.path.join(src, "meta.json")))
conf = ""
for f in ("confirm_tests.log",):
    p = os.path.join(src, f)
    if os.path.exists(p):
        lines = open(p, errors="replace").read().split("\n")
        conf = "; ".join(l for l in lines if l.startswith("test result:"))[:600]
meta.update({"property": pid, "breaks": pid,
             "confirmed_by_me": "tools/confirm_seed.sh in a scratch worktree: patch applies; cargo test --workspace --offline passes with it (file_utils::file_metadata tests are environment-flaky and unrelated); demo/run.sh fails with the change and passes without",
             "workspace_test_results_with_change": conf,
             "detected_by_check": det, "detection": how})
json.dump(meta, open(os.path.join(dst, "meta.json"), "w"), indent=1)
print("kept", dst)
