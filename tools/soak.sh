#!/bin/bash
# usage: soak.sh <first seed> <last seed> [tier]  -- every check with several generator seeds on the unchanged tree, run from the
# directory it is started in (meant for `vp run`: a snapshot of /verif; builds its own caches first).  Prints one line per check.
A=${1:-2}; B=${2:-4}; TIER=${3:-quick}
cd "$(dirname "$0")/.."
# with `vp run --with-repo` the run reads its own snapshot of /repo (so that seeded changes tried in /repo meanwhile cannot show up here)
if [ -n "$VP_RUN_REPO" ]; then export XV_REPO=$VP_RUN_REPO; sed -i "s#path = \"/repo/#path = \"$VP_RUN_REPO/#" harness/Cargo.toml; fi
./setup.sh > soak_setup.log 2>&1
for s in $(seq $A $B); do
  for i in $(seq -w 1 20); do
    VERIF_SEED=$s ./check C$i --tier $TIER 2>&1 | grep -E "VIOLATION|\[check\] C|ERROR" | sed "s/^/seed $s: /" | cut -c1-260
  done
done
echo SOAK-DONE
