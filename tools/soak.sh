#!/bin/bash
# usage: soak.sh <first seed> <last seed> [tier]  -- every check with several generator seeds on the unchanged tree, run from the
# directory it is started in (meant for `vp run`: a snapshot of /verif; builds its own caches first).  Prints one line per check.
A=${1:-2}; B=${2:-4}; TIER=${3:-quick}
cd "$(dirname "$0")/.."
./setup.sh > soak_setup.log 2>&1
for s in $(seq $A $B); do
  for i in $(seq -w 1 20); do
    VERIF_SEED=$s ./check C$i --tier $TIER 2>&1 | grep -E "VIOLATION|\[check\] C|ERROR" | sed "s/^/seed $s: /" | cut -c1-260
  done
done
echo SOAK-DONE
