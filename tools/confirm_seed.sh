#!/bin/bash
# usage: confirm_seed.sh <worktree> <seed dir with patch.diff, demo/run.sh>
# Confirms: patch applies, workspace tests pass with it, demo fails with it and passes without.
WT=$1; SD=$2
export CARGO_TARGET_DIR=$WT/target CARGO_NET_OFFLINE=true
cd $WT || exit 2
git checkout -q -- . ; git clean -fdq -e target
git apply $SD/patch.diff || { echo "CONFIRM: patch does not apply"; exit 2; }
cargo test --workspace --no-fail-fast --offline -j 8 > $SD/confirm_tests.log 2>&1
fails=$(grep -E "^test .* FAILED$" $SD/confirm_tests.log | grep -v "file_metadata::tests::" | wc -l)
comp=$(grep -c "^error" $SD/confirm_tests.log)
bash $SD/demo/run.sh $WT > $SD/confirm_demo_mutant.log 2>&1; dm=$?
git checkout -q -- . ; git clean -fdq -e target
bash $SD/demo/run.sh $WT > $SD/confirm_demo_clean.log 2>&1; dc=$?
git checkout -q -- . ; git clean -fdq -e target
echo "CONFIRM $SD: compile_errors=$comp failing_tests=$fails demo_with_mutant_rc=$dm demo_clean_rc=$dc"
