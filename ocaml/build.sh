#!/bin/bash
# extract the models and build the driver (run from anywhere)
set -e
cd "$(dirname "$0")"
coqc -Q ../coq XetModel -w -notation-overridden,-extraction-opaque-accessed,-extraction-reserved-identifier ../coq/Extract/Extract.v > extract.log 2>&1 || { cat extract.log; exit 1; }
rm -f model.mli
ocamlopt -w -a -o driver model.ml driver.ml
