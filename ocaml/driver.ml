(* OCaml side of the correspondence check: runs the extracted Gallina models on a case file and
   prints one canonical observation per case, in the same format as the Rust harness (xv). *)
open Model

let rec pos_of_int n = if n = 1 then XH else if n land 1 = 0 then XO (pos_of_int (n lsr 1)) else XI (pos_of_int (n lsr 1))
let n_of_int n = if n = 0 then N0 else Npos (pos_of_int n)
let rec int_of_pos = function XH -> 1 | XO p -> 2 * int_of_pos p | XI p -> 2 * int_of_pos p + 1
let int_of_n = function N0 -> 0 | Npos p -> int_of_pos p

(* byte values as shared N constants *)
let byte_tab = Array.init 256 n_of_int

let hexval c = match c with '0'..'9' -> Char.code c - 48 | 'a'..'f' -> Char.code c - 87 | _ -> failwith "bad hex"
let bytes_of_hex s : n list =
  if s = "-" then [] else begin
    let l = String.length s / 2 in
    let r = ref [] in
    for i = l - 1 downto 0 do
      r := byte_tab.(hexval s.[2*i] * 16 + hexval s.[2*i+1]) :: !r
    done; !r end

let split_on c s = if s = "" then [] else String.split_on_char c s

let run_c04 toks =
  match toks with
  | target :: rest ->
    let calls = match rest with [] -> [] | c :: _ -> split_on ';' c in
    let calls = List.map (fun c ->
        match String.split_on_char ':' c with
        | [h; f] -> (bytes_of_hex h, f = "1")
        | _ -> failwith "bad call") calls in
    (match chunker_new (n_of_int (int_of_string target)) with
     | None -> "PANIC"
     | Some cfg ->
       (match run_calls cfg st0 calls with
        | None -> "OUT-OF-FUEL"
        | Some chs -> "[" ^ String.concat "," (List.map (fun ch -> string_of_int (List.length ch)) chs) ^ "]"))
  | _ -> failwith "bad c04 case"

let () =
  let stream = Sys.argv.(1) in
  let ic = open_in Sys.argv.(2) in
  (try
     while true do
       let line = String.trim (input_line ic) in
       if line <> "" && line.[0] <> '#' then begin
         match String.split_on_char ' ' line with
         | id :: toks ->
           let obs = match stream with
             | "c04" -> run_c04 toks
             | _ -> failwith "unknown stream" in
           Printf.printf "obs %s %s\n" id obs
         | [] -> ()
       end
     done
   with End_of_file -> ());
  close_in ic
