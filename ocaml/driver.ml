(* OCaml side of the correspondence check: runs the extracted Gallina models on a case file and
   prints one canonical observation per case, in the same format as the Rust harness (xv). *)
open Model

let rec pos_of_int n = if n = 1 then XH else if n land 1 = 0 then XO (pos_of_int (n lsr 1)) else XI (pos_of_int (n lsr 1))
let n_of_int n = if n = 0 then N0 else Npos (pos_of_int n)
let rec int_of_pos = function XH -> 1 | XO p -> 2 * int_of_pos p | XI p -> 2 * int_of_pos p + 1
let int_of_n = function N0 -> 0 | Npos p -> int_of_pos p

(* byte values as shared N constants *)
let byte_tab = Array.init 256 n_of_int

let hexval c = match c with '0'..'9' -> Char.code c - 48 | 'a'..'f' -> Char.code c - 87 | _ -> failwith "bad hex"
let bytes_of_hex s : n list =
  if s = "-" then [] else begin
    let l = String.length s / 2 in
    let r = ref [] in
    for i = l - 1 downto 0 do
      r := byte_tab.(hexval s.[2*i] * 16 + hexval s.[2*i+1]) :: !r
    done; !r end

(* arbitrary-size decimal literal -> N (lengths may exceed OCaml's int) *)
let n_of_string (s : string) : n =
  let ten = n_of_int 10 in
  let acc = ref N0 in
  String.iter (fun c -> acc := N.add (N.mul !acc ten) (n_of_int (Char.code c - 48))) s; !acc

let skipn_n (k : n) (l : n list) = skipn (N.to_nat k) l

let split_on c s = if s = "" then [] else String.split_on_char c s

let str_of_bytes (l : n list) = String.concat "" (List.map (fun b -> String.make 1 (Char.chr (int_of_n b))) l)
let hex_of_bytes (l : n list) = if l = [] then "-" else String.concat "" (List.map (fun b -> Printf.sprintf "%02x" (int_of_n b)) l)
let disp h = str_of_bytes (hex h)

let parse_nodes s =
  if s = "-" || s = "" then [] else
    List.map (fun e -> match String.split_on_char ':' e with
        | [h; l] -> (bytes_of_hex h, n_of_string l)
        | _ -> failwith "bad node") (String.split_on_char ',' s)

let run_c06 toks =
  match toks with
  | ["dh"; d] -> disp (compute_data_hash (bytes_of_hex d))
  | ["ih"; d] -> disp (compute_internal_node_hash (bytes_of_hex d))
  | ["hmac"; h; k] -> disp (hmac (bytes_of_hex h) (bytes_of_hex k))
  | ["range"; l] -> disp (range_hash_from_chunks (List.map bytes_of_hex (List.filter (fun x -> x <> "" && x <> "-") (String.split_on_char ',' l))))
  | ["cas"; l] ->
    let ns = parse_nodes l in
    (match cas_node_hash compute_internal_node_hash ns, validator_root compute_internal_node_hash ns with
     | Some a, Some v -> "cas=" ^ disp a ^ " val=" ^ disp v
     | _ -> "OUT-OF-FUEL")
  | ["file"; salt; l] ->
    (match file_node_hash (parse_nodes l) (bytes_of_hex salt) with Some h -> disp h | None -> "OUT-OF-FUEL")
  | ["casneq"; a; b] ->
    (match cas_node_hash compute_internal_node_hash (parse_nodes a), cas_node_hash compute_internal_node_hash (parse_nodes b) with
     | Some x, Some y -> if x = y then "eq" else "neq"
     | _ -> "OUT-OF-FUEL")
  | ["hexof"; h] -> let h = bytes_of_hex h in "hex=" ^ disp h ^ " b64=" ^ str_of_bytes (base64 h)
  | ["fromhex"; s] -> (match from_hex (bytes_of_hex s) with Some h -> "ok " ^ hex_of_bytes h | None -> "err")
  | ["fromb64"; s] -> (match from_base64 (bytes_of_hex s) with Some h -> "ok " ^ hex_of_bytes h | None -> "err")
  | ["hw"; calls] ->
    let calls = List.map (fun c -> match String.split_on_char ':' c with
        | [b; a] -> (bytes_of_hex b, if a = "e" then None else Some (n_of_int (int_of_string a)))
        | _ -> failwith "bad hw call") (String.split_on_char ';' calls) in
    let (hashed, _) = hashed_write hashed_write_hashes_whole_buffer calls [] [] in
    disp (compute_data_hash hashed)
  | _ -> failwith "bad c06 case"


(* ------------------------------------------------------------------------- shards *)
let cksum (b : int array) lo hi =
  let p = 2147483647 in
  let a = ref 7 and c = ref 11 in
  for i = lo to hi - 1 do
    a := (!a * 1000003 + b.(i)) mod p;
    c := (!c * 998244353 mod p + b.(i) + 1) mod p
  done;
  Printf.sprintf "%d.%d.%d" (hi - lo) !a !c
let cksum_str (s : string) = cksum (Array.init (String.length s) (fun i -> Char.code s.[i])) 0 (String.length s)
let arr_of_bytes (l : n list) = Array.of_list (List.map int_of_n l)
let le_int64 (b : int array) off k =
  let r = ref 0L in
  for i = k - 1 downto 0 do r := Int64.logor (Int64.shift_left !r 8) (Int64.of_int b.(off + i)) done; !r
let dec_n (x : n) : string =
  (* decimal of an N that may exceed 63 bits: go through Int64 unsigned (values are < 2^64) *)
  let rec to_i64 = function XH -> 1L | XO p -> Int64.shift_left (to_i64 p) 1 | XI p -> Int64.logor (Int64.shift_left (to_i64 p) 1) 1L in
  match x with N0 -> "0" | Npos p -> Printf.sprintf "%Lu" (to_i64 p)

let parse_file_op t =
  match t with
  | [_; h; fl; un; segs; ver; ext] ->
    let segs = if segs = "-" then [] else List.map (fun s -> match String.split_on_char ':' s with
        | [c; f; b; st; e] -> { sg_cas = bytes_of_hex c; sg_flags = n_of_string f; sg_bytes = n_of_string b; sg_start = n_of_string st; sg_end = n_of_string e }
        | _ -> failwith "bad seg") (String.split_on_char ',' segs) in
    let ver = if ver = "-" then [] else List.map bytes_of_hex (String.split_on_char ',' ver) in
    { fi_hash = bytes_of_hex h; fi_flags = n_of_string fl; fi_unused = n_of_string un; fi_segs = segs; fi_verif = ver;
      fi_ext = (if ext = "-" then None else Some (bytes_of_hex ext)) }
  | _ -> failwith "bad F op"
let parse_cas_op t =
  match t with
  | [_; h; fl; nb; nd; chs] ->
    let chs = if chs = "-" then [] else List.map (fun s -> match String.split_on_char ':' s with
        | [c; b; st; u] -> { ce_hash = bytes_of_hex c; ce_bytes = n_of_string b; ce_start = n_of_string st; ce_unused = n_of_string u }
        | _ -> failwith "bad chunk") (String.split_on_char ',' chs) in
    { ci_hash = bytes_of_hex h; ci_flags = n_of_string fl; ci_nbytes = n_of_string nb; ci_ndisk = n_of_string nd; ci_chunks = chs }
  | _ -> failwith "bad C op"

let dump_file (f : file_info) =
  let segs = List.map (fun s -> Printf.sprintf "%s:%s:%s:%s:%s" (hex_of_bytes s.sg_cas) (dec_n s.sg_flags) (dec_n s.sg_bytes) (dec_n s.sg_start) (dec_n s.sg_end)) f.fi_segs in
  let ver = List.map hex_of_bytes f.fi_verif in
  Printf.sprintf "F %s %s %s %s %s %s" (hex_of_bytes f.fi_hash) (dec_n f.fi_flags) (dec_n f.fi_unused)
    (if segs = [] then "-" else String.concat "," segs) (if ver = [] then "-" else String.concat "," ver)
    (match f.fi_ext with None -> "-" | Some h -> hex_of_bytes h)
let dump_cas (c : cas_info) =
  let ch = List.map (fun e -> Printf.sprintf "%s:%s:%s:%s" (hex_of_bytes e.ce_hash) (dec_n e.ce_bytes) (dec_n e.ce_start) (dec_n e.ce_unused)) c.ci_chunks in
  Printf.sprintf "C %s %s %s %s %s" (hex_of_bytes c.ci_hash) (dec_n c.ci_flags) (dec_n c.ci_nbytes) (dec_n c.ci_ndisk) (if ch = [] then "-" else String.concat "," ch)
let dump_seg_res = function
  | None -> "none"
  | Some (n, s) -> Printf.sprintf "n=%s %s:%s:%s:%s:%s" (dec_n n) (hex_of_bytes s.sg_cas) (dec_n s.sg_flags) (dec_n s.sg_bytes) (dec_n s.sg_start) (dec_n s.sg_end)

let split_ops toks =
  let rec go cur acc = function
    | [] -> List.rev (if cur = [] then acc else List.rev cur :: acc)
    | "|" :: r -> go [] (if cur = [] then acc else List.rev cur :: acc) r
    | t :: r -> go (t :: cur) acc r in
  go [] [] toks

let describe_bytes (bytes : n list) (ft : footer) =
  let b = arr_of_bytes bytes in
  let a = int_of_n ft.ft_chunk_lookup_offset and e = int_of_n ft.ft_footer_offset in
  let n = (e - a) / 16 in
  let ents = Array.init n (fun i -> (le_int64 b (a + 16 * i) 8, Int64.to_int (le_int64 b (a + 16 * i + 8) 4), Int64.to_int (le_int64 b (a + 16 * i + 12) 4))) in
  let sorted = ref true in
  for i = 0 to n - 2 do let (k1, _, _) = ents.(i) and (k2, _, _) = ents.(i + 1) in if Int64.unsigned_compare k1 k2 > 0 then sorted := false done;
  let l = Array.to_list ents in
  let l = List.sort (fun (k1, i1, o1) (k2, i2, o2) -> let c = Int64.unsigned_compare k1 k2 in if c <> 0 then c else compare (i1, o1) (i2, o2)) l in
  let t = String.concat "" (List.map (fun (k, i, o) -> Printf.sprintf "%Lu,%d,%d;" k i o) l) in
  Printf.sprintf "len=%d head=%s chunktbl=%s sorted=%b foot=%s" (Array.length b) (cksum b 0 a) (cksum_str t) !sorted (cksum b e (Array.length b))

let build_mem ops =
  List.fold_left (fun m op -> match op with
      | "F" :: _ -> add_file_info size_replace_aware m (parse_file_op op)
      | "C" :: _ -> add_cas_block size_replace_aware m (parse_cas_op op)
      | _ -> m) ms_empty ops

let run_c09 toks =
  let ops = split_ops toks in
  let m = build_mem ops in
  let bytes = serialize_from m in
  match load_footer bytes with
  | None -> ["MODEL-CANNOT-LOAD-OWN-SHARD"]
  | Some ft ->
    let l1 = Printf.sprintf "ser %s acct=%s" (describe_bytes bytes ft) (dec_n (shard_file_size m)) in
    let files = (match read_all_files bytes ft with Some l -> l | None -> failwith "scan files") in
    let cass = (match read_all_cas bytes ft with Some l -> l | None -> failwith "scan cas") in
    let l2 = Printf.sprintf "scan files=%d %s cas=%d %s" (List.length files) (cksum_str (String.concat "\n" (List.map dump_file files)))
        (List.length cass) (cksum_str (String.concat "\n" (List.map dump_cas cass))) in
    let l3 = (match stream_walk bytes with
        | Some (fb, cb) ->
          let cat l = Array.of_list (List.map int_of_n (List.concat l)) in
          let fa = cat fb and ca = cat cb in
          Printf.sprintf "stream files=%d %s cas=%d %s" (List.length fb) (cksum fa 0 (Array.length fa)) (List.length cb) (cksum ca 0 (Array.length ca))
        | None -> "stream MODEL-ERROR") in
    (* the minimal reader's buffer (what MDBMinimalShard::serialize writes between the header and the footer) and its counts *)
    let l4 = (match minimal_from_reader bytes true true with
        | Some mn ->
          let a = Array.of_list (List.map int_of_n mn.mn_data) in
          Printf.sprintf "min data=%s files=%d cas=%d" (cksum a 0 (Array.length a)) (List.length mn.mn_file_offsets) (List.length mn.mn_cas_offsets)
        | None -> "min MODEL-ERROR") in
    let nq = ref 0 in
    let qs = List.filter_map (fun op -> match op with
        | ["qf"; h] ->
          let r = (match get_file_info probe_exact bytes ft (bytes_of_hex h) with
              | Found f -> Printf.sprintf "qf%d found %s" !nq (cksum_str (dump_file f))
              | NotFound -> Printf.sprintf "qf%d notfound" !nq
              | CollisionError -> Printf.sprintf "qf%d error" !nq
              | IoError -> Printf.sprintf "qf%d MODEL-IO-ERROR" !nq) in incr nq; Some r
        | ["qc"; h] ->
          let hb = bytes_of_hex h in
          let tbl = read_tbl12 bytes ft.ft_cas_lookup_offset ft.ft_cas_lookup_num in
          let r = (match search probe_exact tbl (S (S (S (S (S (S (S (S O)))))))) (truncate_hash hb) with
              | None -> Printf.sprintf "qc%d MODEL-IO-ERROR" !nq
              | Some idxs ->
                if List.length idxs >= 8 then Printf.sprintf "qc%d error" !nq else
                  let found = List.fold_left (fun acc i ->
                      match parse_cas_info (skipn_n (N.add ft.ft_cas_info_offset (N.mul (n_of_int 48) i)) bytes) with
                      | Some (Some c, _) when c.ci_hash = hb -> Some c
                      | _ -> acc) None idxs in
                  (match found with Some c -> Printf.sprintf "qc%d found %s" !nq (cksum_str (dump_cas c)) | None -> Printf.sprintf "qc%d notfound" !nq)) in
          incr nq; Some r
        | _ -> None) ops in
    l1 :: l2 :: l3 :: l4 :: qs

let eight = S (S (S (S (S (S (S (S O)))))))
let disk_candidates bytes ft qs =
  match qs with
  | [] -> (0, [])
  | q0 :: _ ->
    let tbl = read_tbl16 bytes ft.ft_chunk_lookup_offset ft.ft_chunk_lookup_num in
    let k = truncate_hash (keyed ft.ft_key q0) in
    let cands = List.filter (fun (k', _) -> k' = k) tbl in
    let answers = List.filter_map (fun (_, (ci, off)) ->
        match dedup_direct bytes ft qs ci off with
        | Found (Some a) -> Some (dump_seg_res (Some a))
        | _ -> None) cands in
    (List.length cands, List.sort_uniq compare answers)

let run_c05 toks =
  let ops = split_ops toks in
  let m = build_mem ops in
  let bytes = serialize_from m in
  match load_footer bytes with
  | None -> ["MODEL-CANNOT-LOAD-OWN-SHARD"]
  | Some ft ->
    let keyed_shard = List.fold_left (fun acc op -> match op with
        | ["key"; k] ->
          let kb = export_keyed m.ms_files m.ms_cass (bytes_of_hex k) (n_of_int 1000) (n_of_int 4600) true true true in
          (match load_footer kb with Some kft -> Some (kb, kft) | None -> failwith "keyed shard does not load")
        | _ -> acc) None ops in
    let nq = ref 0 in
    List.concat (List.filter_map (fun op -> match op with
        | ["qd"; l] ->
          let qs = if l = "-" then [] else List.map bytes_of_hex (String.split_on_char ',' l) in
          let l1 = Printf.sprintf "qd%d mem %s" !nq (dump_seg_res (mem_dedup_query m qs)) in
          let (k, ans) = disk_candidates bytes ft qs in
          let l2 = Printf.sprintf "qd%d disk cands=%d {%s}" !nq k (String.concat "|" ans) in
          let l3 = (match keyed_shard with
              | None -> []
              | Some (kb, kft) -> let (k, ans) = disk_candidates kb kft qs in [Printf.sprintf "qd%d keyed cands=%d {%s}" !nq k (String.concat "|" ans)]) in
          incr nq; Some (l1 :: l2 :: l3)
        | _ -> None) ops)

let split_ab ops =
  let rec go a b second = function
    | [] -> (List.rev a, List.rev b)
    | ["=="] :: r -> go a b true r
    | op :: r -> if second then go a (op :: b) true r else go (op :: a) b false r in
  go [] [] false ops

let describe_model_bytes bytes =
  match load_footer bytes with
  | None -> "MODEL-CANNOT-LOAD-OWN-SHARD"
  | Some ft -> describe_bytes bytes ft

let run_c10 toks =
  let ops = split_ops toks in
  let (oa, ob) = split_ab ops in
  let a = build_mem oa and b = build_mem ob in
  let u = disk_union a.ms_files b.ms_files a.ms_cass b.ms_cass in
  let d = disk_difference a.ms_files b.ms_files a.ms_cass b.ms_cass in
  let mu = mem_union size_per_occurrence a b in
  let md = mem_difference size_per_occurrence a b in
  [ "disk-union " ^ describe_model_bytes u;
    "disk-diff " ^ describe_model_bytes d;
    Printf.sprintf "mem-union %s acct=%s" (describe_model_bytes (serialize_from mu)) (dec_n (shard_file_size mu));
    Printf.sprintf "mem-diff %s acct=%s" (describe_model_bytes (serialize_from md)) (dec_n (shard_file_size md)) ]

let run_c18 toks =
  let ops = split_ops toks in
  let m = build_mem ops in
  let ne = ref 0 in
  List.filter_map (fun op -> match op with
      | ["exp"; k; fl; _] ->
        let fl = int_of_string fl in
        let kb = export_keyed m.ms_files m.ms_cass (bytes_of_hex k) N0 N0 (fl land 1 <> 0) (fl land 2 <> 0) (fl land 4 <> 0) in
        let r = Printf.sprintf "exp%d %s" !ne (describe_model_bytes kb) in
        (* export_with_expiration of that export *)
        let rx = (match load_footer kb with
            | Some ft -> Printf.sprintf "rex%d %s" !ne (describe_model_bytes (export_with_expiration kb ft N0))
            | None -> Printf.sprintf "rex%d MODEL-CANNOT-LOAD-OWN-EXPORT" !ne) in
        incr ne; Some [r; rx]
      | _ -> None) ops |> List.concat

(* the shard manager (stream mgr): shards are the groups with C ops, `key K f` exports under a key, `cap N`, `tgt T`, then the
   script: `R i`, `A <block>`, `FL`, `qd ..` *)
let run_mgr toks =
  let ops = split_ops toks in
  let groups = List.rev (List.map List.rev (List.fold_left (fun acc op -> match op, acc with
      | ["=="], _ -> [] :: acc
      | _, g :: r -> (op :: g) :: r
      | _, [] -> [[op]]) [[]] ops)) in
  let shards = Array.of_list (List.filter_map (fun g ->
      if not (List.exists (fun op -> match op with "C" :: _ -> true | _ -> false) g) then None
      else begin
        let m = build_mem g in
        let key = List.fold_left (fun acc op -> match op with ["key"; k; _] -> Some (bytes_of_hex k) | _ -> acc) None g in
        let mt = List.fold_left (fun acc op -> match op with ["mt"; t] -> n_of_string t | _ -> acc) N0 g in
        Some (match key with
            | Some k -> (k, keyed_cass k m.ms_cass, mt)
            | None -> (zero_hash, m.ms_cass, mt))
      end) groups) in
  let cap = List.fold_left (fun acc op -> match op with ["cap"; n] -> n_of_string n | _ -> acc) (n_of_string "67108864") ops in
  let tgt = List.fold_left (fun acc op -> match op with ["tgt"; n] -> n_of_string n | _ -> acc) (n_of_string "67108864") ops in
  let g = ref mgr0 and nq = ref 0 in
  let step o = g := mgr_step size_replace_aware cap tgt !g o in
  ("cap=" ^ dec_n cap ^ " tgt=" ^ dec_n tgt) :: List.filter_map (fun op -> match op with
      | ["R"; i] ->
        let i = int_of_string i in
        if i < Array.length shards then begin
          let (k, cass, _) = shards.(i) in
          (* the shard's identity: 32 bytes made from its index (two groups never serialize to the same bytes in generated cases) *)
          step (MRegister { sh_hash = List.init 32 (fun _ -> n_of_int i); sh_key = k; sh_cass = cass }) end;
        None
      | ["RB"; l] ->
        (* one call with several files, in argument order; their modification times come from their groups (`mt`) *)
        let items = List.filter_map (fun x ->
            let i = int_of_string x in
            if i < Array.length shards then begin
              let (k, cass, mt) = shards.(i) in
              Some (mt, { sh_hash = List.init 32 (fun _ -> n_of_int i); sh_key = k; sh_cass = cass }) end
            else None) (String.split_on_char ',' l) in
        List.iter (fun s -> step (MRegister s)) (batch_order items); None
      | "A" :: _ -> step (MAddCas (parse_cas_op op)); None
      | ["FL"] -> step MFlush; None
      | ["qd"; l] ->
        let qs = if l = "-" then [] else List.map bytes_of_hex (String.split_on_char ',' l) in
        let r = (match mgr_dedup !g qs with
            | Found a -> dump_seg_res a
            | _ -> "err") in
        let s = Printf.sprintf "qd%d %s" !nq r in incr nq; Some s
      | _ -> None) ops

(* ------------------------------------------------------------------------- xorbs *)
let key_of (l : n list) = str_of_bytes l
let scheme_of = function "none" -> Some N0 | "lz4" -> Some (n_of_int 1) | "bg4" -> Some (n_of_int 2) | "auto" -> None | _ -> failwith "scheme"
let cat_of = function ROk _ -> "accept" | RReject -> "reject" | RErr -> "error" | RPanic -> "PANIC"

let lz4_tables chunks aux =
  let fwd = Hashtbl.create 16 and bwd = Hashtbl.create 16 and ch = Hashtbl.create 16 in
  let parts = if aux = "" then [] else String.split_on_char ',' aux in
  List.iter2 (fun c a -> match String.split_on_char ':' a with
      | [choice; l; bl] ->
        let l = bytes_of_hex l and bl = bytes_of_hex bl in
        let sp = bg4_split c in
        Hashtbl.replace fwd (key_of c) l; Hashtbl.replace bwd (key_of l) c;
        Hashtbl.replace fwd (key_of sp) bl; Hashtbl.replace bwd (key_of bl) sp;
        Hashtbl.replace ch (key_of c) (n_of_int (int_of_string choice))
      | _ -> failwith "bad aux") chunks parts;
  ((fun x -> match Hashtbl.find_opt fwd (key_of x) with Some y -> y | None -> failwith "lz4 table: unknown plaintext (model's bg4 split differs?)"),
   (fun y -> Hashtbl.find_opt bwd (key_of y)),
   (fun c -> match Hashtbl.find_opt ch (key_of c) with Some s -> s | None -> failwith "choice table"))

let split_aux toks =
  let rec go acc = function
    | "##" :: rest -> (List.rev acc, rest)
    | t :: rest -> go (t :: acc) rest
    | [] -> (List.rev acc, []) in
  go [] toks

let run_c07 toks =
  let (toks, aux) = split_aux toks in
  match toks with
  | sch :: chs :: rest ->
    let chunks = List.map bytes_of_hex (String.split_on_char ',' chs) in
    let (lz4c, lz4d, choose) = lz4_tables chunks (match aux with a :: _ -> a | [] -> "") in
    let hashes = List.map compute_data_hash chunks in
    let nodes = List.map2 (fun h c -> (h, n_of_int (List.length c))) hashes chunks in
    let cashash = (match cas_node_hash compute_internal_node_hash nodes with Some h -> h | None -> failwith "fuel") in
    let bytes = xorb_serialize lz4c choose cashash chunks hashes (scheme_of sch) in
    (match xorb_deserialize bytes with
     | ROk (info, il) ->
       let l1 = Printf.sprintf "ser %s il=%s" (let b = arr_of_bytes bytes in cksum b 0 (Array.length b)) (dec_n il) in
       let ranges = (match rest with r :: _ when r <> "" -> String.split_on_char ',' r | _ -> []) in
       let robs = List.map (fun r -> match String.split_on_char '-' r with
           | [a; b] ->
             (match get_bytes_by_chunk_range lz4d info bytes (n_of_string a) (n_of_string b) with
              | ROk d -> Printf.sprintf "%s-%s:%s" a b (let x = arr_of_bytes d in cksum x 0 (Array.length x))
              | RPanic -> Printf.sprintf "%s-%s:PANIC" a b
              | _ -> Printf.sprintf "%s-%s:err" a b)
           | _ -> failwith "range") ranges in
       [l1; "ranges " ^ String.concat " " robs]
     | r -> ["MODEL-CANNOT-DESERIALIZE-OWN-XORB " ^ cat_of r])
  | _ -> failwith "bad c07 case"

let run_bg4 toks =
  match toks with
  | d :: _ -> let d = bytes_of_hex d in
    let s = bg4_split d in
    if bg4_regroup s <> d then ["MODEL-REGROUP-MISMATCH"] else ["split " ^ hex_of_bytes s]
  | _ -> failwith "bad bg4 case"

let run_c08 toks =
  let (_, aux) = split_aux toks in
  match aux with
  | [b; h] ->
    let bytes = bytes_of_hex b and h = bytes_of_hex h in
    let nolz4c = (fun _ -> failwith "no lz4 in this stream") and nolz4d = (fun _ -> None) in
    ignore nolz4c;
    let c1 = cat_of (validate_cas_object nolz4d bytes h) in
    let c2 = cat_of (validate_stream nolz4d bytes h) in
    let c3 = cat_of (parse_boundaries_only boundaries_only_checked bytes) in
    let c4 = cat_of (xorb_deserialize bytes) in
    [Printf.sprintf "seek=%s stream=%s bnd=%s footer=%s" c1 c2 c3 c4]
  | _ -> failwith "bad c08 aux"

(* ------------------------------------------------------------------------- dedup pipeline (L1) *)
let hash_of_id (id : int) : n list =
  List.init 32 (fun j -> if j < 8 then byte_tab.((id lsr (8 * j)) land 255) else byte_tab.((id * 31 + j * 17) mod 251))
let parse_id_chunks s = if s = "-" then [] else
    List.map (fun c -> match String.split_on_char ':' c with
        | [i; l] -> (hash_of_id (int_of_string i), n_of_string l) | _ -> failwith "bad chunk") (String.split_on_char ',' s)
let fmt_metrics (m : metrics) =
  Printf.sprintf "tb=%s db=%s nb=%s gb=%s fb=%s tc=%s dc=%s nc=%s gc=%s fc=%s" (dec_n m.m_total_bytes) (dec_n m.m_deduped_bytes) (dec_n m.m_new_bytes)
    (dec_n m.m_global_bytes) (dec_n m.m_defrag_bytes) (dec_n m.m_total_chunks) (dec_n m.m_deduped_chunks) (dec_n m.m_new_chunks) (dec_n m.m_global_chunks) (dec_n m.m_defrag_chunks)
let n_sub a b = N.sub a b
let m_sub (a : metrics) (b : metrics) : metrics =
  { m_total_bytes = n_sub a.m_total_bytes b.m_total_bytes; m_deduped_bytes = n_sub a.m_deduped_bytes b.m_deduped_bytes; m_new_bytes = n_sub a.m_new_bytes b.m_new_bytes;
    m_global_bytes = n_sub a.m_global_bytes b.m_global_bytes; m_defrag_bytes = n_sub a.m_defrag_bytes b.m_defrag_bytes;
    m_total_chunks = n_sub a.m_total_chunks b.m_total_chunks; m_deduped_chunks = n_sub a.m_deduped_chunks b.m_deduped_chunks; m_new_chunks = n_sub a.m_new_chunks b.m_new_chunks;
    m_global_chunks = n_sub a.m_global_chunks b.m_global_chunks; m_defrag_chunks = n_sub a.m_defrag_chunks b.m_defrag_chunks }
let short h = String.sub (hex_of_bytes h) 0 16
let fmt_segs (segs : seg list) =
  String.concat "," (List.map (fun s -> Printf.sprintf "%s:%s:%s:%s" (short s.sg_cas) (dec_n s.sg_bytes) (dec_n s.sg_start) (dec_n s.sg_end)) segs)

let run_dd toks =
  let ops = split_ops toks in
  let cf = ref None and ext = ref [] and f = ref fd0 and nf = ref 0 and aggs = ref [] and out = ref [] in
  let emit s = out := s :: !out in
  List.iter (fun op -> match op with
      | ["cfg"; nr; mb; mc] ->
        cf := Some { c_nranges = n_of_string nr; c_min_cpr_num = mIN_N_CHUNKS_PER_RANGE_NUM; c_min_cpr_den = mIN_N_CHUNKS_PER_RANGE_DEN;
                     c_hyst_num = mIN_N_CHUNKS_PER_RANGE_HYSTERESIS_FACTOR_NUM; c_hyst_den = mIN_N_CHUNKS_PER_RANGE_HYSTERESIS_FACTOR_DEN;
                     c_max_xorb_bytes = n_of_string mb; c_max_xorb_chunks = n_of_string mc }
      | ["X"; id; cap; chs] -> ext := !ext @ [((hash_of_id (int_of_string id), parse_id_chunks chs), n_of_string cap)]
      | ["B"; chs] ->
        let cfg = (match !cf with Some c -> c | None -> failwith "no cfg") in
        let before = !f.f_metrics in
        f := process_block dedup_booked_before_decision cfg !ext !f (parse_id_chunks chs);
        emit ("B " ^ fmt_metrics (m_sub !f.f_metrics before))
      | ["F"; salt; sha] ->
        let sha = if sha = "-" then None else Some (bytes_of_hex sha) in
        let (((fh, agg), m), newx) = fd_finalize !f (bytes_of_hex salt) sha in
        let (fi, iref) = (match agg.a_files with [x] -> x | _ -> failwith "agg files") in
        let regs = List.rev_map (fun (x : cas_info) -> Printf.sprintf "%s:%d:%s" (short x.ci_hash) (List.length x.ci_chunks) (dec_n x.ci_nbytes)) !f.f_registered in
        emit (Printf.sprintf "F%d hash=%s %s segs=[%s] iref=[%s] aggchunks=%d newxorbs=%d regs=[%s]" !nf (disp fh) (fmt_metrics m) (fmt_segs fi.fi_segs)
                (String.concat ", " (List.map dec_n iref)) (List.length agg.a_chunks) (List.length newx) (String.concat "," regs));
        emit (Printf.sprintf "F%d verif=[%s] flags=%s" !nf (String.concat "," (List.map short fi.fi_verif)) (dec_n fi.fi_flags));
        aggs := !aggs @ [agg];
        (* the registered xorbs stay visible to later files of the same interface *)
        f := { fd0 with f_registered = !f.f_registered };
        incr nf
      | ["AGG"] ->
        let cfg = (match !cf with Some c -> c | None -> failwith "no cfg") in
        let bytes_of (a : agg) = List.fold_left (fun acc (_, l) -> N.add acc l) N0 a.a_chunks in
        let groups = List.fold_left (fun gs b -> match gs with
            | a :: rest when N.leb (N.add (bytes_of a) (bytes_of b)) cfg.c_max_xorb_bytes
                          && N.leb (n_of_int (List.length a.a_chunks + List.length b.a_chunks)) cfg.c_max_xorb_chunks -> agg_merge a b :: rest
            | _ -> b :: gs) [] !aggs in
        aggs := [];
        List.iter (fun a ->
            let (x, infos) = agg_finalize a in
            emit (Printf.sprintf "AGG xorb=%s:%d:%s files=%s" (short x.ci_hash) (List.length x.ci_chunks) (dec_n x.ci_nbytes)
                    (String.concat "" (List.map (fun (fi : file_info) -> "[" ^ fmt_segs fi.fi_segs ^ "]") infos)))) (List.rev groups)
      | _ -> ()) ops;
  List.rev !out

let run_c04 toks =
  match toks with
  | target :: rest ->
    let calls = match rest with [] -> [] | c :: _ -> split_on ';' c in
    let calls = List.map (fun c ->
        match String.split_on_char ':' c with
        | [h; f] -> (bytes_of_hex h, f = "1")
        | _ -> failwith "bad call") calls in
    (match chunker_new (n_of_int (int_of_string target)) with
     | None -> "PANIC"
     | Some cfg ->
       (match run_calls cfg st0 calls with
        | None -> "OUT-OF-FUEL"
        | Some chs -> "[" ^ String.concat "," (List.map (fun ch -> string_of_int (List.length ch)) chs) ^ "]"))
  | _ -> failwith "bad c04 case"

(* ------------------------------------------------------------------------- chunk cache (C12, C13) *)
let cache_chunk_bytes k i len = List.init len (fun j -> byte_tab.((k * 131 + i * 17 + j * 7 + 3) mod 256))
let cache_slice (uni : (n list * int array) array) k s e =
  let (_, lens) = uni.(k) in
  let offs = ref [0] and data = ref [] and tot = ref 0 in
  for i = s to e - 1 do
    let l = if i < Array.length lens then lens.(i) else 1 in
    data := !data @ cache_chunk_bytes k i l; tot := !tot + l; offs := !offs @ [!tot]
  done;
  (!offs, !data)
let int_list_of_bytes l = List.map int_of_n l
let cksum_bytes (l : n list) = let a = arr_of_bytes l in cksum a 0 (Array.length a)
let cache_err_class c = match int_of_n c with 1 -> "InvalidArguments" | 2 -> "BadRange" | 3 -> "IO" | 4 -> "General" | _ -> "?"
let cache_res_str = function
  | CHit (rs, re, offs, data) -> Printf.sprintf "hit:%s-%s:%s:%s" (dec_n rs) (dec_n re) (String.concat "," (List.map dec_n offs)) (cksum_bytes data)
  | CMiss -> "miss" | COk -> "ok" | CErr c -> "err:" ^ cache_err_class c | CPanic -> "PANIC"
let cache_state_line (s : cstate) =
  let keys = List.sort (fun (a, _) (b, _) -> compare (int_list_of_bytes a) (int_list_of_bytes b)) s.tracked in
  let t = List.map (fun (k, its) -> cksum_bytes k ^ "=" ^ String.concat "," (List.map (fun (it, _) -> Printf.sprintf "%s-%s-%s-%s" (dec_n it.i_s) (dec_n it.i_e) (dec_n it.i_len) (dec_n it.i_crc)) its)) keys in
  let files = List.sort compare (List.map (fun (((a, b), c), d) -> (int_list_of_bytes a, int_list_of_bytes b, int_list_of_bytes c, int_list_of_bytes d)) s.fs) in
  let buf = Buffer.create 256 in
  let add l = List.iter (fun x -> Buffer.add_char buf (Char.chr x)) l in
  List.iter (fun (a, b, c, d) -> add a; Buffer.add_char buf '/'; add b; Buffer.add_char buf '/'; add c; Buffer.add_char buf '\000'; add d; Buffer.add_char buf '\000') files;
  Printf.sprintf "n=%s b=%s t=%s f=%d:%s" (dec_n s.nitems) (dec_n s.tbytes) (if t = [] then "-" else String.concat ";" t) (List.length files) (cksum_str (Buffer.contents buf))
let parse_tracked (v : string) : (n list * (item * bool) list) list =
  (* V:<keyhex>=s-e-len-crc,...;...  or V:- *)
  let v = String.sub v 2 (String.length v - 2) in
  if v = "-" then [] else
    List.map (fun e -> match String.split_on_char '=' e with
        | [k; its] ->
          (bytes_of_hex k, List.map (fun i -> match String.split_on_char '-' i with
               | [a; b; c; d] -> ({ i_s = n_of_string a; i_e = n_of_string b; i_len = n_of_string c; i_crc = n_of_string d }, true)
               | _ -> failwith "bad item") (List.filter (fun x -> x <> "") (String.split_on_char ',' its)))
        | _ -> failwith "bad tracked") (String.split_on_char ';' v)

let run_cache toks =
  let (toks, aux) = split_aux toks in
  let aux = ref (List.filter (fun x -> x <> "") aux) in
  let next_aux () = match !aux with a :: r -> aux := r; a | [] -> failwith "aux exhausted" in
  let ops = split_ops toks in
  let uni = ref [||] in
  let cache : cstate option ref = ref None in
  let out = ref [] in
  let step = ref 0 in
  let emit res = (match !cache with Some s -> out := Printf.sprintf "%d %s %s" !step res (cache_state_line s) :: !out | None -> ()); incr step in
  let key_of k = fst (!uni).(k) in
  let mk_put k s e = let (offs, data) = cache_slice !uni k s e in OPut (key_of k, n_of_int s, n_of_int e, List.map n_of_int offs, data) in
  (* run a thread from pc p until its next schedule point; victims are inferred at the commit from the observed post-state *)
  let advance (s : cstate) (p : pc) (post : (n list * (item * bool) list) list) (stop : bool) =
    let rec go s p ok guard =
      if guard = 0 then (s, p, false) else
      match p with
      | PDone _ -> (s, p, ok)
      | _ ->
        let vs = (match p with PHookFW (o, nw) -> infer_victims s (op_key o) nw post | _ -> []) in
        let ((s1, p1), ok1) = mstep s p vs in
        let ok = ok && ok1 in
        (match p1 with
         | PDone _ -> (s1, p1, ok)
         | _ -> if stop && at_hook p1 then (s1, p1, ok) else go s1 p1 ok (guard - 1)) in
    go s p true 100000 in
  let run_seq s o post =
    match start_op o with
    | PDone r -> (s, r, true)
    | p -> (match advance s p post false with (s1, PDone r, ok) -> (s1, r, ok) | (s1, _, _) -> (s1, CPanic, false)) in
  List.iter (fun op ->
      match op with
      | ["U"; kb; lens] -> uni := Array.append !uni [| (bytes_of_hex kb, Array.of_list (List.map int_of_string (String.split_on_char ',' lens))) |]
      | ["O"; cap] ->
        let t = next_aux () in
        let nent = int_of_string (String.sub t 2 (String.length t - 2)) in
        let ents = List.init nent (fun _ -> String.split_on_char ':' (next_aux ())) in
        let b64 = Hashtbl.create 64 and u8 = Hashtbl.create 64 in
        let kind = function "f" -> N0 | "d" -> n_of_int 1 | _ -> n_of_int 2 in
        (* build the three-level tree from the pre-order listing *)
        let tree = ref [] in
        List.iter (fun e -> match e with
            | ["e"; d; name; k; content; b; u] ->
              let name = bytes_of_hex name in
              if b <> "!" then begin
                let dec = bytes_of_hex b in
                Hashtbl.replace b64 (int_list_of_bytes name) dec;
                if List.length dec >= 32 then Hashtbl.replace u8 (int_list_of_bytes (skipn (N.to_nat (n_of_int 32)) dec)) (u = "1")
              end;
              (match d with
               | "1" -> tree := { p_name = name; p_kind = kind k; p_keys = [] } :: !tree
               | "2" -> (match !tree with p :: r -> tree := { p with p_keys = { k_name = name; k_kind = kind k; k_files = [] } :: p.p_keys } :: r | [] -> failwith "tree")
               | _ -> (match !tree with
                   | p :: r -> (match p.p_keys with
                       | kk :: kr -> tree := { p with p_keys = { kk with k_files = { f_name = name; f_kind = kind k; f_content = bytes_of_hex content } :: kk.k_files } :: kr } :: r
                       | [] -> failwith "tree")
                   | [] -> failwith "tree"))
            | _ -> failwith "bad tree entry") ents;
        let tree = List.rev_map (fun p -> { p with p_keys = List.rev_map (fun k -> { k with k_files = List.rev k.k_files }) p.p_keys }) !tree in
        let b64d name = Hashtbl.find_opt b64 (int_list_of_bytes name) in
        let utf8 suf = (match Hashtbl.find_opt u8 (int_list_of_bytes suf) with Some b -> b | None -> failwith "utf8 table") in
        (match initialize b64d utf8 (n_of_string cap) tree with
         | None -> out := Printf.sprintf "%d open-PANIC" !step :: !out; incr step; cache := None
         | Some (Inl c) -> out := Printf.sprintf "%d open-err:%s" !step (cache_err_class c) :: !out; incr step; cache := None
         | Some (Inr s) -> cache := Some s; ignore (next_aux ()); emit "open")
      | ["C"] -> cache := None
      | [("P" | "G") as kind; k; s; e] ->
        (match !cache with
         | None -> ()
         | Some st ->
           let k = int_of_string k and s = int_of_string s and e = int_of_string e in
           let post = parse_tracked (next_aux ()) in
           let o = if kind = "P" then mk_put k s e else OGet (key_of k, n_of_int s, n_of_int e) in
           let (s1, r, ok) = run_seq st o post in
           cache := Some s1;
           emit (kind ^ ":" ^ cache_res_str r ^ (if ok then "" else " EVICTION-NOT-ALLOWED-BY-MODEL")))
      | ["PB"; k; s; e; variant] ->
        (match !cache with
         | None -> ()
         | Some st ->
           let k = int_of_string k and s = int_of_string s and e = int_of_string e in
           let post = parse_tracked (next_aux ()) in
           let (offs, data) = cache_slice !uni k (Stdlib.min s e) (Stdlib.max s e) in
           let offs = Array.of_list offs and data = Array.of_list data in
           let n = Array.length offs in
           let offs = ref (Array.to_list offs) in
           (match variant with
            | "len" -> offs := List.filteri (fun i _ -> i < n - 1) !offs
            | "first" -> offs := List.mapi (fun i x -> if i = 0 then 1 else x) !offs
            | "last" -> offs := List.mapi (fun i x -> if i = n - 1 then x + 1 else x) !offs
            | "incr" -> let a = Array.of_list !offs in (if n > 2 then a.(1) <- a.(2) else a.(0) <- a.(1)); offs := Array.to_list a
            | "range" -> ()
            | "data" -> let l = Array.length data - 1 in data.(l) <- byte_tab.((int_of_n data.(l)) lxor 0x40)
            | "lens" -> if n > 2 then offs := List.mapi (fun i x -> if i = 1 then x + 1 else x) !offs
            | _ -> failwith "variant");
           let st = ref st in
           let skipped =
             if variant = "data" || variant = "lens" then begin
               let (s1, r, _) = run_seq !st (OGet (key_of k, n_of_int s, n_of_int e)) [] in
               st := s1; (match r with CHit _ -> false | _ -> true)
             end else false in
           let skipped = skipped || (variant = "lens" && n > 2 && List.nth !offs 1 >= List.nth !offs 2) in
           if skipped then begin cache := Some !st; emit "PB:skipped" end
           else begin
             let o = OPut (key_of k, n_of_int s, n_of_int e, List.map n_of_int !offs, Array.to_list data) in
             let (s1, r, ok) = run_seq !st o post in
             cache := Some s1; emit ("PB:" ^ cache_res_str r ^ (if ok then "" else " EVICTION-NOT-ALLOWED-BY-MODEL"))
           end)
      | "DD" :: _ ->
        (match !cache with
         | None -> ()
         | Some st ->
           let x = next_aux () in
           (match String.split_on_char ':' x with
            | ["X"; a; b; c] -> cache := Some { st with fs = fs_unlink st.fs ((bytes_of_hex a, bytes_of_hex b), bytes_of_hex c) }
            | _ -> ()))
      | ("DF" | "DT" | "DX" | "DR" | "DP" | "DV") :: _ -> ()
      | ["R"; progs; _sched] ->
        (match !cache with
         | None -> ()
         | Some st0 ->
           let progs = Array.of_list (List.map (fun p -> List.map (fun o -> match String.split_on_char ',' o with
               | [kind; k; s; e] -> (kind, int_of_string k, int_of_string s, int_of_string e)
               | _ -> failwith "prog op") (List.filter (fun x -> x <> "") (String.split_on_char ';' p))) (String.split_on_char '/' progs)) in
           let pcs : (string * pc) option array = Array.make (Array.length progs) None in
           let st = ref st0 in
           let fin = ref false in
           while not !fin do
             let a = next_aux () in
             if a = "S:end" then fin := true
             else begin
               let t = int_of_string (String.sub a 2 (String.length a - 2)) in
               let post = parse_tracked (next_aux ()) in
               (* the thread's current pc: a new op when it is between ops *)
               let (kind, p) = (match pcs.(t) with
                   | Some (kind, p) -> (kind, p)
                   | None ->
                     (match progs.(t) with
                      | (kind, k, s, e) :: rest ->
                        progs.(t) <- rest;
                        (kind, start_op (if kind = "P" then mk_put k s e else OGet (key_of k, n_of_int s, n_of_int e)))
                      | [] -> failwith "schedule runs a finished thread")) in
               let (s1, p1, ok) = (match p with PDone _ -> (!st, p, true) | _ -> advance !st p post true) in
               st := s1;
               let label = (match p1 with
                   | PFound (_, _, _) -> "get:after_find_match"
                   | PRemHook (_, _) -> "remove_item:after_state_update"
                   | PHookFM _ -> "put:after_find_match"
                   | PHookFW (_, _) -> "put:after_file_write"
                   | PUnl (_, _) -> "put:after_commit"
                   | PDone r -> "done:" ^ kind ^ ":" ^ cache_res_str r
                   | _ -> "?") in
               pcs.(t) <- (match p1 with PDone _ -> None | _ -> Some (kind, p1));
               cache := Some !st;
               emit (Printf.sprintf "t%d@%s%s" t label (if ok then "" else " EVICTION-NOT-ALLOWED-BY-MODEL"))
             end
           done)
      | _ -> failwith ("bad cache op " ^ String.concat " " op)) ops;
  List.rev !out

(* ------------------------------------------------------------------------- crash points (C19): the effect trace *)
let ascii (l : n list) = str_of_bytes l
let trace_of_plan (pl : pstep list) =
  let temps = Hashtbl.create 4 and merged = Hashtbl.create 4 in
  let idx tbl pre name = (match Hashtbl.find_opt tbl name with Some i -> i | None -> let i = Hashtbl.length tbl in Hashtbl.replace tbl name i; i) |> Printf.sprintf "%s%d" pre in
  List.concat_map (fun st -> match st with
      | PWrite (t, dest, chunks) ->
        let tn = idx temps "T" (ascii t) in
        let len = List.fold_left (fun a c -> a + List.length c) 0 chunks in
        let dn = let d = ascii dest in if String.length d > 0 && d.[0] = '!' then idx merged "M" d else d in
        [ "C:" ^ tn; Printf.sprintf "W:%s:%d" tn len; Printf.sprintf "R:%s:%s" tn dn ]
      | PUnlink p -> [ "U:" ^ ascii p ]) pl
let bytes_of_ascii (s : string) : n list = List.init (String.length s) (fun i -> byte_tab.(Char.code s.[i]))
let crash_xorb_chunks id n = List.init n (fun i -> List.init (5 + (id * 7 + i * 13) mod 40) (fun j -> byte_tab.((id * 31 + i * 17 + j * 3 + 1) mod 256)))

let fs_read_opt (s : cstate) p = List.exists (fun (q, _) -> q = p) s.fs

let run_crash toks =
  let (toks, aux) = split_aux toks in
  match toks with
  | kind :: param :: rest ->
    let ops = split_ops rest in
    (* groups separated by == *)
    let groups = List.fold_left (fun acc op -> match op with
        | ["=="] -> [] :: acc
        | _ -> (match acc with g :: r -> (op :: g) :: r | [] -> [[op]])) [[]] ops |> List.rev_map List.rev in
    (match kind with
     | "flush" ->
       let g = List.nth groups (List.length groups - 1) in
       let bytes = serialize_from (build_mem g) in
       [ "trace " ^ String.concat " " (trace_of_plan [PWrite (bytes_of_ascii "t0", bytes_of_ascii "!m0", [bytes])]) ]
     | "consol" ->
       let shards = List.map (fun a -> match String.split_on_char '=' a with
           | [n; b] -> (bytes_of_ascii n, bytes_of_hex b)
           | _ -> failwith "bad shard aux") (List.filter (fun x -> x <> "") aux) in
       let temps = List.init (List.length shards + 1) (fun i -> bytes_of_ascii (Printf.sprintf "t%d" i)) in
       (match consolidate (N.to_nat (n_of_int (List.length shards + 2))) (n_of_string param) shards temps [] with
        | None -> ["MODEL: a merge failed"]
        | Some (pl, _) ->
          (* merged shards are named by the hash of their content, which holds a creation time: normalise to M<k> *)
          let inputs = List.map (fun (n, _) -> ascii n) shards in
          let pl = List.map (fun st -> match st with
              | PWrite (t, d, ch) -> PWrite (t, (if List.mem (ascii d) inputs then d else bytes_of_ascii ("!" ^ ascii d)), ch)
              | s -> s) pl in
          [ "trace " ^ String.concat " " (trace_of_plan pl) ])
     | "xorb" ->
       let chunks = crash_xorb_chunks 7 3 in
       let hashes = List.map compute_data_hash chunks in
       let nodes = List.map2 (fun h c -> (h, n_of_int (List.length c))) hashes chunks in
       let cashash = (match cas_node_hash compute_internal_node_hash nodes with Some h -> h | None -> failwith "fuel") in
       let bytes = xorb_serialize (fun x -> x) (fun _ -> N0) cashash chunks hashes (Some N0) in
       let name = "xorbs/default." ^ disp cashash in
       [ "trace " ^ String.concat " " (trace_of_plan [PWrite (bytes_of_ascii "t0", bytes_of_ascii name, [bytes])]) ]
     | "cput" ->
       let g0 = List.nth groups 0 and g1 = List.nth groups 1 in
       let evicting = List.length groups > 2 in
       let uni = ref [||] in
       List.iter (fun op -> match op with
           | ["U"; kb; lens] -> uni := Array.append !uni [| (bytes_of_hex kb, Array.of_list (List.map int_of_string (String.split_on_char ',' lens))) |]
           | _ -> ()) g0;
       let mk_put k s e = let (offs, data) = cache_slice !uni k s e in OPut (fst (!uni).(k), n_of_int s, n_of_int e, List.map n_of_int offs, data) in
       if evicting then ["trace (eviction: victims are random)"] else begin
         let st = ref { tracked = []; nitems = N0; tbytes = N0; fs = []; cap = n_of_string param } in
         List.iter (fun op -> match op with
             | ["P"; k; s; e] -> let ((s1, _), _) = run_op !st (mk_put (int_of_string k) (int_of_string s) (int_of_string e)) [] in st := s1
             | _ -> ()) g0;
         (match g1 with
          | [["P"; k; s; e]] ->
            let o = mk_put (int_of_string k) (int_of_string s) (int_of_string e) in
            let path_str (((a, b), c) : (n list * n list) * n list) = ascii a ^ "/" ^ ascii b ^ "/" ^ ascii c in
            (* run the thread; the plan is the file write at its install step and the unlinks it performs afterwards *)
            let rec go s p acc guard =
              if guard = 0 then List.rev acc else
              match p with
              | PDone _ -> List.rev acc
              | _ ->
                let acc = (match p with
                    | PHookFM (OPut (kk, _, _, offs, data)) ->
                      PWrite (bytes_of_ascii "t0", bytes_of_ascii (path_str (item_path kk (new_item (match p with PHookFM o -> o | _ -> o)))), [encode_file offs data]) :: acc
                    | PUnl (_, q :: _) -> PUnlink (bytes_of_ascii (path_str q)) :: acc
                    | PRemHook (oo, it) -> (match fs_read_opt s (item_path (op_key oo) it) with true -> PUnlink (bytes_of_ascii (path_str (item_path (op_key oo) it))) :: acc | false -> acc)
                    | _ -> acc) in
                let ((s1, p1), _) = mstep s p [] in go s1 p1 acc (guard - 1) in
            let pl = go !st (start_op o) [] 10000 in
            (* the unlinks after the commit are a set *)
            let (w, u) = List.partition (function PWrite _ -> true | _ -> false) pl in
            let tr = trace_of_plan w @ List.sort compare (trace_of_plan u) in
            [ "trace " ^ String.concat " " tr ]
          | _ -> failwith "cput op")
       end
     | _ -> failwith "crash kind")
  | _ -> failwith "bad crash case"

(* ------------------------------------------------------------------------- singleflight (C20): trace acceptance *)
let rec nat_of_int n = if n <= 0 then O else S (nat_of_int (n - 1))
let rec int_of_nat = function O -> 0 | S n -> 1 + int_of_nat n
let sf_out_str = function OVal v -> "val:" ^ dec_n v | OErr e -> "err:" ^ dec_n e | OPanic -> "panic"
let sf_res_str = function
  | RVal v -> "val:" ^ dec_n v | RWaiterErr e -> "waitererr:" ^ dec_n e | RJoinErr -> "joinerr" | ROwnerPanicked -> "ownerpanicked"
  | RNoResult -> "noresult" | RCallMissing -> "callmissing"
let sf_task_str = function TNotSpawned -> "n" | TSpawned -> "s" | TRunning -> "r" | TGotOutcome o -> "g" ^ sf_out_str o | TCompleted o -> "c" ^ sf_out_str o | TExited o -> "x" ^ sf_out_str o
let sf_pc_str = function
  | CIdle -> "i" | CArrive k -> "a" ^ dec_n k
  | CGotCall (k, cid, cr) -> Printf.sprintf "g%s.%d.%b" (dec_n k) (int_of_nat cid) cr
  | CSpawn (k, cid, n) -> Printf.sprintf "s%s.%d.%b" (dec_n k) (int_of_nat cid) n
  | CWait (k, cid, cr, n) -> Printf.sprintf "w%s.%d.%b.%b" (dec_n k) (int_of_nat cid) cr n
  | CRemove (k, cid, r) -> Printf.sprintf "r%s.%d.%s" (dec_n k) (int_of_nat cid) (sf_res_str r)
  | CReturned (cid, r, o) -> Printf.sprintf "R%d.%s.%b" (int_of_nat cid) (sf_res_str r) o

let sf_accepts (nc : int) (nk : int) (trace : string list array) : (bool * int) =
  let canon (s : sfstate) =
    let b = Buffer.create 64 in
    for c = 0 to nc - 1 do Buffer.add_string b (sf_pc_str (s.sf_callers (nat_of_int c))); Buffer.add_char b '|' done;
    for cid = 0 to int_of_nat s.sf_next - 1 do
      let x = s.sf_calls (nat_of_int cid) in
      Buffer.add_string b (sf_task_str x.c_task); Buffer.add_char b (match x.c_res with Some _ -> '+' | None -> '-'); Buffer.add_char b '|' done;
    for k = 0 to nk - 1 do Buffer.add_string b (match s.sf_map (n_of_int k) with Some cid -> string_of_int (int_of_nat cid) | None -> "_"); Buffer.add_char b '|' done;
    Buffer.contents b in
  let seen = Hashtbl.create 1024 in
  let best = ref 0 in
  let cid_of_creator (s : sfstate) c pred =
    let r = ref None in
    for cid = 0 to int_of_nat s.sf_next - 1 do
      let x = s.sf_calls (nat_of_int cid) in
      if int_of_nat x.c_creator = c && pred x.c_task then r := Some (nat_of_int cid) done; !r in
  let rec go (s : sfstate) (i : int) : bool =
    if i > !best then best := i;
    if i = Array.length trace then true else begin
      let key = canon s ^ "#" ^ string_of_int i in
      if Hashtbl.mem seen key then false else begin
        Hashtbl.add seen key ();
        (* consume the next observed event if the model allows it now *)
        let consumed =
          (match trace.(i) with
           | ["arrive"; c; k] -> (match sf_step s (EArrive (nat_of_int (int_of_string c), n_of_int (int_of_string k))) with Some s1 -> go s1 (i + 1) | None -> false)
           | ["start"; c] ->
             (match cid_of_creator s (int_of_string c) (fun t -> t = TSpawned) with
              | Some cid -> (match sf_step s (ETaskStart cid) with Some s1 -> go s1 (i + 1) | None -> false)
              | None -> false)
           | ["end"; c; o] ->
             let o = (match String.split_on_char ':' o with ["val"; v] -> OVal (n_of_string v) | ["err"; e] -> OErr (n_of_string e) | _ -> OPanic) in
             (match cid_of_creator s (int_of_string c) (fun t -> t = TRunning) with
              | Some cid -> (match sf_step s (ETaskOutcome (cid, o)) with Some s1 -> go s1 (i + 1) | None -> false)
              | None -> false)
           | ["ret"; c; r; owner] ->
             (match s.sf_callers (nat_of_int (int_of_string c)) with
              | CReturned (_, r', o') -> if sf_res_str r' = r && string_of_bool o' = owner then go s (i + 1) else false
              | _ -> false)
           | _ -> failwith "bad trace event") in
        if consumed then true else begin
          (* otherwise try every enabled internal step *)
          let ok = ref false in
          let try_ev e = if not !ok then (match sf_step s e with Some s1 -> if go s1 i then ok := true | None -> ()) in
          for c = 0 to nc - 1 do try_ev (EStep (nat_of_int c)) done;
          for cid = 0 to int_of_nat s.sf_next - 1 do try_ev (ETaskComplete (nat_of_int cid)); try_ev (ETaskExit (nat_of_int cid)) done;
          !ok
        end
      end
    end in
  let r = go sf_init 0 in (r, !best)

let run_sf toks =
  let (toks, aux) = split_aux toks in
  let ops = split_ops toks in
  let nc = List.fold_left (fun a op -> match op with "A" :: c :: _ -> Stdlib.max a (int_of_string c + 1) | _ -> a) 0 ops in
  let text = String.concat " " aux in
  (* flavours separated by " || ", events by " ; " *)
  let split_str sep s =
    let ls = String.length sep in
    let rec go acc start i =
      if i + ls > String.length s then List.rev (String.sub s start (String.length s - start) :: acc)
      else if String.sub s i ls = sep then go (String.sub s start (i - start) :: acc) (i + ls) (i + ls)
      else go acc start (i + 1) in
    go [] 0 0 in
  List.map (fun fl ->
      match split_str ": " fl with
      | name :: rest ->
        let evs = List.filter (fun x -> x <> "") (split_str " ; " (String.concat ": " rest)) in
        let trace = Array.of_list (List.map (fun e ->
            match String.split_on_char ' ' (String.trim e) with
            | ["arrive"; c; k] -> ["arrive"; c; String.sub k 1 (String.length k - 1)]
            | l -> l) evs) in
        let (ok, best) = sf_accepts nc 4 trace in
        if ok then String.trim name ^ " accepted" else Printf.sprintf "%s REJECTED: the model has no run that produces event %d (%s)" (String.trim name) best (if best < Array.length trace then String.concat " " trace.(best) else "-")
      | [] -> "bad aux") (List.filter (fun x -> String.trim x <> "") (split_str " || " text))

(* ------------------------------------------------------------------------- reconstruction (C17) *)
let recon_chunk x i len = List.init len (fun j -> byte_tab.((x * 53 + i * 19 + j * 5 + 2) mod 256))
let run_recon toks =
  let ops = split_ops toks in
  let xorbs = ref [||] and terms = ref [] and fetch = ref [] in
  List.iter (fun op -> match op with
      | ["X"; lens] -> xorbs := Array.append !xorbs [| Array.of_list (List.map int_of_string (String.split_on_char ',' lens)) |]
      | ["T"; x; s; e] -> terms := !terms @ [(int_of_string x, int_of_string s, int_of_string e)]
      | ["F"; x; s; e] -> fetch := !fetch @ [(int_of_string x, int_of_string s, int_of_string e)]
      | _ -> ()) ops;
  let chunks x s e = List.init (e - s) (fun k -> recon_chunk x (s + k) (!xorbs).(x).(s + k)) in
  (* the data of a term: the model's get_one_term (cold cache: the first fetch-info entry of the term's xorb that covers it is
     downloaded and trimmed); the fetch info is the list of ranges recorded for that xorb, in the order of the case *)
  let term_data (x, s, e) =
    let infos = List.filter_map (fun (fx, fs, fe) -> if fx = x then Some (n_of_int fs, n_of_int fe) else None) !fetch in
    let ul = List.fold_left (fun a c -> a + List.length c) 0 (chunks x s e) in
    (match get_one_term None infos (fun fs fe -> chunks x (int_of_n fs) (int_of_n fe)) (n_of_int s) (n_of_int e) (n_of_int ul) with
     | Some d -> d | None -> failwith "get_one_term: error") in
  let tdata = List.map term_data !terms in
  let qn = ref 0 in
  List.concat_map (fun op -> match op with
      | "Q" :: mode :: bs :: be :: _cache :: rest ->
        let rounds = (match rest with [r] -> int_of_string r | _ -> 1) in
        let range = if be = "-" then None else Some (int_of_string bs, int_of_string be) in
        let (sel, off) = (match range with
            | None -> (tdata, 0)
            | Some (bs, be) ->
              let pos = ref 0 and sel = ref [] and off = ref 0 in
              List.iter (fun d -> let a = !pos and b = !pos + List.length d in
                          if b > bs && a < be then begin (if !sel = [] then off := bs - a); sel := !sel @ [d] end; pos := b) tdata;
              (!sel, !off)) in
        let total = (match range with Some (bs, be) -> be - bs | None -> List.fold_left (fun a d -> a + List.length d) 0 sel) in
        let res =
          if mode = "seq" then (match seq_write sel true (n_of_int off) (n_of_int total) with Some f -> Some (f, n_of_int total) | None -> None)
          else (match par_write sel (List.map (fun d -> n_of_int (List.length d)) sel) (n_of_int off) (n_of_int total) (List.init (List.length sel) nat_of_int) with
              | Some (f, n) -> Some (f, n) | None -> None) in
        let k = !qn in incr qn;
        List.init rounds (fun r -> match res with
            | Some (f, n) -> Printf.sprintf "Q%d.%d len=%s out=%s" k r (dec_n n) (cksum_bytes f)
            | None -> Printf.sprintf "Q%d.%d err" k r)
      | _ -> []) ops

(* ------------------------------------------------------------------------- upload sessions (C16) *)
let run_upl toks =
  let (_, aux) = split_aux toks in
  let text = String.concat " " aux in
  let split_str sep s =
    let ls = String.length sep in
    let rec go acc start i =
      if i + ls > String.length s then List.rev (String.sub s start (String.length s - start) :: acc)
      else if String.sub s i ls = sep then go (String.sub s start (i - start) :: acc) (i + ls) (i + ls)
      else go acc start (i + 1) in
    go [] 0 0 in
  List.filter_map (fun sess ->
      match split_str ": " sess with
      | name :: rest ->
        let evs = List.filter (fun x -> String.trim x <> "") (split_str " ; " (String.concat ": " rest)) in
        let toks = List.map (fun e -> String.split_on_char ' ' (String.trim e)) evs in
        (* the session's task bookkeeping replayed on the observed store calls, up to the first shard upload *)
        let rec upto acc = function [] -> List.rev acc | ("shard_start" :: _) :: _ -> List.rev acc | e :: r -> upto (e :: acc) r in
        let before = upto [] toks in
        let events = List.filter_map (function
            | ["put_start"; k] -> Some (URegister (nat_of_int (int_of_string k)))
            | ["put_end"; k; r] -> Some (UFinish (nat_of_int (int_of_string k), r = "ok"))
            | _ -> None) before in
        let s = urun true u_init events in
        let put_failed = List.exists (function ["put_end"; _; "err"] -> true | _ -> false) toks in
        let shard_started = List.exists (function "shard_start" :: _ -> true | _ -> false) toks in
        let shard_failed = List.exists (function ["shard_end"; _; "err"] -> true | _ -> false) toks in
        let allowed = (finalize_join true s = Some true) in
        Some (Printf.sprintf "%s put_failed=%b shard_started=%s success=%s" (String.trim name) put_failed
                (if shard_started && not allowed then "NOT-ALLOWED-BY-MODEL" else string_of_bool shard_started)
                (* what the caller is told, by the model's session_result on the whole log: the registrations and completions
                   of the puts, then the shard uploads with their outcomes; a session can report success only when the model's
                   session does (finalize still waiting for a put that was cut off by an earlier error is not a success) *)
                (let all_events = List.filter_map (function
                     | ["put_start"; k] -> Some (URegister (nat_of_int (int_of_string k)))
                     | ["put_end"; k; r] -> Some (UFinish (nat_of_int (int_of_string k), r = "ok"))
                     | _ -> None) toks in
                 let shards = List.filter_map (function ["shard_end"; _; r] -> Some (r = "ok") | _ -> None) toks in
                 ignore shard_failed;
                 string_of_bool (session_result true all_events shards = Some true)))
      | [] -> None) (List.filter (fun x -> String.trim x <> "") (split_str " || " text))

let () =
  let stream = Sys.argv.(1) in
  let ic = open_in Sys.argv.(2) in
  (try
     while true do
       let line = String.trim (input_line ic) in
       if line <> "" && line.[0] <> '#' then begin
         match String.split_on_char ' ' line with
         | id :: toks ->
           let obs = try (match stream with
             | "c04" -> [run_c04 toks]
             | "c06" -> [run_c06 toks]
             | "c09" -> run_c09 toks
             | "c05" -> run_c05 toks
             | "c10" -> run_c10 toks
             | "c18" -> run_c18 toks
             | "dd" -> run_dd toks
             | "cache" -> run_cache toks
             | "crash" -> run_crash toks
             | "mgr" -> run_mgr toks
             | "sf" -> run_sf toks
             | "recon" -> run_recon toks
             | "upl" -> run_upl toks
             | "c07" -> run_c07 toks
             | "bg4" -> run_bg4 toks
             | "c08" -> run_c08 toks
             | _ -> failwith "unknown stream")
             with Stack_overflow -> ["MODEL-EXCEPTION stack-overflow"] | e -> ["MODEL-EXCEPTION " ^ Printexc.to_string e] in
           List.iter (fun o -> Printf.printf "obs %s %s\n" id o) obs
         | [] -> ()
       end
     done
   with End_of_file -> ());
  close_in ic
