(* OCaml side of the correspondence check: runs the extracted Gallina models on a case file and
   prints one canonical observation per case, in the same format as the Rust harness (xv). *)
open Model

let rec pos_of_int n = if n = 1 then XH else if n land 1 = 0 then XO (pos_of_int (n lsr 1)) else XI (pos_of_int (n lsr 1))
let n_of_int n = if n = 0 then N0 else Npos (pos_of_int n)
let rec int_of_pos = function XH -> 1 | XO p -> 2 * int_of_pos p | XI p -> 2 * int_of_pos p + 1
let int_of_n = function N0 -> 0 | Npos p -> int_of_pos p

(* byte values as shared N constants *)
let byte_tab = Array.init 256 n_of_int

let hexval c = match c with '0'..'9' -> Char.code c - 48 | 'a'..'f' -> Char.code c - 87 | _ -> failwith "bad hex"
let bytes_of_hex s : n list =
  if s = "-" then [] else begin
    let l = String.length s / 2 in
    let r = ref [] in
    for i = l - 1 downto 0 do
      r := byte_tab.(hexval s.[2*i] * 16 + hexval s.[2*i+1]) :: !r
    done; !r end

(* arbitrary-size decimal literal -> N (lengths may exceed OCaml's int) *)
let n_of_string (s : string) : n =
  let ten = n_of_int 10 in
  let acc = ref N0 in
  String.iter (fun c -> acc := N.add (N.mul !acc ten) (n_of_int (Char.code c - 48))) s; !acc

let split_on c s = if s = "" then [] else String.split_on_char c s

let str_of_bytes (l : n list) = String.concat "" (List.map (fun b -> String.make 1 (Char.chr (int_of_n b))) l)
let hex_of_bytes (l : n list) = if l = [] then "-" else String.concat "" (List.map (fun b -> Printf.sprintf "%02x" (int_of_n b)) l)
let disp h = str_of_bytes (hex h)

let parse_nodes s =
  if s = "-" || s = "" then [] else
    List.map (fun e -> match String.split_on_char ':' e with
        | [h; l] -> (bytes_of_hex h, n_of_string l)
        | _ -> failwith "bad node") (String.split_on_char ',' s)

let run_c06 toks =
  match toks with
  | ["dh"; d] -> disp (compute_data_hash (bytes_of_hex d))
  | ["ih"; d] -> disp (compute_internal_node_hash (bytes_of_hex d))
  | ["hmac"; h; k] -> disp (hmac (bytes_of_hex h) (bytes_of_hex k))
  | ["range"; l] -> disp (range_hash_from_chunks (List.map bytes_of_hex (List.filter (fun x -> x <> "" && x <> "-") (String.split_on_char ',' l))))
  | ["cas"; l] ->
    let ns = parse_nodes l in
    (match cas_node_hash compute_internal_node_hash ns, validator_root compute_internal_node_hash ns with
     | Some a, Some v -> "cas=" ^ disp a ^ " val=" ^ disp v
     | _ -> "OUT-OF-FUEL")
  | ["file"; salt; l] ->
    (match file_node_hash (parse_nodes l) (bytes_of_hex salt) with Some h -> disp h | None -> "OUT-OF-FUEL")
  | ["casneq"; a; b] ->
    (match cas_node_hash compute_internal_node_hash (parse_nodes a), cas_node_hash compute_internal_node_hash (parse_nodes b) with
     | Some x, Some y -> if x = y then "eq" else "neq"
     | _ -> "OUT-OF-FUEL")
  | ["hexof"; h] -> let h = bytes_of_hex h in "hex=" ^ disp h ^ " b64=" ^ str_of_bytes (base64 h)
  | ["fromhex"; s] -> (match from_hex (bytes_of_hex s) with Some h -> "ok " ^ hex_of_bytes h | None -> "err")
  | ["fromb64"; s] -> (match from_base64 (bytes_of_hex s) with Some h -> "ok " ^ hex_of_bytes h | None -> "err")
  | ["hw"; calls] ->
    let calls = List.map (fun c -> match String.split_on_char ':' c with
        | [b; a] -> (bytes_of_hex b, if a = "e" then None else Some (n_of_int (int_of_string a)))
        | _ -> failwith "bad hw call") (String.split_on_char ';' calls) in
    let (hashed, _) = hashed_write hashed_write_hashes_whole_buffer calls [] [] in
    disp (compute_data_hash hashed)
  | _ -> failwith "bad c06 case"

let run_c04 toks =
  match toks with
  | target :: rest ->
    let calls = match rest with [] -> [] | c :: _ -> split_on ';' c in
    let calls = List.map (fun c ->
        match String.split_on_char ':' c with
        | [h; f] -> (bytes_of_hex h, f = "1")
        | _ -> failwith "bad call") calls in
    (match chunker_new (n_of_int (int_of_string target)) with
     | None -> "PANIC"
     | Some cfg ->
       (match run_calls cfg st0 calls with
        | None -> "OUT-OF-FUEL"
        | Some chs -> "[" ^ String.concat "," (List.map (fun ch -> string_of_int (List.length ch)) chs) ^ "]"))
  | _ -> failwith "bad c04 case"

let () =
  let stream = Sys.argv.(1) in
  let ic = open_in Sys.argv.(2) in
  (try
     while true do
       let line = String.trim (input_line ic) in
       if line <> "" && line.[0] <> '#' then begin
         match String.split_on_char ' ' line with
         | id :: toks ->
           let obs = try (match stream with
             | "c04" -> run_c04 toks
             | "c06" -> run_c06 toks
             | _ -> failwith "unknown stream")
             with Stack_overflow -> "MODEL-EXCEPTION stack-overflow" | e -> "MODEL-EXCEPTION " ^ Printexc.to_string e in
           Printf.printf "obs %s %s\n" id obs
         | [] -> ()
       end
     done
   with End_of_file -> ());
  close_in ic
