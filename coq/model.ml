
(** val negb : bool -> bool **)

let negb = function
| true -> false
| false -> true

type nat =
| O
| S of nat

(** val fst : ('a1 * 'a2) -> 'a1 **)

let fst = function
| (x, _) -> x

(** val snd : ('a1 * 'a2) -> 'a2 **)

let snd = function
| (_, y) -> y

(** val length : 'a1 list -> nat **)

let rec length = function
| [] -> O
| _ :: l' -> S (length l')

(** val app : 'a1 list -> 'a1 list -> 'a1 list **)

let rec app l m =
  match l with
  | [] -> m
  | a :: l1 -> a :: (app l1 m)

type comparison =
| Eq
| Lt
| Gt

type uint =
| Nil
| D0 of uint
| D1 of uint
| D2 of uint
| D3 of uint
| D4 of uint
| D5 of uint
| D6 of uint
| D7 of uint
| D8 of uint
| D9 of uint

(** val revapp : uint -> uint -> uint **)

let rec revapp d d' =
  match d with
  | Nil -> d'
  | D0 d0 -> revapp d0 (D0 d')
  | D1 d0 -> revapp d0 (D1 d')
  | D2 d0 -> revapp d0 (D2 d')
  | D3 d0 -> revapp d0 (D3 d')
  | D4 d0 -> revapp d0 (D4 d')
  | D5 d0 -> revapp d0 (D5 d')
  | D6 d0 -> revapp d0 (D6 d')
  | D7 d0 -> revapp d0 (D7 d')
  | D8 d0 -> revapp d0 (D8 d')
  | D9 d0 -> revapp d0 (D9 d')

(** val rev : uint -> uint **)

let rev d =
  revapp d Nil

module Little =
 struct
  (** val double : uint -> uint **)

  let rec double = function
  | Nil -> Nil
  | D0 d0 -> D0 (double d0)
  | D1 d0 -> D2 (double d0)
  | D2 d0 -> D4 (double d0)
  | D3 d0 -> D6 (double d0)
  | D4 d0 -> D8 (double d0)
  | D5 d0 -> D0 (succ_double d0)
  | D6 d0 -> D2 (succ_double d0)
  | D7 d0 -> D4 (succ_double d0)
  | D8 d0 -> D6 (succ_double d0)
  | D9 d0 -> D8 (succ_double d0)

  (** val succ_double : uint -> uint **)

  and succ_double = function
  | Nil -> D1 Nil
  | D0 d0 -> D1 (double d0)
  | D1 d0 -> D3 (double d0)
  | D2 d0 -> D5 (double d0)
  | D3 d0 -> D7 (double d0)
  | D4 d0 -> D9 (double d0)
  | D5 d0 -> D1 (succ_double d0)
  | D6 d0 -> D3 (succ_double d0)
  | D7 d0 -> D5 (succ_double d0)
  | D8 d0 -> D7 (succ_double d0)
  | D9 d0 -> D9 (succ_double d0)
 end

module Coq__1 = struct
 (** val add : nat -> nat -> nat **)
 let rec add n0 m =
   match n0 with
   | O -> m
   | S p -> S (add p m)
end
include Coq__1

(** val mul : nat -> nat -> nat **)

let rec mul n0 m =
  match n0 with
  | O -> O
  | S p -> add m (mul p m)

(** val leb : nat -> nat -> bool **)

let rec leb n0 m =
  match n0 with
  | O -> true
  | S n' -> (match m with
             | O -> false
             | S m' -> leb n' m')

(** val ltb : nat -> nat -> bool **)

let ltb n0 m =
  leb (S n0) m

(** val divmod : nat -> nat -> nat -> nat -> nat * nat **)

let rec divmod x y q u =
  match x with
  | O -> (q, u)
  | S x' -> (match u with
             | O -> divmod x' y (S q) y
             | S u' -> divmod x' y q u')

(** val div : nat -> nat -> nat **)

let div x y = match y with
| O -> y
| S y' -> fst (divmod x y' O y')

type positive =
| XI of positive
| XO of positive
| XH

type n =
| N0
| Npos of positive

module Pos =
 struct
  type mask =
  | IsNul
  | IsPos of positive
  | IsNeg
 end

module Coq_Pos =
 struct
  (** val succ : positive -> positive **)

  let rec succ = function
  | XI p -> XO (succ p)
  | XO p -> XI p
  | XH -> XO XH

  (** val add : positive -> positive -> positive **)

  let rec add x y =
    match x with
    | XI p ->
      (match y with
       | XI q -> XO (add_carry p q)
       | XO q -> XI (add p q)
       | XH -> XO (succ p))
    | XO p ->
      (match y with
       | XI q -> XI (add p q)
       | XO q -> XO (add p q)
       | XH -> XI p)
    | XH -> (match y with
             | XI q -> XO (succ q)
             | XO q -> XI q
             | XH -> XO XH)

  (** val add_carry : positive -> positive -> positive **)

  and add_carry x y =
    match x with
    | XI p ->
      (match y with
       | XI q -> XI (add_carry p q)
       | XO q -> XO (add_carry p q)
       | XH -> XI (succ p))
    | XO p ->
      (match y with
       | XI q -> XO (add_carry p q)
       | XO q -> XI (add p q)
       | XH -> XO (succ p))
    | XH ->
      (match y with
       | XI q -> XI (succ q)
       | XO q -> XO (succ q)
       | XH -> XI XH)

  (** val pred_double : positive -> positive **)

  let rec pred_double = function
  | XI p -> XI (XO p)
  | XO p -> XI (pred_double p)
  | XH -> XH

  type mask = Pos.mask =
  | IsNul
  | IsPos of positive
  | IsNeg

  (** val succ_double_mask : mask -> mask **)

  let succ_double_mask = function
  | IsNul -> IsPos XH
  | IsPos p -> IsPos (XI p)
  | IsNeg -> IsNeg

  (** val double_mask : mask -> mask **)

  let double_mask = function
  | IsPos p -> IsPos (XO p)
  | x0 -> x0

  (** val double_pred_mask : positive -> mask **)

  let double_pred_mask = function
  | XI p -> IsPos (XO (XO p))
  | XO p -> IsPos (XO (pred_double p))
  | XH -> IsNul

  (** val sub_mask : positive -> positive -> mask **)

  let rec sub_mask x y =
    match x with
    | XI p ->
      (match y with
       | XI q -> double_mask (sub_mask p q)
       | XO q -> succ_double_mask (sub_mask p q)
       | XH -> IsPos (XO p))
    | XO p ->
      (match y with
       | XI q -> succ_double_mask (sub_mask_carry p q)
       | XO q -> double_mask (sub_mask p q)
       | XH -> IsPos (pred_double p))
    | XH -> (match y with
             | XH -> IsNul
             | _ -> IsNeg)

  (** val sub_mask_carry : positive -> positive -> mask **)

  and sub_mask_carry x y =
    match x with
    | XI p ->
      (match y with
       | XI q -> succ_double_mask (sub_mask_carry p q)
       | XO q -> double_mask (sub_mask p q)
       | XH -> IsPos (pred_double p))
    | XO p ->
      (match y with
       | XI q -> double_mask (sub_mask_carry p q)
       | XO q -> succ_double_mask (sub_mask_carry p q)
       | XH -> double_pred_mask p)
    | XH -> IsNeg

  (** val mul : positive -> positive -> positive **)

  let rec mul x y =
    match x with
    | XI p -> add y (XO (mul p y))
    | XO p -> XO (mul p y)
    | XH -> y

  (** val iter : ('a1 -> 'a1) -> 'a1 -> positive -> 'a1 **)

  let rec iter f x = function
  | XI n' -> f (iter f (iter f x n') n')
  | XO n' -> iter f (iter f x n') n'
  | XH -> f x

  (** val size : positive -> positive **)

  let rec size = function
  | XI p0 -> succ (size p0)
  | XO p0 -> succ (size p0)
  | XH -> XH

  (** val compare_cont : comparison -> positive -> positive -> comparison **)

  let rec compare_cont r x y =
    match x with
    | XI p ->
      (match y with
       | XI q -> compare_cont r p q
       | XO q -> compare_cont Gt p q
       | XH -> Gt)
    | XO p ->
      (match y with
       | XI q -> compare_cont Lt p q
       | XO q -> compare_cont r p q
       | XH -> Gt)
    | XH -> (match y with
             | XH -> r
             | _ -> Lt)

  (** val compare : positive -> positive -> comparison **)

  let compare =
    compare_cont Eq

  (** val eqb : positive -> positive -> bool **)

  let rec eqb p q =
    match p with
    | XI p0 -> (match q with
                | XI q0 -> eqb p0 q0
                | _ -> false)
    | XO p0 -> (match q with
                | XO q0 -> eqb p0 q0
                | _ -> false)
    | XH -> (match q with
             | XH -> true
             | _ -> false)

  (** val coq_Nsucc_double : n -> n **)

  let coq_Nsucc_double = function
  | N0 -> Npos XH
  | Npos p -> Npos (XI p)

  (** val coq_Ndouble : n -> n **)

  let coq_Ndouble = function
  | N0 -> N0
  | Npos p -> Npos (XO p)

  (** val coq_lor : positive -> positive -> positive **)

  let rec coq_lor p q =
    match p with
    | XI p0 ->
      (match q with
       | XI q0 -> XI (coq_lor p0 q0)
       | XO q0 -> XI (coq_lor p0 q0)
       | XH -> p)
    | XO p0 ->
      (match q with
       | XI q0 -> XI (coq_lor p0 q0)
       | XO q0 -> XO (coq_lor p0 q0)
       | XH -> XI p0)
    | XH -> (match q with
             | XO q0 -> XI q0
             | _ -> q)

  (** val coq_land : positive -> positive -> n **)

  let rec coq_land p q =
    match p with
    | XI p0 ->
      (match q with
       | XI q0 -> coq_Nsucc_double (coq_land p0 q0)
       | XO q0 -> coq_Ndouble (coq_land p0 q0)
       | XH -> Npos XH)
    | XO p0 ->
      (match q with
       | XI q0 -> coq_Ndouble (coq_land p0 q0)
       | XO q0 -> coq_Ndouble (coq_land p0 q0)
       | XH -> N0)
    | XH -> (match q with
             | XO _ -> N0
             | _ -> Npos XH)

  (** val coq_lxor : positive -> positive -> n **)

  let rec coq_lxor p q =
    match p with
    | XI p0 ->
      (match q with
       | XI q0 -> coq_Ndouble (coq_lxor p0 q0)
       | XO q0 -> coq_Nsucc_double (coq_lxor p0 q0)
       | XH -> Npos (XO p0))
    | XO p0 ->
      (match q with
       | XI q0 -> coq_Nsucc_double (coq_lxor p0 q0)
       | XO q0 -> coq_Ndouble (coq_lxor p0 q0)
       | XH -> Npos (XI p0))
    | XH ->
      (match q with
       | XI q0 -> Npos (XO q0)
       | XO q0 -> Npos (XI q0)
       | XH -> N0)

  (** val shiftl : positive -> n -> positive **)

  let shiftl p = function
  | N0 -> p
  | Npos n1 -> iter (fun x -> XO x) p n1

  (** val iter_op : ('a1 -> 'a1 -> 'a1) -> positive -> 'a1 -> 'a1 **)

  let rec iter_op op p a =
    match p with
    | XI p0 -> op a (iter_op op p0 (op a a))
    | XO p0 -> iter_op op p0 (op a a)
    | XH -> a

  (** val to_nat : positive -> nat **)

  let to_nat x =
    iter_op Coq__1.add x (S O)

  (** val of_succ_nat : nat -> positive **)

  let rec of_succ_nat = function
  | O -> XH
  | S x -> succ (of_succ_nat x)

  (** val to_little_uint : positive -> uint **)

  let rec to_little_uint = function
  | XI p0 -> Little.succ_double (to_little_uint p0)
  | XO p0 -> Little.double (to_little_uint p0)
  | XH -> D1 Nil

  (** val to_uint : positive -> uint **)

  let to_uint p =
    rev (to_little_uint p)
 end

module N =
 struct
  (** val succ_double : n -> n **)

  let succ_double = function
  | N0 -> Npos XH
  | Npos p -> Npos (XI p)

  (** val double : n -> n **)

  let double = function
  | N0 -> N0
  | Npos p -> Npos (XO p)

  (** val add : n -> n -> n **)

  let add n0 m =
    match n0 with
    | N0 -> m
    | Npos p -> (match m with
                 | N0 -> n0
                 | Npos q -> Npos (Coq_Pos.add p q))

  (** val sub : n -> n -> n **)

  let sub n0 m =
    match n0 with
    | N0 -> N0
    | Npos n' ->
      (match m with
       | N0 -> n0
       | Npos m' ->
         (match Coq_Pos.sub_mask n' m' with
          | Coq_Pos.IsPos p -> Npos p
          | _ -> N0))

  (** val mul : n -> n -> n **)

  let mul n0 m =
    match n0 with
    | N0 -> N0
    | Npos p -> (match m with
                 | N0 -> N0
                 | Npos q -> Npos (Coq_Pos.mul p q))

  (** val compare : n -> n -> comparison **)

  let compare n0 m =
    match n0 with
    | N0 -> (match m with
             | N0 -> Eq
             | Npos _ -> Lt)
    | Npos n' -> (match m with
                  | N0 -> Gt
                  | Npos m' -> Coq_Pos.compare n' m')

  (** val eqb : n -> n -> bool **)

  let eqb n0 m =
    match n0 with
    | N0 -> (match m with
             | N0 -> true
             | Npos _ -> false)
    | Npos p -> (match m with
                 | N0 -> false
                 | Npos q -> Coq_Pos.eqb p q)

  (** val leb : n -> n -> bool **)

  let leb x y =
    match compare x y with
    | Gt -> false
    | _ -> true

  (** val ltb : n -> n -> bool **)

  let ltb x y =
    match compare x y with
    | Lt -> true
    | _ -> false

  (** val min : n -> n -> n **)

  let min n0 n' =
    match compare n0 n' with
    | Gt -> n'
    | _ -> n0

  (** val div2 : n -> n **)

  let div2 = function
  | N0 -> N0
  | Npos p0 -> (match p0 with
                | XI p -> Npos p
                | XO p -> Npos p
                | XH -> N0)

  (** val log2 : n -> n **)

  let log2 = function
  | N0 -> N0
  | Npos p0 ->
    (match p0 with
     | XI p -> Npos (Coq_Pos.size p)
     | XO p -> Npos (Coq_Pos.size p)
     | XH -> N0)

  (** val size : n -> n **)

  let size = function
  | N0 -> N0
  | Npos p -> Npos (Coq_Pos.size p)

  (** val pos_div_eucl : positive -> n -> n * n **)

  let rec pos_div_eucl a b =
    match a with
    | XI a' ->
      let (q, r) = pos_div_eucl a' b in
      let r' = succ_double r in
      if leb b r' then ((succ_double q), (sub r' b)) else ((double q), r')
    | XO a' ->
      let (q, r) = pos_div_eucl a' b in
      let r' = double r in
      if leb b r' then ((succ_double q), (sub r' b)) else ((double q), r')
    | XH ->
      (match b with
       | N0 -> (N0, (Npos XH))
       | Npos p -> (match p with
                    | XH -> ((Npos XH), N0)
                    | _ -> (N0, (Npos XH))))

  (** val div_eucl : n -> n -> n * n **)

  let div_eucl a b =
    match a with
    | N0 -> (N0, N0)
    | Npos na -> (match b with
                  | N0 -> (N0, a)
                  | Npos _ -> pos_div_eucl na b)

  (** val div : n -> n -> n **)

  let div a b =
    fst (div_eucl a b)

  (** val modulo : n -> n -> n **)

  let modulo a b =
    snd (div_eucl a b)

  (** val coq_lor : n -> n -> n **)

  let coq_lor n0 m =
    match n0 with
    | N0 -> m
    | Npos p -> (match m with
                 | N0 -> n0
                 | Npos q -> Npos (Coq_Pos.coq_lor p q))

  (** val coq_land : n -> n -> n **)

  let coq_land n0 m =
    match n0 with
    | N0 -> N0
    | Npos p -> (match m with
                 | N0 -> N0
                 | Npos q -> Coq_Pos.coq_land p q)

  (** val coq_lxor : n -> n -> n **)

  let coq_lxor n0 m =
    match n0 with
    | N0 -> m
    | Npos p -> (match m with
                 | N0 -> n0
                 | Npos q -> Coq_Pos.coq_lxor p q)

  (** val shiftl : n -> n -> n **)

  let shiftl a n0 =
    match a with
    | N0 -> N0
    | Npos a0 -> Npos (Coq_Pos.shiftl a0 n0)

  (** val shiftr : n -> n -> n **)

  let shiftr a = function
  | N0 -> a
  | Npos p -> Coq_Pos.iter div2 a p

  (** val to_nat : n -> nat **)

  let to_nat = function
  | N0 -> O
  | Npos p -> Coq_Pos.to_nat p

  (** val of_nat : nat -> n **)

  let of_nat = function
  | O -> N0
  | S n' -> Npos (Coq_Pos.of_succ_nat n')

  (** val to_uint : n -> uint **)

  let to_uint = function
  | N0 -> D0 Nil
  | Npos p -> Coq_Pos.to_uint p
 end

(** val nth : nat -> 'a1 list -> 'a1 -> 'a1 **)

let rec nth n0 l default =
  match n0 with
  | O -> (match l with
          | [] -> default
          | x :: _ -> x)
  | S m -> (match l with
            | [] -> default
            | _ :: t -> nth m t default)

(** val rev0 : 'a1 list -> 'a1 list **)

let rec rev0 = function
| [] -> []
| x :: l' -> app (rev0 l') (x :: [])

(** val rev_append : 'a1 list -> 'a1 list -> 'a1 list **)

let rec rev_append l l' =
  match l with
  | [] -> l'
  | a :: l0 -> rev_append l0 (a :: l')

(** val concat : 'a1 list list -> 'a1 list **)

let rec concat = function
| [] -> []
| x :: l0 -> app x (concat l0)

(** val map : ('a1 -> 'a2) -> 'a1 list -> 'a2 list **)

let rec map f = function
| [] -> []
| a :: t -> (f a) :: (map f t)

(** val flat_map : ('a1 -> 'a2 list) -> 'a1 list -> 'a2 list **)

let rec flat_map f = function
| [] -> []
| x :: t -> app (f x) (flat_map f t)

(** val fold_right : ('a2 -> 'a1 -> 'a1) -> 'a1 -> 'a2 list -> 'a1 **)

let rec fold_right f a0 = function
| [] -> a0
| b :: t -> f b (fold_right f a0 t)

(** val firstn : nat -> 'a1 list -> 'a1 list **)

let rec firstn n0 l =
  match n0 with
  | O -> []
  | S n1 -> (match l with
             | [] -> []
             | a :: l0 -> a :: (firstn n1 l0))

(** val skipn : nat -> 'a1 list -> 'a1 list **)

let rec skipn n0 l =
  match n0 with
  | O -> l
  | S n1 -> (match l with
             | [] -> []
             | _ :: l0 -> skipn n1 l0)

(** val seq : nat -> nat -> nat list **)

let rec seq start = function
| O -> []
| S len0 -> start :: (seq (S start) len0)

(** val repeat : 'a1 -> nat -> 'a1 list **)

let rec repeat x = function
| O -> []
| S k -> x :: (repeat x k)

(** val dATA_KEY : n list **)

let dATA_KEY =
  (Npos (XO (XI (XI (XO (XO (XI XH))))))) :: ((Npos (XI (XI (XI (XO (XI (XO
    (XO XH)))))))) :: ((Npos (XI (XO (XI (XO (XI (XI (XI XH)))))))) :: ((Npos
    (XI (XI (XI (XO (XI (XI XH))))))) :: ((Npos (XI (XI (XO (XI (XI (XO
    XH))))))) :: ((Npos (XI (XO (XI (XO (XI (XO (XO XH)))))))) :: ((Npos (XO
    (XO (XO (XO (XI (XO XH))))))) :: ((Npos (XO (XI (XI (XI (XI (XO (XI
    XH)))))))) :: ((Npos (XI (XO (XO (XO (XI XH)))))) :: ((Npos (XI (XO (XI
    (XO (XI XH)))))) :: ((Npos (XI (XI (XO (XI (XO (XO (XI
    XH)))))))) :: ((Npos (XO (XO (XI (XI (XO (XI (XO XH)))))))) :: ((Npos (XI
    (XO (XI (XO (XO (XI (XO XH)))))))) :: ((Npos (XI (XI (XI (XO (XI (XO (XO
    XH)))))))) :: ((Npos (XO (XO (XO (XI XH))))) :: ((Npos (XO (XO (XI (XI
    XH))))) :: ((Npos (XI (XO (XI (XI (XI (XO (XO XH)))))))) :: ((Npos (XO
    (XO (XI (XO (XO (XI (XI XH)))))))) :: ((Npos (XI (XO (XO (XO (XO
    XH)))))) :: ((Npos (XO (XO (XO (XO XH))))) :: ((Npos (XI (XI (XO (XI (XI
    (XO (XO XH)))))))) :: ((Npos (XI (XI (XO (XI (XO (XI (XI
    XH)))))))) :: ((Npos (XI (XI (XO (XI (XO XH)))))) :: ((Npos (XO (XO (XO
    (XI (XI (XO XH))))))) :: ((Npos (XO (XO (XI (XO (XI (XI (XO
    XH)))))))) :: ((Npos (XO (XO (XO (XO (XI (XO (XI XH)))))))) :: ((Npos (XO
    (XO (XO (XO (XI (XI (XO XH)))))))) :: ((Npos (XI (XI (XO (XI (XO (XO
    XH))))))) :: ((Npos (XI (XI (XO (XO (XI (XO (XO XH)))))))) :: ((Npos (XI
    (XO (XI (XI (XO (XI (XO XH)))))))) :: ((Npos (XO (XI (XO (XO (XI (XI (XI
    XH)))))))) :: ((Npos (XI (XO (XO (XI (XO
    XH)))))) :: [])))))))))))))))))))))))))))))))

(** val iNTERNAL_NODE_HASH : n list **)

let iNTERNAL_NODE_HASH =
  (Npos XH) :: ((Npos (XO (XI (XI (XI (XI (XI XH))))))) :: ((Npos (XI (XO (XI
    (XO (XO (XO (XI XH)))))))) :: ((Npos (XI (XI (XI (XO (XO (XO (XI
    XH)))))))) :: ((Npos (XI (XO (XI (XO (XO (XI (XO XH)))))))) :: ((Npos (XI
    (XI (XI (XO (XO (XO XH))))))) :: ((Npos (XI (XO (XO (XI (XO
    XH)))))) :: ((Npos (XO (XI (XI (XO (XI (XO (XO XH)))))))) :: ((Npos (XI
    (XO (XI (XI (XI (XI (XI XH)))))))) :: ((Npos (XO (XO (XI (XO (XI (XO (XO
    XH)))))))) :: ((Npos (XO (XI (XI (XO (XO (XI XH))))))) :: ((Npos (XO (XI
    (XI (XO (XO (XI XH))))))) :: ((Npos (XO (XO (XI (XO (XI (XI (XO
    XH)))))))) :: ((Npos (XO (XI (XO (XI (XO (XO (XO XH)))))))) :: ((Npos (XO
    XH)) :: ((Npos (XO (XI (XI (XO (XO (XI (XI XH)))))))) :: ((Npos (XI (XO
    (XI (XI (XI (XO XH))))))) :: ((Npos (XI (XO (XI (XI (XI (XO (XI
    XH)))))))) :: ((Npos (XI (XI (XO (XO (XI (XO XH))))))) :: ((Npos (XI (XI
    (XI (XI (XO (XI XH))))))) :: ((Npos (XI (XI (XI (XO (XI
    XH)))))) :: ((Npos (XI (XI (XI (XO (XO (XO (XI XH)))))))) :: ((Npos (XI
    (XO (XI (XI (XO (XI XH))))))) :: ((Npos (XO (XI (XO (XO (XI (XO (XI
    XH)))))))) :: ((Npos (XO (XO (XO (XI (XI (XI (XI XH)))))))) :: ((Npos (XI
    (XI (XO (XO (XO (XI XH))))))) :: ((Npos (XO (XI (XO (XO (XI (XO
    XH))))))) :: ((Npos (XO (XI (XI (XO (XO (XI (XI XH)))))))) :: ((Npos (XO
    (XI (XO (XI (XO (XO XH))))))) :: ((Npos (XI (XI (XO (XO (XI (XO
    XH))))))) :: ((Npos (XI (XO (XO (XO (XI (XI XH))))))) :: ((Npos (XI (XI
    (XI (XI (XI XH)))))) :: [])))))))))))))))))))))))))))))))

(** val vERIFICATION_KEY : n list **)

let vERIFICATION_KEY =
  (Npos (XI (XI (XI (XI (XI (XI XH))))))) :: ((Npos (XO (XO (XO (XI
    XH))))) :: ((Npos (XI (XI (XI (XO (XI (XO XH))))))) :: ((Npos (XO (XI (XI
    (XO (XI (XO (XI XH)))))))) :: ((Npos (XO (XI (XI (XI (XO (XO (XI
    XH)))))))) :: ((Npos (XO (XI (XI (XO (XI (XO XH))))))) :: ((Npos (XI (XO
    (XI (XI (XO (XI (XI XH)))))))) :: ((Npos (XO (XI (XI (XO (XO (XI
    XH))))))) :: ((Npos (XO (XI (XO (XO XH))))) :: ((Npos (XI (XI (XI (XI (XI
    (XI XH))))))) :: ((Npos (XI (XO (XO (XI (XI (XI (XI XH)))))))) :: ((Npos
    (XI (XI (XO (XO XH))))) :: ((Npos (XI (XI (XI (XO (XO (XI (XI
    XH)))))))) :: ((Npos (XI (XO (XI (XO (XO (XI (XO XH)))))))) :: ((Npos (XI
    (XI (XO (XO (XO (XO (XI XH)))))))) :: ((Npos (XI (XI (XO (XO (XI (XI (XI
    XH)))))))) :: ((Npos (XO (XO (XI (XO (XO (XI (XO XH)))))))) :: ((Npos (XI
    (XO (XI (XI (XO (XO (XI XH)))))))) :: ((Npos (XO (XI (XI (XO (XO
    XH)))))) :: ((Npos (XI (XO (XI (XO (XI (XO (XI XH)))))))) :: ((Npos (XI
    (XO (XI (XO (XI (XI (XO XH)))))))) :: ((Npos (XI (XI (XO (XI (XI (XO (XI
    XH)))))))) :: ((Npos (XI (XO (XO (XI (XO (XO XH))))))) :: ((Npos (XO (XI
    (XI (XO (XO (XI (XI XH)))))))) :: ((Npos (XI (XO (XO (XO (XO (XO
    XH))))))) :: ((Npos (XO (XO (XI (XO (XO XH)))))) :: ((Npos (XO (XO (XO
    (XI (XI (XO (XO XH)))))))) :: ((Npos (XI (XI (XI (XI (XI (XI
    XH))))))) :: ((Npos (XO (XO (XO (XI (XO XH)))))) :: ((Npos (XI (XI (XO
    (XI (XI (XI (XI XH)))))))) :: ((Npos (XO (XO (XI (XO (XI (XO (XO
    XH)))))))) :: ((Npos (XI (XI (XO (XO (XO (XO (XI
    XH)))))))) :: [])))))))))))))))))))))))))))))))

(** val mEAN_TREE_BRANCHING_FACTOR : n **)

let mEAN_TREE_BRANCHING_FACTOR =
  Npos (XO (XO XH))

(** val merkle_cut : n -> n -> n -> n -> bool **)

let merkle_cut num_children_so_far test_hash_3 idx total_children =
  (||)
    ((||)
      ((&&) (N.leb (Npos (XO XH)) num_children_so_far)
        (N.eqb (N.modulo test_hash_3 mEAN_TREE_BRANCHING_FACTOR) N0))
      (N.leb (N.mul (Npos (XO XH)) mEAN_TREE_BRANCHING_FACTOR)
        num_children_so_far)) (N.eqb (N.add idx (Npos XH)) total_children)

(** val hashed_write_hashes_whole_buffer : bool **)

let hashed_write_hashes_whole_buffer =
  false

(** val gear : n -> n **)

let gear = function
| N0 ->
  Npos (XI (XO (XO (XI (XI (XO (XI (XO (XI (XO (XI (XO (XI (XI (XI (XI (XO
    (XO (XO (XO (XO (XO (XI (XO (XO (XO (XO (XI (XO (XI (XI (XI (XI (XO (XO
    (XI (XO (XI (XO (XI (XI (XI (XO (XO (XI (XO (XI (XI (XO (XO (XO (XI (XO
    (XO (XO (XI (XO (XO (XO (XO (XI (XI (XO
    XH)))))))))))))))))))))))))))))))))))))))))))))))))))))))))))))))
| Npos p ->
  (match p with
   | XI p0 ->
     (match p0 with
      | XI p1 ->
        (match p1 with
         | XI p2 ->
           (match p2 with
            | XI p3 ->
              (match p3 with
               | XI p4 ->
                 (match p4 with
                  | XI p5 ->
                    (match p5 with
                     | XI p6 ->
                       (match p6 with
                        | XH ->
                          Npos (XI (XI (XO (XI (XI (XI (XI (XO (XO (XO (XO
                            (XI (XI (XO (XO (XO (XI (XO (XI (XI (XI (XO (XI
                            (XI (XI (XO (XO (XO (XO (XO (XI (XI (XO (XI (XI
                            (XO (XO (XO (XO (XO (XI (XO (XO (XI (XO (XI (XO
                            (XI (XI (XI (XI (XO (XO (XO (XI (XI (XI (XI (XO
                            (XO (XO (XI
                            XH))))))))))))))))))))))))))))))))))))))))))))))))))))))))))))))
                        | _ -> N0)
                     | XO p6 ->
                       (match p6 with
                        | XH ->
                          Npos (XO (XO (XI (XO (XI (XO (XI (XO (XO (XO (XI
                            (XO (XO (XI (XI (XI (XO (XI (XO (XO (XO (XO (XI
                            (XO (XI (XI (XI (XI (XO (XI (XI (XO (XO (XO (XI
                            (XO (XO (XO (XO (XI (XO (XO (XO (XO (XO (XO (XI
                            (XO (XI (XI (XO (XI (XO (XO (XI (XO (XI (XO (XI
                            (XO (XI (XI (XI
                            XH)))))))))))))))))))))))))))))))))))))))))))))))))))))))))))))))
                        | _ -> N0)
                     | XH ->
                       Npos (XO (XI (XI (XO (XO (XO (XO (XO (XO (XO (XI (XI
                         (XI (XO (XI (XI (XO (XO (XO (XI (XO (XI (XO (XO (XI
                         (XI (XI (XI (XO (XO (XO (XO (XO (XI (XO (XO (XI (XO
                         (XO (XO (XO (XI (XO (XO (XO (XI (XO (XO (XO (XI (XI
                         (XO (XO (XI (XI (XI (XI (XI (XO (XO
                         XH)))))))))))))))))))))))))))))))))))))))))))))))))))))))))))))
                  | XO p5 ->
                    (match p5 with
                     | XI p6 ->
                       (match p6 with
                        | XH ->
                          Npos (XI (XI (XO (XI (XI (XO (XO (XO (XO (XI (XI
                            (XO (XI (XO (XO (XI (XO (XI (XO (XO (XI (XO (XO
                            (XO (XO (XI (XO (XI (XI (XI (XO (XI (XI (XI (XO
                            (XO (XI (XO (XI
                            XH)))))))))))))))))))))))))))))))))))))))
                        | _ -> N0)
                     | XO p6 ->
                       (match p6 with
                        | XH ->
                          Npos (XI (XO (XI (XO (XO (XO (XO (XI (XI (XI (XI
                            (XI (XI (XO (XO (XO (XI (XO (XO (XI (XO (XI (XI
                            (XI (XO (XI (XO (XI (XO (XI (XI (XO (XI (XI (XI
                            (XI (XO (XI (XO (XO (XI (XI (XI (XI (XO (XO (XI
                            (XO (XI (XI (XO (XO (XI (XI (XI (XO (XO (XI (XO
                            (XO (XO (XI (XO
                            XH)))))))))))))))))))))))))))))))))))))))))))))))))))))))))))))))
                        | _ -> N0)
                     | XH ->
                       Npos (XI (XO (XO (XI (XI (XO (XI (XO (XI (XO (XO (XI
                         (XO (XO (XO (XI (XI (XO (XO (XO (XI (XI (XI (XI (XI
                         (XO (XI (XI (XI (XO (XI (XI (XI (XO (XO (XO (XO (XO
                         (XO (XI (XI (XO (XO (XO (XI (XO (XO (XO (XO (XI (XI
                         (XO (XO (XO (XO (XI (XO (XI (XO (XO (XO (XO (XI
                         XH))))))))))))))))))))))))))))))))))))))))))))))))))))))))))))))))
                  | XH ->
                    Npos (XI (XI (XI (XO (XO (XO (XO (XI (XO (XI (XI (XO (XO
                      (XI (XI (XI (XO (XI (XO (XI (XO (XI (XO (XI (XI (XO (XI
                      (XI (XO (XO (XI (XO (XO (XO (XO (XO (XI (XI (XO (XI (XO
                      (XI (XI (XO (XO (XI (XO (XO (XO (XI (XI (XO (XO (XI (XO
                      (XI (XO (XO (XI (XI (XO (XI (XO
                      XH))))))))))))))))))))))))))))))))))))))))))))))))))))))))))))))))
               | XO p4 ->
                 (match p4 with
                  | XI p5 ->
                    (match p5 with
                     | XI p6 ->
                       (match p6 with
                        | XH ->
                          Npos (XI (XI (XO (XI (XO (XI (XI (XI (XI (XI (XO
                            (XI (XI (XO (XI (XI (XO (XI (XO (XI (XI (XO (XO
                            (XI (XI (XO (XI (XI (XI (XO (XO (XO (XI (XO (XO
                            (XO (XI (XO (XI (XO (XO (XO (XI (XI (XO (XI (XI
                            (XI (XO (XO (XI (XI (XO (XO (XI (XI (XO (XI (XI
                            (XI (XO (XI
                            XH))))))))))))))))))))))))))))))))))))))))))))))))))))))))))))))
                        | _ -> N0)
                     | XO p6 ->
                       (match p6 with
                        | XH ->
                          Npos (XO (XI (XO (XO (XO (XO (XO (XO (XO (XI (XI
                            (XO (XI (XI (XI (XI (XI (XO (XO (XI (XI (XI (XO
                            (XI (XI (XO (XO (XO (XI (XO (XO (XO (XO (XI (XI
                            (XO (XO (XI (XI (XO (XO (XI (XI (XI (XI (XO (XI
                            (XI (XO (XI (XI (XO (XI (XO (XI (XI (XI (XO (XO
                            (XI (XI (XO (XI
                            XH)))))))))))))))))))))))))))))))))))))))))))))))))))))))))))))))
                        | _ -> N0)
                     | XH ->
                       Npos (XI (XO (XI (XO (XI (XI (XO (XO (XO (XI (XI (XO
                         (XO (XI (XI (XO (XO (XI (XO (XO (XO (XI (XO (XI (XI
                         (XI (XI (XI (XI (XO (XO (XI (XI (XI (XO (XI (XI (XO
                         (XI (XO (XI (XO (XI (XI (XI (XO (XI (XI (XI (XI (XO
                         (XO (XI (XI (XO (XO (XI (XI (XO (XO (XO (XO
                         XH)))))))))))))))))))))))))))))))))))))))))))))))))))))))))))))))
                  | XO p5 ->
                    (match p5 with
                     | XI p6 ->
                       (match p6 with
                        | XH ->
                          Npos (XO (XI (XI (XI (XO (XO (XI (XO (XO (XO (XO
                            (XI (XI (XI (XI (XO (XI (XO (XO (XO (XO (XI (XO
                            (XI (XI (XO (XI (XI (XI (XI (XO (XI (XO (XO (XO
                            (XO (XI (XO (XO (XI (XI (XO (XO (XI (XI (XO (XI
                            (XO (XO (XI (XI (XO (XI (XI (XI (XO (XO (XO (XI
                            (XI (XI (XI (XO
                            XH)))))))))))))))))))))))))))))))))))))))))))))))))))))))))))))))
                        | _ -> N0)
                     | XO p6 ->
                       (match p6 with
                        | XH ->
                          Npos (XI (XO (XO (XI (XO (XO (XO (XI (XO (XO (XI
                            (XO (XI (XO (XO (XI (XI (XI (XI (XI (XO (XI (XO
                            (XO (XI (XO (XI (XI (XO (XO (XO (XI (XI (XO (XO
                            (XI (XO (XO (XI (XI (XO (XO (XO (XI (XI (XO (XI
                            (XI (XI (XO (XI (XO (XI (XO (XI (XI (XI (XO (XI
                            (XI (XI
                            XH)))))))))))))))))))))))))))))))))))))))))))))))))))))))))))))
                        | _ -> N0)
                     | XH ->
                       Npos (XO (XO (XO (XI (XI (XO (XI (XI (XI (XO (XO (XI
                         (XO (XO (XI (XO (XI (XI (XI (XI (XO (XI (XI (XO (XO
                         (XO (XO (XI (XI (XI (XO (XO (XI (XI (XI (XO (XO (XI
                         (XI (XI (XO (XI (XI (XI (XO (XO (XI (XI (XO (XI (XI
                         (XI (XI (XI (XO (XI (XI (XO (XI (XI (XI (XO (XO
                         XH))))))))))))))))))))))))))))))))))))))))))))))))))))))))))))))))
                  | XH ->
                    Npos (XO (XO (XO (XI (XO (XO (XI (XI (XO (XO (XI (XI (XI
                      (XI (XO (XI (XI (XO (XI (XI (XI (XO (XI (XO (XO (XI (XO
                      (XO (XO (XI (XI (XO (XI (XI (XO (XO (XI (XO (XO (XO (XO
                      (XO (XO (XI (XO (XI (XI (XI (XI (XI (XI (XO (XO (XI (XI
                      (XI (XI (XO (XI (XI (XO (XI (XO
                      XH))))))))))))))))))))))))))))))))))))))))))))))))))))))))))))))))
               | XH ->
                 Npos (XI (XI (XO (XO (XI (XI (XI (XO (XO (XO (XO (XI (XO (XO
                   (XI (XI (XI (XO (XO (XO (XI (XO (XO (XO (XI (XO (XI (XI
                   (XI (XO (XI (XI (XI (XO (XI (XI (XO (XO (XI (XI (XI (XO
                   (XI (XI (XO (XO (XI (XO (XO (XI (XI (XI (XI (XO (XI
                   XH))))))))))))))))))))))))))))))))))))))))))))))))))))))))
            | XO p3 ->
              (match p3 with
               | XI p4 ->
                 (match p4 with
                  | XI p5 ->
                    (match p5 with
                     | XI p6 ->
                       (match p6 with
                        | XH ->
                          Npos (XO (XO (XO (XI (XO (XI (XI (XI (XO (XO (XI
                            (XI (XO (XI (XI (XO (XO (XO (XI (XO (XI (XO (XO
                            (XI (XI (XO (XO (XI (XO (XI (XI (XI (XO (XO (XI
                            (XO (XI (XO (XO (XO (XI (XI (XO (XI (XO (XO (XI
                            (XO (XI (XI (XI (XI (XI (XI (XO (XI (XI (XI (XO
                            (XI (XO (XO (XI
                            XH)))))))))))))))))))))))))))))))))))))))))))))))))))))))))))))))
                        | _ -> N0)
                     | XO p6 ->
                       (match p6 with
                        | XH ->
                          Npos (XI (XI (XI (XO (XI (XI (XI (XI (XO (XI (XO
                            (XI (XO (XO (XI (XI (XI (XI (XI (XO (XO (XO (XI
                            (XO (XO (XO (XO (XI (XI (XO (XO (XI (XO (XO (XI
                            (XI (XI (XO (XO (XI (XO (XI (XI (XO (XO (XO (XO
                            (XO (XO (XO (XI (XI (XI (XO (XO (XO (XO
                            XH)))))))))))))))))))))))))))))))))))))))))))))))))))))))))
                        | _ -> N0)
                     | XH ->
                       Npos (XI (XI (XI (XO (XI (XO (XI (XO (XO (XI (XO (XI
                         (XO (XO (XO (XI (XO (XI (XI (XI (XO (XI (XO (XI (XI
                         (XO (XO (XI (XO (XI (XI (XI (XO (XI (XI (XO (XI (XI
                         (XO (XI (XI (XO (XO (XI (XO (XO (XO (XI (XI (XO (XO
                         (XO (XI (XO (XI (XO (XI (XO (XO (XI (XO (XI
                         XH)))))))))))))))))))))))))))))))))))))))))))))))))))))))))))))))
                  | XO p5 ->
                    (match p5 with
                     | XI p6 ->
                       (match p6 with
                        | XH ->
                          Npos (XI (XO (XO (XI (XI (XO (XO (XI (XO (XI (XO
                            (XO (XI (XI (XI (XI (XO (XO (XO (XI (XO (XO (XO
                            (XI (XI (XO (XI (XI (XO (XO (XI (XI (XO (XI (XI
                            (XO (XI (XO (XO (XO (XI (XO (XI (XO (XO (XI (XI
                            (XI (XO (XO (XI (XI (XI (XI (XI (XI (XI (XO (XO
                            (XO (XO (XO
                            XH))))))))))))))))))))))))))))))))))))))))))))))))))))))))))))))
                        | _ -> N0)
                     | XO p6 ->
                       (match p6 with
                        | XH ->
                          Npos (XI (XO (XI (XO (XI (XI (XI (XO (XI (XO (XO
                            (XI (XI (XI (XO (XO (XI (XO (XO (XI (XO (XI (XI
                            (XO (XI (XO (XI (XI (XI (XI (XO (XO (XO (XI (XO
                            (XO (XO (XO (XO (XI (XO (XI (XI (XI (XI (XI (XI
                            (XI (XI (XI (XO (XI (XI (XI (XI (XO (XO (XO (XO
                            (XO (XO
                            XH)))))))))))))))))))))))))))))))))))))))))))))))))))))))))))))
                        | _ -> N0)
                     | XH ->
                       Npos (XO (XO (XO (XI (XI (XO (XI (XO (XI (XI (XO (XI
                         (XI (XI (XI (XI (XI (XO (XI (XO (XO (XI (XI (XI (XO
                         (XI (XO (XI (XO (XI (XO (XI (XI (XI (XO (XO (XO (XI
                         (XI (XI (XI (XI (XI (XI (XI (XO (XI (XI (XI (XI (XI
                         (XO (XO (XI (XI (XI (XI (XI (XI (XO (XO (XI (XO
                         XH))))))))))))))))))))))))))))))))))))))))))))))))))))))))))))))))
                  | XH ->
                    Npos (XI (XI (XI (XO (XO (XO (XI (XO (XO (XO (XI (XI (XO
                      (XO (XI (XO (XI (XO (XI (XI (XI (XI (XI (XO (XI (XI (XI
                      (XO (XI (XO (XO (XI (XO (XI (XI (XO (XO (XI (XI (XI (XI
                      (XO (XO (XI (XI (XO (XO (XO (XO (XI (XO (XO (XI (XI (XO
                      (XI (XO (XO (XO (XO (XI (XI (XO
                      XH))))))))))))))))))))))))))))))))))))))))))))))))))))))))))))))))
               | XO p4 ->
                 (match p4 with
                  | XI p5 ->
                    (match p5 with
                     | XI p6 ->
                       (match p6 with
                        | XH ->
                          Npos (XI (XI (XO (XI (XO (XO (XI (XI (XO (XI (XO
                            (XO (XI (XI (XI (XO (XO (XO (XI (XI (XO (XI (XO
                            (XI (XO (XO (XI (XO (XI (XI (XI (XO (XO (XI (XO
                            (XO (XI (XI (XO (XI (XO (XI (XO (XO (XO (XO (XI
                            (XI (XO (XO (XI (XO (XO
                            XH)))))))))))))))))))))))))))))))))))))))))))))))))))))
                        | _ -> N0)
                     | XO p6 ->
                       (match p6 with
                        | XH ->
                          Npos (XI (XI (XO (XI (XI (XO (XO (XI (XO (XI (XI
                            (XO (XO (XO (XO (XO (XO (XI (XO (XI (XI (XO (XO
                            (XI (XI (XI (XI (XO (XO (XI (XI (XI (XO (XI (XO
                            (XI (XO (XI (XI (XO (XI (XI (XI (XI (XO (XO (XI
                            XH)))))))))))))))))))))))))))))))))))))))))))))))
                        | _ -> N0)
                     | XH ->
                       Npos (XI (XO (XO (XO (XI (XO (XI (XI (XI (XI (XI (XO
                         (XI (XO (XI (XO (XI (XI (XO (XI (XI (XI (XI (XO (XI
                         (XI (XI (XI (XI (XI (XI (XO (XO (XO (XO (XO (XI (XO
                         (XI (XO (XO (XO (XI (XO (XI (XO (XI (XO (XO (XO (XI
                         (XI (XO (XO (XO (XO (XO (XI (XO (XO (XI (XO
                         XH)))))))))))))))))))))))))))))))))))))))))))))))))))))))))))))))
                  | XO p5 ->
                    (match p5 with
                     | XI p6 ->
                       (match p6 with
                        | XH ->
                          Npos (XO (XO (XO (XI (XI (XI (XO (XO (XI (XI (XO
                            (XI (XI (XI (XI (XI (XI (XI (XO (XI (XI (XI (XI
                            (XI (XO (XO (XO (XO (XI (XO (XI (XI (XO (XO (XO
                            (XI (XO (XO (XI (XI (XI (XI (XI (XI (XI (XI (XO
                            (XI (XO (XI (XO (XO (XO (XI (XI (XI (XO (XO (XO
                            (XI (XO (XO
                            XH))))))))))))))))))))))))))))))))))))))))))))))))))))))))))))))
                        | _ -> N0)
                     | XO p6 ->
                       (match p6 with
                        | XH ->
                          Npos (XO (XO (XI (XI (XI (XI (XI (XO (XO (XO (XI
                            (XO (XO (XO (XI (XI (XI (XI (XO (XI (XI (XI (XI
                            (XI (XI (XO (XO (XI (XI (XI (XO (XO (XO (XO (XO
                            (XO (XO (XO (XI (XO (XO (XI (XI (XI (XI (XI (XO
                            (XI (XO (XO (XO (XO (XO (XI (XI (XI (XO (XO (XO
                            (XI (XI (XI (XO
                            XH)))))))))))))))))))))))))))))))))))))))))))))))))))))))))))))))
                        | _ -> N0)
                     | XH ->
                       Npos (XO (XI (XI (XO (XO (XO (XI (XI (XO (XO (XI (XO
                         (XI (XO (XO (XO (XO (XO (XI (XI (XI (XO (XO (XI (XO
                         (XO (XI (XO (XO (XO (XI (XO (XO (XO (XO (XI (XO (XI
                         (XO (XI (XO (XO (XI (XO (XI (XO (XO (XI (XI (XI (XO
                         (XI (XI (XI (XI (XI (XO (XO (XO (XI (XI (XI
                         XH)))))))))))))))))))))))))))))))))))))))))))))))))))))))))))))))
                  | XH ->
                    Npos (XI (XI (XO (XO (XO (XO (XI (XI (XI (XI (XI (XI (XO
                      (XO (XI (XI (XO (XO (XI (XO (XO (XO (XO (XO (XO (XO (XI
                      (XO (XI (XO (XO (XI (XO (XI (XO (XI (XO (XO (XI (XO (XI
                      (XI (XO (XI (XO (XO (XI (XO (XO (XI (XI (XI (XI (XO (XI
                      (XI (XO (XI (XO (XI (XI (XI (XO
                      XH))))))))))))))))))))))))))))))))))))))))))))))))))))))))))))))))
               | XH ->
                 Npos (XI (XO (XI (XO (XO (XO (XI (XI (XI (XI (XO (XI (XI (XI
                   (XI (XO (XI (XI (XI (XO (XO (XO (XI (XO (XI (XO (XI (XO
                   (XI (XO (XO (XI (XO (XI (XI (XO (XO (XO (XO (XO
                   XH)))))))))))))))))))))))))))))))))))))))))
            | XH ->
              Npos (XI (XI (XI (XI (XO (XO (XO (XO (XI (XO (XI (XI (XO (XI
                (XO (XI (XO (XO (XO (XO (XI (XI (XI (XO (XI (XO (XI (XO (XI
                (XO (XO (XO (XO (XO (XI (XI (XI (XO (XI (XI (XO (XI (XI (XI
                (XI (XI (XI (XO (XO (XO (XO (XO (XI (XI (XO (XI (XI (XO (XO
                (XI (XI (XO (XO
                XH))))))))))))))))))))))))))))))))))))))))))))))))))))))))))))))))
         | XO p2 ->
           (match p2 with
            | XI p3 ->
              (match p3 with
               | XI p4 ->
                 (match p4 with
                  | XI p5 ->
                    (match p5 with
                     | XI p6 ->
                       (match p6 with
                        | XH ->
                          Npos (XI (XO (XI (XI (XI (XO (XI (XI (XI (XI (XI
                            (XI (XI (XI (XI (XO (XO (XO (XO (XO (XO (XI (XO
                            (XI (XI (XI (XI (XO (XO (XO (XI (XO (XO (XO (XI
                            (XO (XI (XI (XO (XO (XO (XI (XO (XO (XI (XI (XO
                            (XI (XI (XI (XI (XI (XO (XI (XO (XI (XI (XI (XI
                            (XO (XI (XO
                            XH))))))))))))))))))))))))))))))))))))))))))))))))))))))))))))))
                        | _ -> N0)
                     | XO p6 ->
                       (match p6 with
                        | XH ->
                          Npos (XI (XO (XI (XO (XO (XI (XI (XO (XO (XI (XO
                            (XI (XI (XI (XI (XI (XI (XO (XI (XI (XI (XI (XO
                            (XI (XO (XI (XI (XO (XO (XO (XO (XO (XI (XO (XI
                            (XO (XO (XO (XI (XO (XO (XI (XI (XI (XO (XI (XO
                            (XO (XO (XO (XI (XO (XI (XO (XO (XI (XO (XO (XI
                            (XI (XI (XI (XO
                            XH)))))))))))))))))))))))))))))))))))))))))))))))))))))))))))))))
                        | _ -> N0)
                     | XH ->
                       Npos (XI (XO (XI (XO (XO (XI (XI (XI (XI (XO (XI (XO
                         (XI (XO (XO (XO (XO (XO (XI (XO (XO (XI (XI (XO (XO
                         (XO (XO (XI (XO (XO (XI (XI (XI (XO (XI (XO (XI (XI
                         (XO (XI (XO (XI (XI (XO (XO (XO (XI
                         XH))))))))))))))))))))))))))))))))))))))))))))))))
                  | XO p5 ->
                    (match p5 with
                     | XI p6 ->
                       (match p6 with
                        | XH ->
                          Npos (XO (XI (XI (XO (XI (XO (XI (XO (XI (XO (XI
                            (XI (XO (XI (XO (XI (XO (XI (XI (XO (XI (XI (XO
                            (XI (XI (XI (XO (XO (XO (XO (XI (XO (XI (XI (XO
                            (XO (XO (XO (XO (XI (XO (XI (XI (XI (XI (XO (XI
                            (XO (XI (XI (XI (XI (XO (XO (XO (XI (XI (XI (XO
                            (XI (XO (XO (XO
                            XH)))))))))))))))))))))))))))))))))))))))))))))))))))))))))))))))
                        | _ -> N0)
                     | XO p6 ->
                       (match p6 with
                        | XH ->
                          Npos (XO (XI (XI (XO (XI (XO (XO (XO (XO (XO (XO
                            (XI (XI (XI (XI (XO (XO (XI (XI (XI (XI (XO (XI
                            (XO (XO (XO (XI (XI (XI (XI (XI (XI (XI (XO (XO
                            (XI (XO (XI (XO (XO (XO (XI (XO (XI (XI (XO (XO
                            (XO (XI (XI (XO (XI (XI (XI (XI (XO (XO (XI (XO
                            (XO (XI (XI (XO
                            XH)))))))))))))))))))))))))))))))))))))))))))))))))))))))))))))))
                        | _ -> N0)
                     | XH ->
                       Npos (XI (XI (XO (XO (XO (XI (XO (XO (XI (XO (XI (XO
                         (XI (XI (XI (XI (XO (XO (XI (XO (XI (XI (XI (XO (XI
                         (XI (XI (XO (XO (XO (XO (XO (XO (XO (XI (XI (XO (XI
                         (XO (XI (XI (XO (XO (XO (XI (XO (XI (XI (XI (XO (XI
                         (XI (XO (XO (XI (XI (XI (XO (XI (XI (XO (XO
                         XH)))))))))))))))))))))))))))))))))))))))))))))))))))))))))))))))
                  | XH ->
                    Npos (XO (XI (XI (XI (XI (XI (XI (XI (XI (XO (XI (XI (XI
                      (XI (XO (XI (XI (XO (XI (XI (XI (XI (XO (XI (XO (XI (XI
                      (XO (XO (XO (XO (XI (XI (XI (XO (XO (XI (XO (XI (XI (XO
                      (XI (XO (XO (XI (XO (XI (XI (XI (XI (XI (XO (XO (XO (XO
                      (XO (XO (XO (XO (XI (XO (XO (XI
                      XH))))))))))))))))))))))))))))))))))))))))))))))))))))))))))))))))
               | XO p4 ->
                 (match p4 with
                  | XI p5 ->
                    (match p5 with
                     | XI p6 ->
                       (match p6 with
                        | XH ->
                          Npos (XI (XI (XO (XI (XI (XO (XO (XI (XI (XI (XO
                            (XO (XI (XI (XI (XO (XO (XO (XO (XI (XI (XI (XI
                            (XO (XI (XO (XO (XO (XO (XI (XI (XO (XI (XI (XI
                            (XO (XO (XO (XI (XI (XI (XI (XO (XO (XO (XI (XI
                            (XI (XO (XI (XI (XO (XO (XO (XO (XI (XI (XO (XO
                            (XI (XO (XO (XI
                            XH)))))))))))))))))))))))))))))))))))))))))))))))))))))))))))))))
                        | _ -> N0)
                     | XO p6 ->
                       (match p6 with
                        | XH ->
                          Npos (XO (XI (XI (XO (XO (XI (XO (XO (XI (XI (XI
                            (XO (XO (XO (XI (XO (XI (XI (XO (XI (XO (XI (XO
                            (XO (XO (XI (XI (XO (XO (XI (XI (XI (XI (XO (XI
                            (XI (XI (XO (XO (XO (XO (XO (XI (XI (XO (XI (XO
                            (XI (XO (XO (XO (XI (XO (XO (XO (XI (XI (XO (XO
                            (XO (XI (XO (XI
                            XH)))))))))))))))))))))))))))))))))))))))))))))))))))))))))))))))
                        | _ -> N0)
                     | XH ->
                       Npos (XI (XO (XI (XO (XI (XO (XO (XO (XO (XI (XI (XI
                         (XI (XI (XO (XI (XI (XI (XO (XI (XO (XO (XI (XO (XI
                         (XI (XO (XO (XO (XI (XO (XO (XO (XI (XI (XI (XI (XI
                         (XI (XO (XI (XO (XI (XI (XI (XI (XI (XO (XO (XO (XI
                         (XI (XI (XO (XO (XO (XO (XO (XO (XO (XO (XI (XO
                         XH))))))))))))))))))))))))))))))))))))))))))))))))))))))))))))))))
                  | XO p5 ->
                    (match p5 with
                     | XI p6 ->
                       (match p6 with
                        | XH ->
                          Npos (XO (XI (XO (XI (XI (XI (XO (XO (XI (XO (XO
                            (XO (XO (XI (XI (XI (XO (XI (XO (XO (XI (XO (XO
                            (XI (XI (XI (XI (XO (XO (XI (XI (XO (XI (XI (XI
                            (XO (XI (XO (XO (XO (XO (XI (XO (XI (XI (XI (XO
                            (XI (XI (XO (XO (XO (XO (XO (XO (XO (XI (XO (XO
                            (XO
                            XH))))))))))))))))))))))))))))))))))))))))))))))))))))))))))))
                        | _ -> N0)
                     | XO p6 ->
                       (match p6 with
                        | XH ->
                          Npos (XI (XI (XI (XI (XO (XI (XI (XI (XI (XI (XO
                            (XO (XO (XO (XO (XI (XO (XI (XO (XO (XO (XI (XO
                            (XI (XI (XO (XO (XO (XO (XI (XI (XO (XI (XI (XO
                            (XI (XO (XI (XI (XO (XO (XO (XI (XO (XI (XI (XI
                            (XI (XO (XO (XI (XI (XO (XO (XI (XI (XO (XI (XI
                            (XO (XO (XI (XO
                            XH)))))))))))))))))))))))))))))))))))))))))))))))))))))))))))))))
                        | _ -> N0)
                     | XH ->
                       Npos (XO (XO (XI (XO (XO (XO (XI (XO (XI (XO (XO (XO
                         (XO (XO (XI (XO (XO (XI (XO (XI (XO (XI (XI (XI (XO
                         (XO (XO (XI (XO (XO (XI (XO (XI (XI (XO (XI (XO (XO
                         (XO (XO (XI (XI (XI (XI (XI (XO (XI (XO (XI (XI (XI
                         (XO (XO (XI (XI (XO (XO (XO (XI (XO
                         XH)))))))))))))))))))))))))))))))))))))))))))))))))))))))))))))
                  | XH ->
                    Npos (XI (XO (XO (XI (XI (XI (XI (XO (XO (XO (XO (XO (XI
                      (XO (XO (XI (XO (XI (XO (XI (XO (XO (XO (XI (XI (XI (XO
                      (XI (XI (XO (XI (XI (XO (XO (XI (XO (XO (XI (XI (XI (XO
                      (XI (XI (XO (XI (XO (XI (XI (XI (XO (XI (XO (XI (XO (XO
                      (XO (XI (XO (XO (XO (XO (XI (XO
                      XH))))))))))))))))))))))))))))))))))))))))))))))))))))))))))))))))
               | XH ->
                 Npos (XI (XI (XO (XO (XO (XI (XI (XI (XO (XO (XO (XI (XI (XO
                   (XI (XI (XO (XO (XO (XO (XI (XO (XI (XO (XO (XI (XO (XI
                   (XO (XI (XO (XI (XI (XI (XO (XO (XI (XI (XI (XO (XO (XI
                   (XI (XO (XO (XO (XO (XO (XI (XO (XO (XO (XO (XI (XO (XI
                   (XI (XO (XO (XI (XI (XI
                   XH)))))))))))))))))))))))))))))))))))))))))))))))))))))))))))))))
            | XO p3 ->
              (match p3 with
               | XI p4 ->
                 (match p4 with
                  | XI p5 ->
                    (match p5 with
                     | XI p6 ->
                       (match p6 with
                        | XH ->
                          Npos (XI (XI (XI (XO (XO (XO (XO (XI (XI (XI (XO
                            (XI (XI (XI (XO (XI (XO (XO (XI (XO (XI (XO (XI
                            (XO (XO (XO (XI (XO (XI (XO (XO (XO (XO (XI (XO
                            (XO (XI (XO (XO (XO (XI (XO (XI (XI (XI (XO (XO
                            (XO (XI (XO (XI (XO (XO (XI (XO (XI (XI (XO (XI
                            (XI (XI (XO (XO
                            XH)))))))))))))))))))))))))))))))))))))))))))))))))))))))))))))))
                        | _ -> N0)
                     | XO p6 ->
                       (match p6 with
                        | XH ->
                          Npos (XO (XI (XI (XI (XI (XO (XO (XO (XO (XI (XI
                            (XO (XO (XI (XI (XO (XI (XO (XI (XI (XO (XO (XI
                            (XI (XO (XO (XI (XO (XO (XO (XI (XI (XI (XO (XO
                            (XO (XI (XO (XI (XO (XO (XI (XO (XO (XO (XO (XI
                            (XO (XI (XI (XO (XO (XO (XO (XO (XO (XI (XI (XO
                            (XO (XO (XI (XI
                            XH)))))))))))))))))))))))))))))))))))))))))))))))))))))))))))))))
                        | _ -> N0)
                     | XH ->
                       Npos (XI (XI (XI (XI (XO (XO (XI (XO (XI (XO (XI (XO
                         (XI (XI (XO (XI (XO (XO (XI (XO (XO (XO (XO (XI (XI
                         (XI (XI (XO (XO (XO (XO (XI (XI (XO (XI (XI (XI (XI
                         (XO (XI (XO (XI (XO (XO (XO (XO (XO (XO (XO (XI (XO
                         (XI (XI (XI (XI (XO (XO (XI (XI (XO (XI (XI (XI
                         XH))))))))))))))))))))))))))))))))))))))))))))))))))))))))))))))))
                  | XO p5 ->
                    (match p5 with
                     | XI p6 ->
                       (match p6 with
                        | XH ->
                          Npos (XI (XO (XI (XO (XO (XO (XI (XI (XO (XI (XO
                            (XI (XO (XO (XO (XI (XI (XO (XI (XI (XI (XI (XI
                            (XO (XI (XI (XO (XI (XI (XI (XO (XI (XO (XI (XO
                            (XO (XI (XI (XI (XO (XI (XO (XI (XO (XI (XI (XI
                            (XI (XI (XI (XI (XI (XO (XO (XI (XO (XI (XI (XI
                            (XI (XO (XO (XO
                            XH)))))))))))))))))))))))))))))))))))))))))))))))))))))))))))))))
                        | _ -> N0)
                     | XO p6 ->
                       (match p6 with
                        | XH ->
                          Npos (XI (XI (XO (XO (XI (XO (XO (XO (XI (XI (XO
                            (XO (XO (XI (XI (XI (XI (XO (XO (XI (XI (XO (XI
                            (XO (XO (XI (XI (XI (XI (XO (XO (XI (XO (XO (XO
                            (XO (XO (XI (XI (XI (XO (XI (XI (XO (XI (XI (XO
                            (XI (XI (XI (XO (XO (XI (XO (XO (XI (XO (XI (XI
                            (XO (XO (XI
                            XH))))))))))))))))))))))))))))))))))))))))))))))))))))))))))))))
                        | _ -> N0)
                     | XH ->
                       Npos (XO (XO (XI (XI (XO (XO (XI (XO (XO (XI (XI (XI
                         (XI (XI (XO (XI (XI (XI (XI (XO (XO (XI (XI (XI (XI
                         (XO (XO (XO (XI (XO (XI (XI (XI (XI (XI (XO (XO (XO
                         (XO (XO (XI (XI (XO (XI (XO (XO (XI (XI (XO (XI (XO
                         (XO (XI (XI (XO (XO (XO (XO (XO (XO (XO (XI (XI
                         XH))))))))))))))))))))))))))))))))))))))))))))))))))))))))))))))))
                  | XH ->
                    Npos (XI (XI (XI (XI (XO (XO (XI (XI (XO (XO (XO (XO (XO
                      (XO (XI (XI (XO (XO (XI (XI (XI (XI (XI (XI (XO (XI (XO
                      (XO (XO (XO (XI (XI (XI (XI (XI (XI (XI (XO (XO (XO (XO
                      (XO (XO (XO (XO (XO (XO (XO (XI (XI (XO (XI (XO (XI (XI
                      (XO (XI (XI (XO (XI (XI (XI (XI
                      XH))))))))))))))))))))))))))))))))))))))))))))))))))))))))))))))))
               | XO p4 ->
                 (match p4 with
                  | XI p5 ->
                    (match p5 with
                     | XI p6 ->
                       (match p6 with
                        | XH ->
                          Npos (XI (XO (XO (XI (XO (XI (XI (XI (XI (XI (XO
                            (XO (XI (XO (XO (XO (XO (XO (XI (XI (XI (XI (XI
                            (XO (XO (XO (XO (XO (XO (XI (XI (XO (XI (XI (XO
                            (XO (XI (XI (XI (XO (XI (XI (XI (XO (XO (XI (XI
                            (XI (XO (XO (XO (XI (XI (XO (XI (XI (XO (XI (XO
                            (XO (XO
                            XH)))))))))))))))))))))))))))))))))))))))))))))))))))))))))))))
                        | _ -> N0)
                     | XO p6 ->
                       (match p6 with
                        | XH ->
                          Npos (XI (XO (XO (XO (XO (XO (XO (XO (XO (XI (XI
                            (XI (XI (XI (XI (XO (XO (XO (XO (XI (XI (XO (XO
                            (XO (XO (XO (XI (XI (XI (XO (XI (XO (XI (XO (XO
                            (XO (XO (XI (XI (XO (XI (XO (XI (XO (XO (XO (XO
                            (XI (XO (XO (XO (XO (XI (XO (XO (XO (XI (XO (XI
                            (XI (XO (XI
                            XH))))))))))))))))))))))))))))))))))))))))))))))))))))))))))))))
                        | _ -> N0)
                     | XH ->
                       Npos (XI (XI (XO (XO (XO (XO (XO (XI (XO (XO (XO (XO
                         (XO (XO (XI (XO (XI (XO (XO (XI (XO (XO (XI (XI (XO
                         (XO (XO (XI (XI (XO (XI (XO (XO (XO (XO (XI (XI (XO
                         (XO (XO (XO (XI (XI (XO (XI (XI (XO (XI (XO (XO (XO
                         (XI (XI (XO (XI (XO (XO (XO (XO (XO (XO (XO (XI
                         XH))))))))))))))))))))))))))))))))))))))))))))))))))))))))))))))))
                  | XO p5 ->
                    (match p5 with
                     | XI p6 ->
                       (match p6 with
                        | XH ->
                          Npos (XO (XO (XI (XO (XI (XO (XI (XI (XO (XO (XO
                            (XI (XI (XO (XI (XI (XI (XO (XI (XO (XO (XI (XI
                            (XI (XI (XO (XI (XO (XO (XI (XO (XI (XI (XI (XI
                            (XO (XI (XO (XI (XO (XI (XO (XO (XI (XO (XO (XI
                            (XO (XO (XI (XI (XI (XO (XO (XI (XI (XI (XO (XO
                            (XI (XI
                            XH)))))))))))))))))))))))))))))))))))))))))))))))))))))))))))))
                        | _ -> N0)
                     | XO p6 ->
                       (match p6 with
                        | XH ->
                          Npos (XO (XO (XO (XI (XO (XO (XI (XO (XO (XI (XI
                            (XO (XI (XO (XO (XO (XO (XI (XO (XO (XI (XI (XI
                            (XO (XO (XI (XI (XI (XO (XI (XO (XO (XO (XO (XO
                            (XO (XO (XI (XO (XO (XI (XO (XO (XI (XO (XI (XI
                            (XI (XO (XO (XI (XI (XO
                            XH)))))))))))))))))))))))))))))))))))))))))))))))))))))
                        | _ -> N0)
                     | XH ->
                       Npos (XO (XO (XO (XI (XI (XO (XI (XI (XI (XO (XI (XI
                         (XO (XI (XI (XI (XI (XI (XO (XO (XI (XO (XI (XO (XO
                         (XO (XO (XO (XI (XO (XO (XO (XI (XO (XO (XO (XO (XI
                         (XI (XI (XI (XO (XO (XI (XI (XO (XI
                         XH))))))))))))))))))))))))))))))))))))))))))))))))
                  | XH ->
                    Npos (XI (XO (XO (XO (XI (XI (XO (XI (XO (XI (XO (XO (XO
                      (XO (XI (XI (XI (XO (XO (XI (XO (XO (XO (XO (XI (XI (XO
                      (XI (XI (XO (XO (XO (XO (XI (XO (XI (XI (XO (XI (XI (XI
                      (XO (XI (XO (XO (XI (XI (XI (XO (XI (XI (XO (XO (XI (XO
                      (XI (XO (XI (XI (XO (XO (XO (XO
                      XH))))))))))))))))))))))))))))))))))))))))))))))))))))))))))))))))
               | XH ->
                 Npos (XI (XO (XI (XI (XI (XI (XI (XI (XO (XI (XO (XI (XO (XO
                   (XI (XO (XI (XI (XI (XO (XI (XI (XO (XO (XO (XI (XI (XO
                   (XI (XI (XI (XI (XO (XI (XO (XI (XO (XO (XO (XI (XI (XI
                   (XI (XO (XO (XI (XI (XO (XO (XO (XO (XO (XI (XI (XO (XI
                   (XO (XI (XI (XI (XI
                   XH))))))))))))))))))))))))))))))))))))))))))))))))))))))))))))))
            | XH ->
              Npos (XI (XO (XI (XI (XO (XI (XO (XI (XI (XI (XO (XO (XI (XO
                (XI (XI (XO (XI (XI (XO (XO (XO (XO (XI (XO (XO (XO (XO (XI
                (XO (XO (XO (XO (XI (XO (XI (XI (XI (XO (XO (XI (XO (XI (XO
                (XO (XO (XO (XO (XI (XO (XI (XO (XI (XO (XO (XI (XO (XI (XI
                (XI (XO (XO (XO
                XH))))))))))))))))))))))))))))))))))))))))))))))))))))))))))))))))
         | XH ->
           Npos (XI (XI (XO (XI (XO (XO (XI (XI (XO (XI (XO (XI (XI (XO (XO
             (XI (XI (XI (XO (XO (XO (XI (XO (XO (XO (XO (XO (XI (XO (XI (XO
             (XO (XO (XI (XI (XO (XO (XO (XI (XO (XI (XI (XO (XO (XI (XI (XO
             (XI (XO (XO (XI (XO (XI (XI (XI (XO (XO (XO (XI (XO (XO (XI (XO
             XH))))))))))))))))))))))))))))))))))))))))))))))))))))))))))))))))
      | XO p1 ->
        (match p1 with
         | XI p2 ->
           (match p2 with
            | XI p3 ->
              (match p3 with
               | XI p4 ->
                 (match p4 with
                  | XI p5 ->
                    (match p5 with
                     | XI p6 ->
                       (match p6 with
                        | XH ->
                          Npos (XI (XO (XI (XI (XI (XI (XO (XO (XI (XI (XO
                            (XO (XI (XO (XI (XI (XO (XI (XO (XI (XI (XO (XO
                            (XO (XO (XI (XI (XO (XI (XO (XI (XI (XI (XO (XI
                            (XO (XI (XO (XI (XO (XO (XI (XI (XO (XO (XO (XI
                            (XI (XI (XO (XI (XI (XO (XI (XI (XO (XI (XI (XO
                            (XO (XO (XI
                            XH))))))))))))))))))))))))))))))))))))))))))))))))))))))))))))))
                        | _ -> N0)
                     | XO p6 ->
                       (match p6 with
                        | XH ->
                          Npos (XI (XO (XI (XI (XO (XI (XO (XI (XO (XI (XI
                            (XI (XO (XO (XI (XI (XI (XO (XO (XO (XI (XO (XI
                            (XO (XI (XI (XO (XO (XI (XO (XI (XI (XI (XO (XI
                            (XO (XI (XO (XO (XO (XO (XI (XO (XO (XI (XI (XO
                            (XI (XI (XI (XO (XO (XO (XO (XI (XI (XO (XI (XI
                            (XI (XI (XI (XI
                            XH)))))))))))))))))))))))))))))))))))))))))))))))))))))))))))))))
                        | _ -> N0)
                     | XH ->
                       Npos (XI (XO (XI (XO (XO (XI (XO (XO (XO (XI (XO (XI
                         (XO (XO (XI (XI (XI (XI (XO (XI (XO (XO (XO (XI (XI
                         (XI (XI (XO (XO (XO (XO (XO (XI (XI (XO (XI (XI (XO
                         (XO (XO (XO (XO (XO (XO (XI (XO (XO (XO (XI (XO (XI
                         (XI (XO (XI (XO (XO (XI (XO (XI (XI (XO (XI (XI
                         XH))))))))))))))))))))))))))))))))))))))))))))))))))))))))))))))))
                  | XO p5 ->
                    (match p5 with
                     | XI p6 ->
                       (match p6 with
                        | XH ->
                          Npos (XI (XI (XI (XI (XO (XO (XO (XI (XI (XO (XI
                            (XI (XO (XO (XI (XI (XO (XO (XO (XO (XI (XI (XO
                            (XI (XO (XI (XO (XO (XO (XI (XO (XI (XO (XO (XI
                            (XI (XO (XI (XO (XO (XO (XI (XI (XI (XI (XO (XO
                            (XO (XO (XO (XI (XI (XI (XO (XI (XO (XO (XO (XI
                            (XI (XO (XI (XI
                            XH)))))))))))))))))))))))))))))))))))))))))))))))))))))))))))))))
                        | _ -> N0)
                     | XO p6 ->
                       (match p6 with
                        | XH ->
                          Npos (XO (XO (XI (XI (XO (XO (XI (XO (XI (XI (XO
                            (XO (XI (XI (XI (XO (XI (XO (XI (XO (XI (XI (XI
                            (XO (XI (XO (XI (XI (XO (XI (XI (XO (XO (XO (XO
                            (XO (XO (XO (XO (XI (XI (XI (XO (XI (XI (XO (XO
                            (XI (XI (XI (XO (XO (XO (XI (XI (XI (XI (XO (XO
                            (XO (XI (XI
                            XH))))))))))))))))))))))))))))))))))))))))))))))))))))))))))))))
                        | _ -> N0)
                     | XH ->
                       Npos (XO (XI (XI (XO (XI (XO (XO (XO (XO (XO (XO (XI
                         (XI (XI (XI (XO (XI (XI (XI (XO (XI (XO (XO (XI (XI
                         (XO (XI (XO (XO (XO (XI (XI (XI (XI (XO (XI (XI (XI
                         (XI (XO (XO (XO (XO (XI (XO (XI (XI (XI (XO (XO (XI
                         (XI (XO (XI (XO (XI (XO (XI (XO (XO (XO (XI (XO
                         XH))))))))))))))))))))))))))))))))))))))))))))))))))))))))))))))))
                  | XH ->
                    Npos (XO (XI (XO (XI (XI (XO (XI (XI (XO (XO (XI (XO (XO
                      (XO (XO (XO (XI (XO (XI (XO (XO (XO (XI (XI (XO (XI (XI
                      (XO (XO (XO (XI (XI (XI (XI (XO (XI (XO (XI (XI (XO (XO
                      (XO (XO (XI (XO (XI (XO (XI (XI (XI (XI (XO (XI (XI (XO
                      (XO (XO (XO (XO (XO (XI (XO (XI
                      XH))))))))))))))))))))))))))))))))))))))))))))))))))))))))))))))))
               | XO p4 ->
                 (match p4 with
                  | XI p5 ->
                    (match p5 with
                     | XI p6 ->
                       (match p6 with
                        | XH ->
                          Npos (XO (XI (XI (XO (XI (XO (XI (XO (XO (XO (XI
                            (XI (XO (XO (XI (XI (XI (XO (XI (XO (XO (XO (XO
                            (XI (XI (XI (XI (XI (XO (XI (XO (XI (XI (XO (XI
                            (XO (XO (XO (XI (XI (XO (XO (XI (XO (XI (XO (XO
                            (XO (XO (XI (XO (XO (XO (XI (XO (XI (XI (XO (XI
                            (XI (XO (XI
                            XH))))))))))))))))))))))))))))))))))))))))))))))))))))))))))))))
                        | _ -> N0)
                     | XO p6 ->
                       (match p6 with
                        | XH ->
                          Npos (XI (XO (XI (XI (XI (XO (XO (XO (XO (XI (XO
                            (XI (XI (XI (XO (XO (XI (XO (XI (XO (XI (XO (XI
                            (XO (XO (XO (XO (XI (XO (XI (XO (XO (XI (XI (XI
                            (XI (XI (XO (XI (XO (XO (XO (XO (XI (XI (XI (XO
                            XH)))))))))))))))))))))))))))))))))))))))))))))))
                        | _ -> N0)
                     | XH ->
                       Npos (XO (XO (XO (XO (XI (XI (XO (XO (XI (XI (XO (XI
                         (XO (XI (XO (XO (XO (XI (XI (XI (XI (XI (XO (XO (XO
                         (XO (XI (XI (XO (XI (XI (XI (XO (XI (XI (XI (XO (XO
                         (XI (XI (XO (XO (XO (XO (XO (XI (XO (XI (XI (XI (XI
                         (XI (XI (XO (XO (XO (XI (XO (XI
                         XH))))))))))))))))))))))))))))))))))))))))))))))))))))))))))))
                  | XO p5 ->
                    (match p5 with
                     | XI p6 ->
                       (match p6 with
                        | XH ->
                          Npos (XO (XO (XI (XI (XO (XI (XI (XO (XI (XO (XI
                            (XO (XO (XO (XI (XI (XI (XI (XO (XI (XI (XI (XO
                            (XI (XO (XI (XO (XO (XI (XI (XI (XO (XO (XI (XO
                            (XO (XI (XI (XI (XI (XI (XI (XI (XI (XO (XI (XI
                            (XI (XI (XO (XO (XI (XO (XO (XO (XI (XO (XI (XI
                            (XO
                            XH))))))))))))))))))))))))))))))))))))))))))))))))))))))))))))
                        | _ -> N0)
                     | XO p6 ->
                       (match p6 with
                        | XH ->
                          Npos (XI (XI (XO (XO (XO (XO (XO (XI (XI (XO (XI
                            (XI (XI (XO (XI (XI (XO (XO (XI (XI (XO (XI (XO
                            (XI (XI (XO (XO (XI (XO (XI (XI (XO (XI (XO (XO
                            (XO (XI (XO (XO (XO (XI (XI (XI (XO (XO (XO (XO
                            (XI (XO (XO (XI (XO (XI (XI (XO (XI (XI (XO (XI
                            (XI (XO
                            XH)))))))))))))))))))))))))))))))))))))))))))))))))))))))))))))
                        | _ -> N0)
                     | XH ->
                       Npos (XO (XI (XI (XI (XI (XO (XI (XO (XI (XI (XO (XO
                         (XO (XO (XO (XO (XI (XO (XI (XO (XI (XI (XI (XI (XO
                         (XI (XO (XO (XO (XO (XO (XI (XI (XO (XO (XI (XI (XI
                         (XI (XI (XI (XI (XI (XI (XO (XI (XI (XO (XI (XO (XO
                         (XO (XI (XO (XO (XI (XI (XO (XO (XO (XI (XI (XI
                         XH))))))))))))))))))))))))))))))))))))))))))))))))))))))))))))))))
                  | XH ->
                    Npos (XI (XO (XO (XO (XO (XO (XO (XO (XI (XI (XO (XO (XO
                      (XI (XI (XI (XI (XI (XO (XO (XI (XO (XO (XO (XI (XI (XI
                      (XO (XI (XO (XI (XO (XI (XI (XI (XO (XI (XI (XO (XI (XI
                      (XI (XO (XI (XI (XI (XI (XO (XO (XI (XO (XI (XO (XO (XI
                      (XI (XO (XO (XI (XI (XO (XO (XI
                      XH))))))))))))))))))))))))))))))))))))))))))))))))))))))))))))))))
               | XH ->
                 Npos (XI (XO (XO (XO (XI (XI (XI (XO (XO (XO (XO (XO (XI (XO
                   (XO (XI (XI (XI (XI (XO (XI (XO (XI (XO (XI (XI (XI (XO
                   (XO (XO (XO (XI (XI (XI (XI (XI (XI (XO (XO (XO (XI (XI
                   (XI (XO (XO (XI (XI (XI (XO (XO (XO (XO (XO (XI (XO (XO
                   (XI (XO (XI (XO (XO
                   XH))))))))))))))))))))))))))))))))))))))))))))))))))))))))))))))
            | XO p3 ->
              (match p3 with
               | XI p4 ->
                 (match p4 with
                  | XI p5 ->
                    (match p5 with
                     | XI p6 ->
                       (match p6 with
                        | XH ->
                          Npos (XI (XO (XI (XI (XO (XO (XO (XI (XI (XO (XI
                            (XI (XI (XO (XI (XI (XI (XI (XI (XI (XO (XI (XO
                            (XO (XI (XI (XO (XI (XO (XI (XO (XI (XO (XI (XI
                            (XO (XI (XI (XO (XI (XI (XI (XI (XI (XO (XI (XI
                            (XO (XI (XO (XI (XI (XI (XI (XO (XO (XI (XI (XO
                            (XI (XI (XI (XI
                            XH)))))))))))))))))))))))))))))))))))))))))))))))))))))))))))))))
                        | _ -> N0)
                     | XO p6 ->
                       (match p6 with
                        | XH ->
                          Npos (XO (XI (XI (XI (XI (XI (XO (XO (XO (XO (XO
                            (XI (XI (XO (XO (XI (XO (XI (XO (XO (XI (XI (XI
                            (XI (XI (XO (XI (XO (XI (XI (XI (XO (XO (XO (XI
                            (XI (XO (XI (XI (XO (XI (XI (XO (XO (XI (XI (XO
                            (XI (XO (XI (XO (XO (XO (XO (XO
                            XH)))))))))))))))))))))))))))))))))))))))))))))))))))))))
                        | _ -> N0)
                     | XH ->
                       Npos (XI (XI (XO (XI (XO (XI (XO (XI (XO (XO (XI (XO
                         (XI (XO (XO (XO (XO (XO (XO (XI (XO (XI (XO (XI (XO
                         (XO (XI (XI (XI (XI (XI (XI (XO (XI (XO (XO (XO (XI
                         (XO (XO (XO (XO (XO (XO (XO
                         XH))))))))))))))))))))))))))))))))))))))))))))))
                  | XO p5 ->
                    (match p5 with
                     | XI p6 ->
                       (match p6 with
                        | XH ->
                          Npos (XI (XO (XO (XO (XO (XO (XO (XO (XI (XI (XO
                            (XI (XO (XI (XI (XI (XI (XI (XO (XO (XO (XO (XO
                            (XO (XO (XI (XO (XI (XI (XO (XO (XO (XO (XO (XO
                            (XI (XI (XO (XI (XO (XO (XI (XO (XI (XI (XO (XI
                            (XO (XI (XO (XI (XO (XI (XO (XO (XI (XO (XI (XO
                            (XO (XO (XI
                            XH))))))))))))))))))))))))))))))))))))))))))))))))))))))))))))))
                        | _ -> N0)
                     | XO p6 ->
                       (match p6 with
                        | XH ->
                          Npos (XI (XI (XO (XI (XI (XI (XO (XO (XO (XO (XI
                            (XI (XI (XO (XO (XI (XI (XI (XI (XO (XO (XO (XI
                            (XO (XO (XI (XI (XO (XI (XI (XI (XI (XI (XO (XI
                            (XO (XI (XI (XO (XO (XI (XI (XI (XO (XI (XO (XI
                            (XO (XI (XI (XO (XI (XO (XO (XI (XI (XO (XO (XO
                            (XO (XO
                            XH)))))))))))))))))))))))))))))))))))))))))))))))))))))))))))))
                        | _ -> N0)
                     | XH ->
                       Npos (XI (XO (XI (XO (XO (XI (XO (XI (XI (XO (XO (XI
                         (XO (XO (XO (XI (XI (XO (XI (XO (XO (XI (XO (XO (XO
                         (XO (XO (XO (XO (XO (XI (XI (XI (XI (XI (XI (XI (XI
                         (XO (XI (XI (XO (XO (XO (XI (XI (XO (XI (XO (XO (XI
                         (XI (XI (XO (XI (XO (XI (XI (XO (XO (XO (XI
                         XH)))))))))))))))))))))))))))))))))))))))))))))))))))))))))))))))
                  | XH ->
                    Npos (XO (XO (XO (XI (XI (XO (XI (XO (XI (XO (XI (XI (XI
                      (XO (XI (XO (XI (XI (XO (XI (XO (XI (XI (XI (XO (XO (XO
                      (XO (XI (XO (XO (XO (XO (XI (XI (XO (XI (XO (XO (XO (XI
                      (XO (XO (XO (XI (XI (XI (XI (XO (XI (XI (XO (XI (XI (XI
                      (XI (XO (XI (XO (XI (XI (XI (XO
                      XH))))))))))))))))))))))))))))))))))))))))))))))))))))))))))))))))
               | XO p4 ->
                 (match p4 with
                  | XI p5 ->
                    (match p5 with
                     | XI p6 ->
                       (match p6 with
                        | XH ->
                          Npos (XI (XI (XO (XO (XO (XI (XI (XI (XO (XI (XO
                            (XO (XI (XO (XO (XO (XO (XI (XI (XI (XI (XI (XO
                            (XI (XO (XI (XO (XI (XO (XO (XO (XI (XO (XO (XI
                            (XI (XI (XO (XI (XI (XO (XI (XI (XO (XO (XO (XI
                            (XI (XO (XO (XI (XO (XO (XI (XO (XI (XI (XO (XI
                            (XI (XO (XI (XI
                            XH)))))))))))))))))))))))))))))))))))))))))))))))))))))))))))))))
                        | _ -> N0)
                     | XO p6 ->
                       (match p6 with
                        | XH ->
                          Npos (XI (XO (XO (XO (XI (XO (XO (XI (XO (XO (XI
                            (XI (XO (XI (XO (XO (XO (XI (XO (XI (XO (XI (XO
                            (XO (XO (XI (XO (XO (XI (XO (XO (XO (XI (XO (XO
                            (XO (XO (XO (XO (XI (XI (XI (XO (XI (XO (XI (XI
                            (XO (XO (XO (XI (XI (XI (XI (XI (XO (XI (XO (XO
                            (XO (XI (XO (XO
                            XH)))))))))))))))))))))))))))))))))))))))))))))))))))))))))))))))
                        | _ -> N0)
                     | XH ->
                       Npos (XO (XO (XI (XO (XI (XO (XO (XI (XI (XO (XI (XI
                         (XI (XI (XI (XO (XO (XI (XI (XI (XI (XI (XO (XO (XO
                         (XO (XO (XI (XI (XI (XI (XI (XI (XI (XO (XI (XI (XI
                         (XO (XO (XI (XI (XO (XI (XI (XI (XI (XI (XI (XI (XI
                         (XO (XI (XO (XO (XI (XI (XO (XO (XO (XI (XO (XO
                         XH))))))))))))))))))))))))))))))))))))))))))))))))))))))))))))))))
                  | XO p5 ->
                    (match p5 with
                     | XI p6 ->
                       (match p6 with
                        | XH ->
                          Npos (XI (XI (XO (XI (XO (XO (XO (XI (XI (XO (XO
                            (XO (XO (XO (XO (XI (XO (XO (XO (XO (XO (XI (XO
                            (XI (XO (XI (XI (XI (XI (XO (XO (XI (XI (XO (XI
                            (XI (XI (XO (XO (XO (XI (XO (XI (XI (XO (XI (XO
                            (XI (XI (XO (XO (XI (XI (XI (XO (XI (XI (XO (XI
                            (XO (XI (XO
                            XH))))))))))))))))))))))))))))))))))))))))))))))))))))))))))))))
                        | _ -> N0)
                     | XO p6 ->
                       (match p6 with
                        | XH ->
                          Npos (XI (XO (XI (XO (XO (XI (XO (XI (XO (XI (XI
                            (XO (XO (XI (XO (XI (XI (XO (XO (XO (XI (XI (XO
                            (XI (XO (XI (XO (XO (XI (XO (XI (XI (XO (XI (XO
                            (XI (XI (XO (XO (XO (XO (XI (XI (XO (XO (XO (XI
                            (XO (XI (XO (XI (XI (XI (XI (XI (XO (XI (XI (XI
                            (XO (XI (XO (XI
                            XH)))))))))))))))))))))))))))))))))))))))))))))))))))))))))))))))
                        | _ -> N0)
                     | XH ->
                       Npos (XO (XI (XO (XO (XI (XI (XO (XI (XO (XI (XO (XO
                         (XI (XO (XI (XI (XI (XO (XO (XO (XO (XO (XO (XO (XO
                         (XI (XO (XI (XO (XI (XO (XO (XI (XO (XO (XO (XI (XI
                         (XI (XI (XI (XI (XI (XO (XI (XI (XI (XO (XI (XI (XO
                         (XI (XO (XI (XO (XI (XI (XI
                         XH)))))))))))))))))))))))))))))))))))))))))))))))))))))))))))
                  | XH ->
                    Npos (XI (XI (XI (XO (XO (XI (XI (XO (XO (XI (XO (XO (XO
                      (XO (XI (XO (XI (XI (XI (XO (XI (XI (XI (XI (XI (XO (XO
                      (XO (XO (XO (XI (XI (XO (XI (XI (XI (XI (XI (XI (XI (XO
                      (XI (XO (XI (XO (XI (XO (XO (XO (XI (XI (XI (XI (XO (XI
                      (XO (XI (XO (XI (XO (XI
                      XH))))))))))))))))))))))))))))))))))))))))))))))))))))))))))))))
               | XH ->
                 Npos (XO (XI (XI (XO (XI (XI (XO (XO (XI (XI (XI (XO (XO (XO
                   (XI (XI (XI (XI (XO (XI (XO (XI (XI (XO (XO (XI (XI (XI
                   (XI (XI (XO (XI (XI (XI (XI (XI (XI (XI (XO (XI (XI (XI
                   (XI (XI (XI (XO (XO (XI (XO (XI (XO (XO (XI (XO (XO (XO
                   (XO (XI (XO (XO (XI (XI (XI
                   XH))))))))))))))))))))))))))))))))))))))))))))))))))))))))))))))))
            | XH ->
              Npos (XO (XI (XI (XI (XO (XI (XO (XI (XI (XI (XI (XI (XI (XI
                (XI (XO (XO (XO (XO (XO (XO (XO (XO (XI (XI (XI (XI (XI (XI
                (XO (XO (XI (XO (XO (XI (XO (XI (XO (XO (XI (XO (XO (XI (XI
                (XO (XI (XO (XI (XI (XI (XI (XI (XO (XO (XO (XO (XI (XO (XI
                (XO (XO (XI (XO
                XH))))))))))))))))))))))))))))))))))))))))))))))))))))))))))))))))
         | XO p2 ->
           (match p2 with
            | XI p3 ->
              (match p3 with
               | XI p4 ->
                 (match p4 with
                  | XI p5 ->
                    (match p5 with
                     | XI p6 ->
                       (match p6 with
                        | XH ->
                          Npos (XO (XO (XO (XO (XI (XO (XO (XO (XO (XI (XI
                            (XI (XO (XO (XI (XO (XO (XO (XI (XI (XO (XO (XI
                            (XI (XI (XI (XI (XI (XO (XI (XI (XO (XI (XO (XO
                            (XO (XO (XO (XO (XI (XI (XI (XI (XO (XI (XI (XO
                            (XI (XI (XO (XI (XO (XI (XO (XI (XI (XI (XI
                            XH))))))))))))))))))))))))))))))))))))))))))))))))))))))))))
                        | _ -> N0)
                     | XO p6 ->
                       (match p6 with
                        | XH ->
                          Npos (XI (XO (XI (XO (XI (XI (XO (XI (XO (XO (XO
                            (XI (XO (XI (XO (XI (XI (XI (XI (XO (XI (XO (XI
                            (XO (XO (XO (XI (XI (XI (XO (XO (XO (XO (XI (XI
                            (XI (XI (XI (XO (XO (XI (XO (XI (XO (XI (XI (XO
                            (XO (XI (XI (XO (XI (XI (XO (XI (XO (XI (XI (XO
                            (XO (XI (XI
                            XH))))))))))))))))))))))))))))))))))))))))))))))))))))))))))))))
                        | _ -> N0)
                     | XH ->
                       Npos (XO (XI (XI (XI (XI (XO (XI (XO (XO (XO (XI (XO
                         (XO (XO (XO (XI (XO (XO (XO (XI (XI (XI (XI (XO (XO
                         (XI (XO (XI (XI (XO (XO (XO (XI (XO (XO (XI (XO (XI
                         (XO (XI (XO (XI (XI (XI (XI (XO (XI (XO (XO (XO (XI
                         (XI (XI (XI (XI (XI (XO (XO (XO (XI (XI (XO (XI
                         XH))))))))))))))))))))))))))))))))))))))))))))))))))))))))))))))))
                  | XO p5 ->
                    (match p5 with
                     | XI p6 ->
                       (match p6 with
                        | XH ->
                          Npos (XO (XI (XO (XI (XI (XI (XI (XI (XI (XO (XI
                            (XO (XO (XO (XI (XO (XO (XO (XO (XI (XO (XO (XI
                            (XO (XO (XI (XI (XI (XI (XI (XI (XI (XO (XI (XO
                            (XO (XI (XI (XO (XI (XO (XI (XO (XI (XO (XI (XO
                            XH)))))))))))))))))))))))))))))))))))))))))))))))
                        | _ -> N0)
                     | XO p6 ->
                       (match p6 with
                        | XH ->
                          Npos (XI (XI (XO (XO (XO (XO (XO (XO (XI (XO (XI
                            (XI (XI (XI (XI (XO (XO (XI (XO (XO (XO (XI (XI
                            (XO (XO (XO (XI (XO (XO (XO (XO (XI (XO (XI (XO
                            (XO (XO (XO (XI (XO (XI (XI (XO (XO (XO (XO (XO
                            (XI (XI (XI (XI (XO (XO (XI (XO (XI (XI (XI (XO
                            (XI (XI (XO (XO
                            XH)))))))))))))))))))))))))))))))))))))))))))))))))))))))))))))))
                        | _ -> N0)
                     | XH ->
                       Npos (XI (XI (XO (XI (XI (XI (XI (XO (XI (XO (XI (XI
                         (XO (XI (XI (XI (XI (XI (XI (XI (XO (XI (XO (XI (XO
                         (XO (XI (XO (XO (XO (XO (XI (XO (XO (XO (XI (XO (XI
                         (XI (XI (XO (XI (XI (XI (XI (XI (XI (XI (XI (XI (XI
                         (XO (XO (XI (XO (XO (XI (XI (XI (XO (XO
                         XH))))))))))))))))))))))))))))))))))))))))))))))))))))))))))))))
                  | XH ->
                    Npos (XI (XO (XO (XO (XO (XO (XO (XO (XI (XI (XI (XI (XI
                      (XI (XO (XO (XI (XI (XI (XO (XI (XO (XO (XI (XI (XI (XI
                      (XI (XI (XO (XI (XI (XO (XI (XO (XI (XO (XO (XO (XO (XI
                      (XO (XI (XI (XI (XO (XO (XI (XO (XO (XI (XO (XO (XO (XO
                      (XI (XO (XO (XI (XI (XO (XO (XI
                      XH))))))))))))))))))))))))))))))))))))))))))))))))))))))))))))))))
               | XO p4 ->
                 (match p4 with
                  | XI p5 ->
                    (match p5 with
                     | XI p6 ->
                       (match p6 with
                        | XH ->
                          Npos (XO (XO (XI (XO (XO (XO (XO (XO (XI (XI (XO
                            (XO (XO (XI (XI (XO (XI (XO (XI (XI (XI (XI (XO
                            (XO (XO (XI (XO (XO (XI (XI (XO (XO (XI (XI (XO
                            (XI (XI (XO (XO (XI (XI (XO (XO (XI (XO (XI (XO
                            (XO (XO (XI (XO (XI (XI (XI (XI (XO (XI (XO (XI
                            (XI
                            XH))))))))))))))))))))))))))))))))))))))))))))))))))))))))))))
                        | _ -> N0)
                     | XO p6 ->
                       (match p6 with
                        | XH ->
                          Npos (XI (XI (XO (XO (XO (XO (XI (XI (XI (XI (XI
                            (XO (XO (XI (XI (XO (XI (XO (XO (XO (XI (XO (XO
                            (XI (XI (XO (XI (XO (XO (XI (XO (XI (XO (XI (XO
                            (XI (XI (XI (XI (XO (XO (XI (XO (XO (XI (XO (XO
                            (XO (XI (XI (XO (XO (XO (XI (XI (XO (XO (XO (XO
                            (XO (XO
                            XH)))))))))))))))))))))))))))))))))))))))))))))))))))))))))))))
                        | _ -> N0)
                     | XH ->
                       Npos (XI (XI (XI (XO (XO (XO (XO (XI (XI (XO (XI (XO
                         (XI (XO (XI (XO (XI (XO (XO (XI (XO (XI (XI (XI (XO
                         (XI (XO (XO (XO (XI (XO (XO (XO (XI (XO (XO (XI (XI
                         (XO (XO (XO (XO (XI (XI (XO (XI (XO (XI (XI (XO (XO
                         (XI (XI (XO (XI (XI (XI (XI (XI (XI (XO (XI
                         XH)))))))))))))))))))))))))))))))))))))))))))))))))))))))))))))))
                  | XO p5 ->
                    (match p5 with
                     | XI p6 ->
                       (match p6 with
                        | XH ->
                          Npos (XI (XI (XO (XI (XO (XO (XO (XI (XO (XO (XO
                            (XO (XO (XI (XO (XI (XO (XI (XI (XO (XI (XO (XO
                            (XI (XO (XI (XI (XO (XO (XO (XO (XO (XO (XI (XI
                            (XO (XI (XO (XO (XO (XO (XI (XO (XO (XI (XO (XO
                            (XO (XI (XI (XI (XO (XO (XI (XO (XO (XO (XI (XI
                            XH)))))))))))))))))))))))))))))))))))))))))))))))))))))))))))
                        | _ -> N0)
                     | XO p6 ->
                       (match p6 with
                        | XH ->
                          Npos (XO (XO (XI (XO (XI (XI (XO (XO (XO (XI (XI
                            (XO (XI (XI (XO (XO (XO (XO (XI (XI (XO (XO (XO
                            (XI (XO (XI (XO (XO (XI (XO (XI (XI (XO (XO (XO
                            (XI (XO (XO (XI (XI (XO (XI (XI (XO (XO (XO (XO
                            (XI (XO (XO (XI (XI (XO (XI (XI (XI (XO (XI (XI
                            (XI (XI (XI
                            XH))))))))))))))))))))))))))))))))))))))))))))))))))))))))))))))
                        | _ -> N0)
                     | XH ->
                       Npos (XI (XI (XO (XO (XO (XI (XI (XI (XO (XI (XO (XI
                         (XO (XO (XI (XI (XO (XO (XI (XO (XO (XI (XI (XI (XO
                         (XI (XI (XO (XI (XI (XO (XO (XI (XI (XO (XI (XO (XO
                         (XO (XO (XO (XI (XO (XO (XI
                         XH))))))))))))))))))))))))))))))))))))))))))))))
                  | XH ->
                    Npos (XO (XO (XO (XO (XO (XI (XO (XO (XO (XO (XI (XI (XO
                      (XI (XO (XO (XI (XI (XO (XO (XI (XI (XI (XI (XI (XI (XO
                      (XI (XI (XI (XI (XO (XO (XO (XO (XI (XI (XO (XI (XO (XO
                      (XI (XI (XO (XI (XI (XO (XI (XO (XI (XI (XO (XO (XO (XO
                      (XI (XO (XI (XO (XO (XI
                      XH))))))))))))))))))))))))))))))))))))))))))))))))))))))))))))))
               | XH ->
                 Npos (XI (XO (XI (XI (XO (XI (XI (XO (XI (XI (XO (XI (XI (XO
                   (XO (XI (XO (XO (XI (XO (XO (XI (XO (XI (XI (XI (XO (XO
                   (XO (XI (XI (XO (XO (XI (XI (XO (XI (XO (XI (XI (XI (XI
                   (XI (XI (XO (XI (XI (XO (XO (XO (XO (XO (XI (XI (XI (XI
                   (XI (XI (XO (XI (XI
                   XH))))))))))))))))))))))))))))))))))))))))))))))))))))))))))))))
            | XO p3 ->
              (match p3 with
               | XI p4 ->
                 (match p4 with
                  | XI p5 ->
                    (match p5 with
                     | XI p6 ->
                       (match p6 with
                        | XH ->
                          Npos (XO (XI (XO (XO (XI (XO (XI (XI (XO (XI (XI
                            (XI (XO (XI (XI (XI (XI (XO (XI (XO (XI (XO (XO
                            (XO (XO (XO (XI (XO (XI (XI (XI (XI (XI (XO (XI
                            (XO (XO (XO (XI (XI (XO (XO (XO (XO (XO (XI (XI
                            (XO (XO (XI (XI (XI (XI (XO (XI (XO (XO (XI (XO
                            (XI (XO (XO
                            XH))))))))))))))))))))))))))))))))))))))))))))))))))))))))))))))
                        | _ -> N0)
                     | XO p6 ->
                       (match p6 with
                        | XH ->
                          Npos (XI (XO (XI (XI (XI (XI (XO (XI (XI (XO (XI
                            (XI (XO (XO (XO (XI (XI (XO (XO (XI (XO (XI (XO
                            (XO (XI (XI (XI (XI (XO (XI (XO (XO (XI (XI (XO
                            (XO (XO (XO (XO (XO (XI (XO (XI (XI (XI (XI (XI
                            (XI (XI (XO (XI (XO (XO (XO (XO (XI (XI (XI (XO
                            (XI (XO (XI (XI
                            XH)))))))))))))))))))))))))))))))))))))))))))))))))))))))))))))))
                        | _ -> N0)
                     | XH ->
                       Npos (XI (XI (XI (XO (XO (XI (XO (XO (XI (XO (XO (XO
                         (XI (XO (XO (XO (XI (XI (XO (XO (XI (XI (XI (XO (XO
                         (XO (XI (XO (XI (XO (XI (XO (XO (XO (XI (XO (XO (XI
                         (XO (XO (XO (XO (XO (XO (XO (XO (XO (XI (XI (XO (XO
                         (XO (XO (XO (XI (XO (XI (XI (XO (XI (XI (XI (XI
                         XH))))))))))))))))))))))))))))))))))))))))))))))))))))))))))))))))
                  | XO p5 ->
                    (match p5 with
                     | XI p6 ->
                       (match p6 with
                        | XH ->
                          Npos (XO (XO (XO (XO (XO (XI (XO (XI (XO (XO (XI
                            (XO (XO (XI (XI (XI (XI (XO (XO (XO (XI (XI (XO
                            (XO (XI (XO (XI (XI (XO (XI (XI (XI (XO (XO (XI
                            (XI (XO (XI (XO (XO (XO (XI (XO (XI (XI (XI (XO
                            (XO (XI (XO (XO (XO (XO (XI (XI (XI (XI (XI
                            XH))))))))))))))))))))))))))))))))))))))))))))))))))))))))))
                        | _ -> N0)
                     | XO p6 ->
                       (match p6 with
                        | XH ->
                          Npos (XO (XI (XO (XO (XI (XI (XI (XI (XO (XO (XI
                            (XI (XI (XI (XO (XO (XI (XI (XO (XI (XI (XI (XI
                            (XO (XO (XI (XI (XI (XO (XO (XO (XO (XO (XO (XI
                            (XO (XO (XO (XI (XI (XO (XO (XI (XO (XO (XI (XO
                            (XI (XO (XI (XO (XO (XO (XO (XO (XI (XO (XI (XO
                            (XO (XI (XI (XI
                            XH)))))))))))))))))))))))))))))))))))))))))))))))))))))))))))))))
                        | _ -> N0)
                     | XH ->
                       Npos (XO (XO (XO (XI (XI (XO (XI (XI (XO (XO (XI (XO
                         (XO (XI (XI (XO (XO (XO (XI (XI (XI (XI (XI (XI (XO
                         (XI (XO (XO (XI (XO (XO (XI (XO (XI (XI (XO (XO (XO
                         (XO (XI (XI (XO (XO (XI (XI (XO (XO (XO (XI (XO (XI
                         (XI (XO (XO (XO
                         XH))))))))))))))))))))))))))))))))))))))))))))))))))))))))
                  | XH ->
                    Npos (XI (XI (XI (XI (XO (XI (XI (XO (XO (XI (XO (XO (XO
                      (XI (XI (XO (XO (XI (XI (XI (XI (XO (XO (XI (XI (XI (XO
                      (XO (XI (XO (XO (XO (XO (XO (XO (XI (XO (XO (XO (XO (XI
                      (XO (XO (XO (XI (XO (XO (XI (XO (XI (XI (XO (XO (XI (XI
                      (XI (XO (XI (XO (XI (XO (XO (XO
                      XH))))))))))))))))))))))))))))))))))))))))))))))))))))))))))))))))
               | XO p4 ->
                 (match p4 with
                  | XI p5 ->
                    (match p5 with
                     | XI p6 ->
                       (match p6 with
                        | XH ->
                          Npos (XI (XI (XO (XI (XO (XI (XI (XI (XI (XI (XI
                            (XI (XI (XO (XI (XO (XO (XI (XO (XI (XI (XI (XO
                            (XO (XI (XI (XO (XO (XO (XI (XI (XI (XI (XO (XI
                            (XI (XO (XI (XI (XO (XO (XO (XO (XO (XI (XO (XO
                            (XI (XI (XI (XI (XI (XI (XI (XI (XI (XO (XO (XO
                            (XO (XI (XI
                            XH))))))))))))))))))))))))))))))))))))))))))))))))))))))))))))))
                        | _ -> N0)
                     | XO p6 ->
                       (match p6 with
                        | XH ->
                          Npos (XO (XI (XI (XI (XI (XO (XI (XI (XO (XO (XO
                            (XO (XO (XI (XO (XI (XI (XO (XO (XO (XO (XI (XI
                            (XO (XI (XI (XI (XO (XO (XO (XO (XO (XO (XI (XI
                            (XO (XO (XO (XI (XI (XO (XI (XO (XI (XO (XI (XI
                            (XI (XI (XI (XO (XI (XI (XI (XO (XO (XO (XO (XI
                            (XI (XI (XO
                            XH))))))))))))))))))))))))))))))))))))))))))))))))))))))))))))))
                        | _ -> N0)
                     | XH ->
                       Npos (XO (XO (XO (XI (XI (XI (XI (XO (XO (XO (XO (XO
                         (XI (XI (XO (XO (XI (XO (XO (XO (XI (XO (XI (XO (XO
                         (XI (XI (XO (XO (XI (XI (XO (XI (XI (XI (XO (XI (XI
                         (XO (XO (XI (XO (XI (XI (XO (XO (XI (XI (XO (XO (XO
                         (XO (XI (XI (XI (XO (XI (XI (XI (XI (XO (XI (XI
                         XH))))))))))))))))))))))))))))))))))))))))))))))))))))))))))))))))
                  | XO p5 ->
                    (match p5 with
                     | XI p6 ->
                       (match p6 with
                        | XH ->
                          Npos (XO (XI (XI (XI (XI (XI (XI (XI (XI (XI (XO
                            (XI (XI (XO (XO (XI (XO (XI (XI (XI (XI (XO (XI
                            (XI (XI (XI (XI (XO (XI (XO (XO (XO (XI (XI (XO
                            (XO (XI (XI (XI (XI (XO (XI (XI (XI (XI (XO (XO
                            (XI (XI (XO (XI (XI (XI (XI (XO (XI (XI (XI (XI
                            (XI (XI (XI (XO
                            XH)))))))))))))))))))))))))))))))))))))))))))))))))))))))))))))))
                        | _ -> N0)
                     | XO p6 ->
                       (match p6 with
                        | XH ->
                          Npos (XO (XI (XI (XI (XO (XO (XI (XI (XO (XI (XO
                            (XI (XI (XI (XO (XI (XI (XO (XO (XO (XO (XO (XO
                            (XO (XI (XI (XO (XO (XI (XI (XO (XO (XO (XI (XI
                            (XI (XO (XO (XI (XO (XI (XI (XO (XO (XO (XO (XI
                            (XI (XO (XI (XI (XO (XI (XO (XO (XO (XO (XO (XO
                            (XI (XO (XO (XO
                            XH)))))))))))))))))))))))))))))))))))))))))))))))))))))))))))))))
                        | _ -> N0)
                     | XH ->
                       Npos (XO (XI (XI (XI (XI (XO (XI (XI (XO (XI (XI (XI
                         (XO (XI (XO (XI (XO (XO (XI (XI (XO (XI (XO (XO (XI
                         (XI (XO (XI (XI (XO (XI (XO (XO (XI (XI (XO (XO (XI
                         (XI (XI (XO (XI (XI (XI (XI (XI (XI (XO (XI (XI (XO
                         (XO (XO (XO (XO (XI (XO (XO (XO (XO (XI (XO (XO
                         XH))))))))))))))))))))))))))))))))))))))))))))))))))))))))))))))))
                  | XH ->
                    Npos (XI (XI (XI (XI (XI (XI (XI (XI (XO (XO (XO (XO (XO
                      (XO (XI (XO (XO (XO (XI (XI (XI (XI (XO (XI (XI (XI (XI
                      (XO (XI (XO (XO (XO (XO (XI (XI (XO (XI (XI (XO (XI (XO
                      (XI (XI (XI (XO (XO (XO (XI (XO (XO (XI (XO (XI (XI (XI
                      (XO (XI (XI (XO (XI (XI (XO (XI
                      XH))))))))))))))))))))))))))))))))))))))))))))))))))))))))))))))))
               | XH ->
                 Npos (XO (XO (XO (XI (XO (XI (XI (XO (XO (XO (XI (XO (XO (XI
                   (XO (XI (XO (XI (XI (XI (XI (XO (XO (XI (XI (XO (XO (XO
                   (XI (XO (XO (XO (XO (XI (XO (XO (XO (XO (XO (XI (XO (XO
                   (XO (XO (XI (XO
                   XH)))))))))))))))))))))))))))))))))))))))))))))))
            | XH ->
              Npos (XI (XI (XI (XO (XI (XI (XI (XI (XO (XI (XO (XI (XI (XI
                (XO (XI (XO (XI (XO (XO (XO (XO (XO (XO (XI (XI (XI (XI (XO
                (XI (XO (XO (XO (XO (XI (XI (XO (XI (XI (XO (XI (XO (XI (XI
                (XO (XO (XO (XI (XI (XI (XI (XO (XO (XI (XI (XI (XO (XO (XO
                (XO (XI (XO (XO
                XH))))))))))))))))))))))))))))))))))))))))))))))))))))))))))))))))
         | XH ->
           Npos (XI (XI (XO (XI (XO (XO (XI (XO (XI (XO (XO (XI (XI (XO (XI
             (XI (XO (XI (XI (XO (XI (XI (XO (XO (XI (XO (XO (XI (XO (XI (XI
             (XI (XO (XO (XI (XI (XI (XO (XI (XI (XO (XI (XI (XO (XI (XI (XO
             (XO (XO (XI (XI (XO (XO (XO (XI (XI (XI (XO (XI (XI
             XH)))))))))))))))))))))))))))))))))))))))))))))))))))))))))))))
      | XH ->
        Npos (XI (XI (XI (XO (XI (XI (XI (XO (XI (XI (XI (XO (XO (XO (XI (XI
          (XO (XI (XI (XI (XO (XO (XO (XI (XO (XI (XI (XO (XI (XI (XO (XI (XI
          (XO (XI (XO (XI (XO (XI (XI (XI (XO (XO (XI (XO (XO (XO (XI (XO (XI
          (XO (XI (XO (XO (XO (XO (XI (XI (XO (XI (XO (XI
          XH)))))))))))))))))))))))))))))))))))))))))))))))))))))))))))))))
   | XO p0 ->
     (match p0 with
      | XI p1 ->
        (match p1 with
         | XI p2 ->
           (match p2 with
            | XI p3 ->
              (match p3 with
               | XI p4 ->
                 (match p4 with
                  | XI p5 ->
                    (match p5 with
                     | XI p6 ->
                       (match p6 with
                        | XH ->
                          Npos (XO (XI (XI (XO (XI (XI (XI (XI (XI (XI (XO
                            (XO (XI (XI (XI (XI (XI (XI (XI (XO (XI (XI (XI
                            (XI (XI (XO (XO (XI (XI (XI (XO (XO (XI (XO (XO
                            (XI (XO (XO (XI (XO (XI (XI (XO (XI (XO (XI (XO
                            (XI (XI (XI (XO (XI (XO (XO (XO (XI (XO (XO (XI
                            (XI (XO (XO (XI
                            XH)))))))))))))))))))))))))))))))))))))))))))))))))))))))))))))))
                        | _ -> N0)
                     | XO p6 ->
                       (match p6 with
                        | XH ->
                          Npos (XO (XI (XO (XO (XO (XO (XO (XO (XO (XI (XO
                            (XO (XO (XO (XI (XO (XO (XO (XI (XO (XI (XO (XO
                            (XO (XO (XO (XO (XO (XO (XI (XI (XI (XI (XO (XI
                            (XO (XI (XO (XI (XO (XO (XO (XO (XO (XI (XO (XO
                            (XO (XO (XI (XI (XI (XO (XI (XO
                            XH)))))))))))))))))))))))))))))))))))))))))))))))))))))))
                        | _ -> N0)
                     | XH ->
                       Npos (XI (XI (XO (XI (XI (XI (XI (XI (XO (XO (XO (XI
                         (XO (XI (XO (XI (XO (XI (XI (XO (XO (XI (XO (XO (XO
                         (XI (XO (XO (XI (XI (XO (XI (XO (XO (XI (XO (XO (XO
                         (XO (XI (XI (XO (XI (XI (XO (XI (XI (XI (XI (XO (XO
                         (XO (XO (XO (XI (XO (XI (XI (XO (XI (XI
                         XH))))))))))))))))))))))))))))))))))))))))))))))))))))))))))))))
                  | XO p5 ->
                    (match p5 with
                     | XI p6 ->
                       (match p6 with
                        | XH ->
                          Npos (XI (XI (XI (XI (XI (XI (XI (XO (XI (XO (XI
                            (XO (XI (XI (XO (XI (XI (XI (XO (XI (XI (XI (XI
                            (XI (XI (XI (XI (XO (XO (XI (XO (XI (XO (XI (XI
                            (XI (XI (XI (XI (XI (XO (XO (XO (XO (XO (XI (XI
                            (XI (XI (XI (XI (XO (XI (XI (XI (XI (XO (XI (XO
                            (XI (XI (XI (XI
                            XH)))))))))))))))))))))))))))))))))))))))))))))))))))))))))))))))
                        | _ -> N0)
                     | XO p6 ->
                       (match p6 with
                        | XH ->
                          Npos (XI (XI (XO (XO (XO (XI (XO (XO (XO (XI (XO
                            (XI (XI (XO (XO (XO (XI (XI (XO (XI (XI (XI (XI
                            (XI (XO (XI (XI (XO (XO (XO (XO (XO (XO (XO (XO
                            (XO (XI (XI (XI (XI (XO (XI (XO (XI (XO (XI (XO
                            (XO (XI (XI (XI (XO (XI (XO (XI (XO (XO (XI (XI
                            (XI (XI (XI
                            XH))))))))))))))))))))))))))))))))))))))))))))))))))))))))))))))
                        | _ -> N0)
                     | XH ->
                       Npos (XI (XO (XO (XI (XO (XO (XI (XO (XO (XO (XO (XO
                         (XO (XI (XI (XO (XO (XO (XO (XI (XO (XI (XO (XO (XO
                         (XO (XI (XO (XI (XI (XO (XI (XO (XI (XO (XI (XI (XO
                         (XI (XO (XI (XI (XI (XO (XO (XI (XO (XO (XO (XI (XO
                         (XO (XI (XO (XO (XI (XO (XO (XO (XI (XI (XO (XO
                         XH))))))))))))))))))))))))))))))))))))))))))))))))))))))))))))))))
                  | XH ->
                    Npos (XI (XO (XI (XI (XI (XO (XO (XI (XO (XO (XO (XO (XO
                      (XI (XI (XO (XO (XI (XO (XI (XO (XI (XO (XI (XO (XI (XI
                      (XI (XI (XO (XO (XO (XO (XI (XI (XO (XO (XI (XI (XO (XO
                      (XO (XI (XI (XI (XI (XI (XO (XI (XO (XO (XO (XI (XI (XI
                      (XI (XI (XI (XO (XO (XI (XI (XI
                      XH))))))))))))))))))))))))))))))))))))))))))))))))))))))))))))))))
               | XO p4 ->
                 (match p4 with
                  | XI p5 ->
                    (match p5 with
                     | XI p6 ->
                       (match p6 with
                        | XH ->
                          Npos (XO (XO (XI (XO (XO (XO (XO (XI (XI (XI (XI
                            (XI (XO (XO (XO (XI (XI (XI (XO (XO (XO (XI (XO
                            (XI (XI (XI (XI (XO (XI (XI (XO (XI (XO (XO (XO
                            (XI (XI (XO (XI (XI (XO (XI (XI (XI (XI (XI (XO
                            (XO (XO (XO (XI (XO (XO (XI (XO (XI (XI (XI (XI
                            (XO
                            XH))))))))))))))))))))))))))))))))))))))))))))))))))))))))))))
                        | _ -> N0)
                     | XO p6 ->
                       (match p6 with
                        | XH ->
                          Npos (XI (XO (XI (XI (XI (XI (XO (XO (XI (XI (XI
                            (XI (XO (XI (XI (XO (XI (XI (XO (XO (XO (XI (XO
                            (XO (XO (XO (XO (XI (XI (XO (XO (XO (XO (XO (XI
                            (XI (XO (XO (XI (XO (XO (XI (XI (XI (XO (XO (XI
                            (XO (XI (XI (XI (XI (XO (XI (XI (XI (XO (XI (XO
                            (XO (XI (XI (XI
                            XH)))))))))))))))))))))))))))))))))))))))))))))))))))))))))))))))
                        | _ -> N0)
                     | XH ->
                       Npos (XI (XO (XO (XO (XI (XO (XO (XI (XI (XO (XO (XI
                         (XI (XI (XO (XI (XO (XO (XO (XO (XO (XI (XI (XO (XO
                         (XI (XI (XI (XI (XI (XI (XO (XI (XI (XO (XI (XO (XO
                         (XO (XI (XI (XO (XI (XO (XO (XI (XO (XI (XO (XI (XI
                         (XO (XI (XI (XO (XI (XI (XI (XO
                         XH))))))))))))))))))))))))))))))))))))))))))))))))))))))))))))
                  | XO p5 ->
                    (match p5 with
                     | XI p6 ->
                       (match p6 with
                        | XH ->
                          Npos (XO (XO (XI (XI (XO (XI (XI (XI (XO (XO (XO
                            (XO (XI (XO (XI (XO (XO (XI (XI (XO (XI (XO (XI
                            (XO (XI (XI (XI (XI (XI (XI (XI (XO (XI (XO (XO
                            (XI (XI (XO (XO (XO (XO (XI (XO (XI (XO (XI (XO
                            (XO (XI (XO (XO (XI (XO (XI (XO
                            XH)))))))))))))))))))))))))))))))))))))))))))))))))))))))
                        | _ -> N0)
                     | XO p6 ->
                       (match p6 with
                        | XH ->
                          Npos (XI (XO (XO (XI (XO (XI (XI (XI (XI (XI (XO
                            (XI (XO (XO (XI (XI (XO (XI (XI (XI (XI (XO (XO
                            (XI (XI (XI (XO (XO (XI (XI (XI (XI (XO (XI (XI
                            (XO (XI (XO (XI (XI (XO (XO (XO (XO (XI (XI (XI
                            XH)))))))))))))))))))))))))))))))))))))))))))))))
                        | _ -> N0)
                     | XH ->
                       Npos (XO (XO (XO (XI (XO (XO (XO (XI (XI (XI (XO (XI
                         (XI (XI (XI (XI (XO (XO (XI (XO (XI (XI (XO (XO (XO
                         (XO (XI (XO (XI (XI (XI (XI (XI (XI (XI (XI (XI (XI
                         (XI (XO (XI (XI (XO (XI (XI (XO (XO (XO (XO (XI (XO
                         (XO (XO (XI (XO (XO (XO (XI (XI (XO (XO (XO (XO
                         XH))))))))))))))))))))))))))))))))))))))))))))))))))))))))))))))))
                  | XH ->
                    Npos (XO (XO (XO (XO (XO (XI (XI (XO (XI (XO (XO (XO (XI
                      (XI (XI (XI (XO (XO (XO (XO (XI (XI (XO (XI (XI (XI (XO
                      (XI (XO (XI (XO (XO (XO (XI (XI (XO (XO (XI (XO (XI (XO
                      (XO (XI (XO (XO (XO (XO (XI (XI (XO (XI (XO (XO (XI (XO
                      (XO (XI (XI (XI (XI (XI (XI (XO
                      XH))))))))))))))))))))))))))))))))))))))))))))))))))))))))))))))))
               | XH ->
                 Npos (XI (XI (XO (XI (XI (XO (XO (XI (XO (XI (XO (XI (XO (XO
                   (XO (XI (XO (XI (XO (XI (XI (XO (XO (XO (XO (XO (XO (XI
                   (XI (XI (XI (XO (XI (XO (XI (XI (XI (XI (XI (XI (XI (XI
                   (XO (XO (XI (XO (XI (XI (XI (XO (XI (XO (XI (XO (XI (XI
                   (XI (XI (XO (XI (XO
                   XH))))))))))))))))))))))))))))))))))))))))))))))))))))))))))))))
            | XO p3 ->
              (match p3 with
               | XI p4 ->
                 (match p4 with
                  | XI p5 ->
                    (match p5 with
                     | XI p6 ->
                       (match p6 with
                        | XH ->
                          Npos (XI (XO (XI (XI (XO (XO (XO (XI (XO (XI (XO
                            (XI (XO (XO (XO (XO (XO (XI (XI (XO (XI (XO (XO
                            (XO (XO (XI (XI (XI (XO (XO (XO (XI (XI (XO (XI
                            (XI (XO (XI (XI (XI (XO (XI (XI (XI (XI (XO (XI
                            (XO (XO (XO (XO (XO (XI (XI (XO (XO (XO (XO (XO
                            (XO (XO (XI
                            XH))))))))))))))))))))))))))))))))))))))))))))))))))))))))))))))
                        | _ -> N0)
                     | XO p6 ->
                       (match p6 with
                        | XH ->
                          Npos (XO (XO (XO (XO (XI (XI (XI (XI (XO (XI (XI
                            (XO (XO (XI (XI (XO (XO (XI (XO (XI (XI (XI (XI
                            (XI (XO (XI (XI (XO (XI (XO (XO (XO (XI (XI (XO
                            (XO (XO (XO (XO (XO (XI (XO (XO (XO (XI (XO (XO
                            (XI (XI (XO (XI (XO (XO (XO (XI (XO (XI (XO (XO
                            (XO (XI (XI (XO
                            XH)))))))))))))))))))))))))))))))))))))))))))))))))))))))))))))))
                        | _ -> N0)
                     | XH ->
                       Npos (XO (XI (XO (XO (XI (XO (XI (XO (XO (XO (XO (XI
                         (XI (XO (XI (XI (XI (XO (XO (XI (XI (XI (XO (XI (XI
                         (XO (XI (XI (XO (XI (XO (XO (XI (XO (XO (XO (XI (XO
                         (XO (XI (XO (XI (XI (XI (XI (XI (XO (XI (XO (XI (XI
                         (XO (XI (XO (XI (XI (XO (XO (XI (XI (XO (XO (XO
                         XH))))))))))))))))))))))))))))))))))))))))))))))))))))))))))))))))
                  | XO p5 ->
                    (match p5 with
                     | XI p6 ->
                       (match p6 with
                        | XH ->
                          Npos (XO (XO (XI (XO (XI (XO (XI (XO (XO (XI (XO
                            (XO (XO (XO (XO (XO (XO (XO (XO (XO (XO (XO (XO
                            (XO (XO (XI (XO (XI (XO (XI (XI (XI (XI (XO (XI
                            (XO (XO (XI (XI (XI (XI (XI (XO (XO (XO (XO (XO
                            (XI (XI (XI (XI (XI (XI (XO (XI (XO (XO (XO (XI
                            (XO (XO (XI
                            XH))))))))))))))))))))))))))))))))))))))))))))))))))))))))))))))
                        | _ -> N0)
                     | XO p6 ->
                       (match p6 with
                        | XH ->
                          Npos (XI (XI (XO (XI (XI (XO (XI (XO (XO (XI (XO
                            (XI (XI (XO (XI (XO (XI (XI (XI (XO (XI (XO (XI
                            (XI (XI (XO (XO (XI (XI (XO (XI (XO (XI (XI (XI
                            (XO (XI (XI (XO (XO (XI (XI (XI (XI (XI (XI (XO
                            (XI (XO (XI (XI (XI (XO (XI (XO (XO (XO (XI (XI
                            (XO (XI (XI
                            XH))))))))))))))))))))))))))))))))))))))))))))))))))))))))))))))
                        | _ -> N0)
                     | XH ->
                       Npos (XI (XO (XO (XO (XI (XI (XI (XO (XO (XI (XI (XI
                         (XO (XO (XI (XI (XO (XI (XO (XO (XO (XI (XO (XI (XO
                         (XO (XI (XI (XI (XO (XO (XI (XI (XI (XO (XO (XI (XI
                         (XI (XO (XI (XO (XO (XO (XO (XI (XO (XI (XO (XO (XO
                         (XO (XO (XI (XO (XO (XO (XI (XI (XO (XO (XO
                         XH)))))))))))))))))))))))))))))))))))))))))))))))))))))))))))))))
                  | XH ->
                    Npos (XI (XO (XO (XO (XI (XO (XI (XI (XO (XO (XO (XO (XI
                      (XI (XI (XO (XI (XI (XI (XO (XO (XI (XI (XI (XI (XO (XI
                      (XI (XO (XI (XI (XO (XI (XI (XO (XI (XI (XO (XI (XO (XI
                      (XI (XI (XI (XI (XO (XO (XO (XI (XI (XO (XI (XO (XO (XI
                      (XI (XI (XO (XO
                      XH))))))))))))))))))))))))))))))))))))))))))))))))))))))))))))
               | XO p4 ->
                 (match p4 with
                  | XI p5 ->
                    (match p5 with
                     | XI p6 ->
                       (match p6 with
                        | XH ->
                          Npos (XO (XI (XO (XI (XO (XO (XO (XI (XI (XI (XI
                            (XO (XO (XI (XI (XI (XI (XI (XO (XO (XI (XI (XO
                            (XO (XO (XO (XO (XO (XO (XO (XO (XO (XI (XO (XO
                            (XO (XO (XO (XI (XO (XI (XI (XI (XI (XI (XO (XO
                            (XO (XI (XI (XI (XI (XO (XI (XI (XI (XO (XO (XI
                            (XI (XO (XI (XI
                            XH)))))))))))))))))))))))))))))))))))))))))))))))))))))))))))))))
                        | _ -> N0)
                     | XO p6 ->
                       (match p6 with
                        | XH ->
                          Npos (XI (XI (XI (XO (XO (XI (XI (XO (XI (XO (XO
                            (XI (XO (XI (XI (XO (XI (XO (XO (XO (XI (XO (XI
                            (XI (XI (XO (XI (XI (XO (XI (XO (XI (XI (XO (XO
                            (XI (XI (XO (XO (XI (XO (XI (XI (XO (XI (XI (XO
                            (XI (XI (XO (XI (XO (XI (XI (XI (XO (XI (XI (XO
                            (XI (XI (XO
                            XH))))))))))))))))))))))))))))))))))))))))))))))))))))))))))))))
                        | _ -> N0)
                     | XH ->
                       Npos (XO (XI (XI (XI (XO (XO (XI (XI (XI (XI (XO (XI
                         (XO (XO (XI (XO (XO (XI (XI (XO (XI (XI (XO (XI (XO
                         (XI (XO (XO (XI (XO (XO (XO (XI (XO (XI (XI (XO (XI
                         (XI (XO (XO (XI (XO (XO (XO (XI (XI (XO (XO (XI (XI
                         (XI (XI (XO (XO (XO (XO (XI (XI (XI (XI (XI
                         XH)))))))))))))))))))))))))))))))))))))))))))))))))))))))))))))))
                  | XO p5 ->
                    (match p5 with
                     | XI p6 ->
                       (match p6 with
                        | XH ->
                          Npos (XO (XI (XO (XI (XO (XO (XO (XI (XI (XI (XI
                            (XO (XI (XO (XO (XO (XI (XO (XO (XI (XI (XO (XO
                            (XO (XI (XI (XO (XO (XI (XI (XI (XI (XI (XI (XO
                            (XI (XO (XO (XI (XI (XO (XI (XO (XI (XO (XO (XO
                            XH)))))))))))))))))))))))))))))))))))))))))))))))
                        | _ -> N0)
                     | XO p6 ->
                       (match p6 with
                        | XH ->
                          Npos (XI (XI (XO (XI (XO (XI (XI (XO (XO (XI (XI
                            (XO (XO (XO (XO (XI (XI (XI (XO (XI (XO (XI (XI
                            (XI (XO (XI (XI (XI (XO (XI (XI (XO (XO (XO (XI
                            (XO (XO (XI (XI (XI (XI (XI (XI (XO (XI (XO (XO
                            (XO (XO (XO (XI (XI (XO (XI (XI (XI (XO (XI (XO
                            (XO (XO (XI (XI
                            XH)))))))))))))))))))))))))))))))))))))))))))))))))))))))))))))))
                        | _ -> N0)
                     | XH ->
                       Npos (XO (XO (XI (XO (XO (XO (XI (XO (XI (XI (XO (XI
                         (XI (XO (XO (XO (XO (XO (XI (XO (XO (XI (XI (XO (XO
                         (XI (XI (XO (XO (XI (XI (XI (XI (XO (XI (XO (XI (XO
                         (XI (XO (XO (XI (XO (XO (XO (XO (XO (XO (XI (XO (XI
                         (XO (XI (XO (XI (XO (XO (XO (XI (XI (XO (XI (XI
                         XH))))))))))))))))))))))))))))))))))))))))))))))))))))))))))))))))
                  | XH ->
                    Npos (XI (XI (XO (XI (XI (XI (XI (XO (XO (XO (XI (XO (XO
                      (XI (XO (XI (XI (XO (XO (XO (XO (XI (XO (XO (XO (XO (XO
                      (XO (XO (XO (XI (XI (XO (XO (XI (XO (XI (XI (XI (XI (XO
                      (XO (XO (XI (XO (XO (XI (XI (XI (XO (XO (XI (XI (XO (XO
                      (XI (XI (XO (XI (XI (XO
                      XH))))))))))))))))))))))))))))))))))))))))))))))))))))))))))))))
               | XH ->
                 Npos (XI (XO (XI (XI (XO (XI (XI (XI (XO (XO (XI (XO (XO (XI
                   (XO (XI (XO (XO (XO (XI (XI (XO (XO (XI (XO (XO (XI (XI
                   (XI (XO (XI (XO (XI (XI (XI (XO (XI (XO (XI (XO (XI (XO
                   (XO (XI (XO (XO (XI (XO (XI (XO (XO (XO (XI (XO (XO (XO
                   (XO (XO (XO (XI (XO (XO
                   XH)))))))))))))))))))))))))))))))))))))))))))))))))))))))))))))))
            | XH ->
              Npos (XI (XO (XO (XO (XO (XO (XO (XI (XO (XI (XI (XO (XI (XO
                (XI (XI (XO (XO (XO (XI (XI (XO (XI (XI (XO (XO (XO (XO (XO
                (XO (XO (XI (XI (XI (XO (XI (XO (XI (XI (XI (XI (XI (XO (XO
                (XO (XO (XO (XO (XI (XI (XO (XO (XI (XI (XI (XO (XO (XI (XI
                XH))))))))))))))))))))))))))))))))))))))))))))))))))))))))))))
         | XO p2 ->
           (match p2 with
            | XI p3 ->
              (match p3 with
               | XI p4 ->
                 (match p4 with
                  | XI p5 ->
                    (match p5 with
                     | XI p6 ->
                       (match p6 with
                        | XH ->
                          Npos (XI (XO (XI (XO (XI (XO (XI (XO (XI (XO (XO
                            (XO (XO (XO (XO (XI (XO (XI (XO (XI (XO (XI (XI
                            (XO (XO (XI (XO (XI (XO (XI (XI (XO (XO (XI (XO
                            (XO (XI (XI (XI (XO (XO (XI (XI (XO (XI (XI (XO
                            (XO (XI (XO (XI (XO (XO (XI (XO (XI (XI (XO (XI
                            (XO (XO (XI (XI
                            XH)))))))))))))))))))))))))))))))))))))))))))))))))))))))))))))))
                        | _ -> N0)
                     | XO p6 ->
                       (match p6 with
                        | XH ->
                          Npos (XO (XO (XI (XI (XO (XI (XI (XO (XI (XO (XO
                            (XI (XI (XO (XI (XI (XO (XI (XI (XI (XO (XO (XO
                            (XI (XI (XO (XO (XI (XO (XI (XI (XI (XO (XO (XI
                            (XI (XO (XI (XO (XO (XI (XO (XO (XO (XI (XI (XO
                            (XO (XO (XO (XI (XO (XO (XO (XI (XO (XO (XI (XI
                            (XI (XO (XO (XI
                            XH)))))))))))))))))))))))))))))))))))))))))))))))))))))))))))))))
                        | _ -> N0)
                     | XH ->
                       Npos (XI (XI (XI (XO (XO (XI (XI (XO (XI (XI (XI (XO
                         (XO (XI (XO (XI (XO (XI (XO (XI (XO (XO (XI (XO (XO
                         (XI (XO (XI (XI (XO (XO (XO (XI (XO (XO (XI (XI (XO
                         (XO (XO (XI (XI (XI (XI (XI (XI (XO (XI (XO (XI (XI
                         (XO (XO (XO (XO (XI (XI (XI (XO (XI (XO (XI (XO
                         XH))))))))))))))))))))))))))))))))))))))))))))))))))))))))))))))))
                  | XO p5 ->
                    (match p5 with
                     | XI p6 ->
                       (match p6 with
                        | XH ->
                          Npos (XI (XO (XI (XO (XI (XO (XI (XO (XI (XO (XI
                            (XO (XO (XI (XI (XO (XI (XO (XI (XO (XI (XI (XI
                            (XI (XI (XI (XO (XI (XI (XO (XO (XI (XO (XI (XI
                            (XO (XO (XO (XO (XO (XI (XI (XO (XI (XI (XO (XO
                            (XO (XO (XI (XI (XO (XI (XI (XI (XO (XI (XO (XO
                            (XI
                            XH))))))))))))))))))))))))))))))))))))))))))))))))))))))))))))
                        | _ -> N0)
                     | XO p6 ->
                       (match p6 with
                        | XH ->
                          Npos (XI (XO (XO (XI (XO (XI (XI (XI (XI (XO (XO
                            (XO (XI (XO (XI (XO (XI (XI (XI (XI (XI (XO (XI
                            (XO (XI (XO (XO (XI (XO (XI (XI (XI (XI (XI (XO
                            (XO (XI (XO (XO (XO (XI (XO (XI (XO (XO (XO (XI
                            (XI (XI (XO (XI (XI (XI (XI (XI (XO (XI (XO (XO
                            (XO (XO
                            XH)))))))))))))))))))))))))))))))))))))))))))))))))))))))))))))
                        | _ -> N0)
                     | XH ->
                       Npos (XI (XI (XI (XI (XI (XO (XO (XO (XI (XI (XO (XI
                         (XO (XI (XO (XI (XO (XI (XO (XO (XO (XI (XI (XI (XI
                         (XO (XO (XI (XI (XI (XI (XI (XI (XO (XI (XI (XO (XI
                         (XI (XO (XO (XO (XI (XI (XI (XO (XO (XO (XI (XI (XI
                         (XI (XI (XO (XI (XI (XO (XI (XO (XO (XO (XI (XO
                         XH))))))))))))))))))))))))))))))))))))))))))))))))))))))))))))))))
                  | XH ->
                    Npos (XO (XO (XO (XO (XI (XI (XI (XO (XI (XI (XI (XO (XI
                      (XI (XI (XI (XO (XI (XO (XI (XO (XI (XI (XO (XI (XO (XO
                      (XO (XO (XO (XO (XO (XI (XO (XI (XI (XI (XI (XI (XO (XI
                      (XI (XI (XI (XO (XI (XI (XI (XI (XI (XO (XO (XO (XI (XO
                      (XI (XI (XI (XO (XO (XI (XI
                      XH)))))))))))))))))))))))))))))))))))))))))))))))))))))))))))))))
               | XO p4 ->
                 (match p4 with
                  | XI p5 ->
                    (match p5 with
                     | XI p6 ->
                       (match p6 with
                        | XH ->
                          Npos (XI (XO (XI (XO (XI (XO (XI (XI (XO (XI (XO
                            (XI (XO (XI (XI (XI (XI (XI (XO (XI (XO (XO (XI
                            (XI (XO (XO (XO (XI (XI (XO (XO (XI (XO (XI (XO
                            (XO (XI (XI (XO (XI (XO (XO (XI (XI (XI (XI (XI
                            (XO (XI (XI (XO (XO (XO (XO (XI (XI (XI (XI (XO
                            (XO (XI (XI (XO
                            XH)))))))))))))))))))))))))))))))))))))))))))))))))))))))))))))))
                        | _ -> N0)
                     | XO p6 ->
                       (match p6 with
                        | XH ->
                          Npos (XI (XO (XI (XI (XO (XO (XI (XO (XI (XO (XO
                            (XI (XO (XO (XO (XI (XI (XO (XO (XO (XI (XO (XI
                            (XI (XI (XO (XO (XI (XO (XI (XI (XO (XO (XI (XO
                            (XO (XO (XI (XO (XO (XO (XI (XI (XO (XO (XI (XI
                            (XI (XI (XO (XI (XI (XI (XO (XO (XO (XO (XI (XO
                            (XO (XO (XI
                            XH))))))))))))))))))))))))))))))))))))))))))))))))))))))))))))))
                        | _ -> N0)
                     | XH ->
                       Npos (XO (XI (XI (XI (XI (XI (XO (XO (XI (XI (XI (XI
                         (XI (XI (XO (XI (XI (XI (XI (XI (XI (XO (XI (XI (XO
                         (XI (XO (XI (XI (XO (XO (XI (XO (XO (XI (XI (XI (XI
                         (XI (XO (XI (XO (XI (XO (XI (XO (XO (XI (XI (XI (XO
                         (XO (XO
                         XH))))))))))))))))))))))))))))))))))))))))))))))))))))))
                  | XO p5 ->
                    (match p5 with
                     | XI p6 ->
                       (match p6 with
                        | XH ->
                          Npos (XO (XI (XO (XI (XO (XI (XO (XO (XO (XO (XI
                            (XO (XO (XI (XO (XO (XO (XO (XI (XO (XO (XO (XI
                            (XO (XI (XI (XO (XI (XO (XO (XI (XO (XO (XO (XO
                            (XI (XO (XI (XI (XI (XO (XI (XI (XO (XI (XO (XO
                            (XI (XO (XO (XO (XO (XI (XO (XO (XO (XI (XO (XI
                            (XO (XI (XO (XI
                            XH)))))))))))))))))))))))))))))))))))))))))))))))))))))))))))))))
                        | _ -> N0)
                     | XO p6 ->
                       (match p6 with
                        | XH ->
                          Npos (XI (XO (XO (XI (XI (XO (XO (XI (XI (XI (XO
                            (XO (XO (XI (XO (XI (XO (XO (XO (XI (XI (XO (XO
                            (XI (XI (XI (XI (XI (XI (XO (XO (XI (XO (XI (XO
                            (XO (XI (XO (XO (XO (XI (XO (XI (XI (XO (XI (XO
                            (XI (XI (XO (XO (XI (XI (XO (XO (XO (XI (XO (XO
                            (XO (XO
                            XH)))))))))))))))))))))))))))))))))))))))))))))))))))))))))))))
                        | _ -> N0)
                     | XH ->
                       Npos (XI (XO (XI (XI (XO (XI (XO (XO (XO (XI (XO (XI
                         (XI (XO (XO (XO (XI (XI (XO (XI (XO (XO (XO (XI (XO
                         (XO (XI (XI (XO (XI (XO (XO (XO (XI (XI (XO (XO (XI
                         (XO (XO (XI (XI (XO (XO (XI (XI (XO (XO (XO (XO (XI
                         (XI (XI (XI (XI (XO (XO (XI (XO (XO (XO (XO (XO
                         XH))))))))))))))))))))))))))))))))))))))))))))))))))))))))))))))))
                  | XH ->
                    Npos (XO (XO (XI (XI (XO (XO (XO (XO (XI (XI (XI (XO (XO
                      (XI (XO (XO (XI (XI (XI (XI (XO (XI (XO (XI (XO (XI (XI
                      (XO (XO (XO (XO (XI (XO (XO (XO (XI (XO (XO (XO (XI (XO
                      (XI (XI (XO (XI (XI (XO
                      XH))))))))))))))))))))))))))))))))))))))))))))))))
               | XH ->
                 Npos (XI (XI (XO (XI (XO (XO (XI (XO (XI (XI (XI (XO (XO (XO
                   (XO (XI (XI (XI (XO (XO (XO (XI (XI (XI (XO (XI (XO (XO
                   (XO (XO (XO (XI (XI (XI (XI (XO (XI (XO (XO (XI (XO (XI
                   (XI (XI (XI (XI (XI (XO (XO (XO (XO (XI (XO (XI (XI (XO
                   (XI (XO (XO (XI (XI (XO (XO
                   XH))))))))))))))))))))))))))))))))))))))))))))))))))))))))))))))))
            | XO p3 ->
              (match p3 with
               | XI p4 ->
                 (match p4 with
                  | XI p5 ->
                    (match p5 with
                     | XI p6 ->
                       (match p6 with
                        | XH ->
                          Npos (XO (XO (XI (XO (XI (XI (XO (XI (XO (XI (XO
                            (XO (XI (XI (XI (XO (XO (XI (XI (XO (XI (XI (XO
                            (XO (XO (XO (XO (XO (XI (XO (XI (XO (XI (XI (XI
                            (XO (XO (XI (XI (XO (XI (XO (XO (XI (XO (XI
                            XH))))))))))))))))))))))))))))))))))))))))))))))
                        | _ -> N0)
                     | XO p6 ->
                       (match p6 with
                        | XH ->
                          Npos (XI (XO (XO (XO (XO (XI (XI (XI (XO (XI (XO
                            (XI (XI (XI (XI (XI (XO (XI (XI (XI (XI (XI (XO
                            (XI (XI (XI (XO (XO (XI (XI (XO (XI (XI (XI (XI
                            (XI (XO (XI (XO (XO (XO (XO (XO (XO (XI (XO (XI
                            (XO (XI (XI (XI (XO (XO (XI (XO (XO (XO (XI (XI
                            (XI (XI (XI (XO
                            XH)))))))))))))))))))))))))))))))))))))))))))))))))))))))))))))))
                        | _ -> N0)
                     | XH ->
                       Npos (XI (XI (XO (XI (XO (XO (XI (XI (XO (XO (XO (XI
                         (XI (XO (XO (XO (XI (XO (XI (XI (XO (XO (XO (XO (XI
                         (XO (XI (XO (XO (XI (XO (XI (XI (XO (XI (XO (XO (XO
                         (XO (XI (XI (XO (XO (XO (XO (XI (XI (XO (XI (XO (XI
                         (XO (XO (XI (XO (XI (XI (XO (XI (XO (XO (XI
                         XH)))))))))))))))))))))))))))))))))))))))))))))))))))))))))))))))
                  | XO p5 ->
                    (match p5 with
                     | XI p6 ->
                       (match p6 with
                        | XH ->
                          Npos (XI (XO (XI (XI (XO (XO (XI (XO (XI (XO (XI
                            (XI (XI (XO (XO (XI (XO (XI (XI (XI (XO (XO (XI
                            (XO (XI (XI (XO (XO (XO (XI (XO (XO (XO (XO (XI
                            (XO (XO (XO (XO (XI (XI (XO (XO (XI (XO (XI (XI
                            (XI (XI (XI (XO (XI (XO (XO (XI (XI (XO (XI (XO
                            (XO (XI (XO (XO
                            XH)))))))))))))))))))))))))))))))))))))))))))))))))))))))))))))))
                        | _ -> N0)
                     | XO p6 ->
                       (match p6 with
                        | XH ->
                          Npos (XO (XI (XI (XO (XI (XO (XO (XI (XI (XO (XO
                            (XO (XO (XI (XO (XI (XI (XI (XO (XI (XI (XO (XO
                            (XO (XI (XI (XO (XI (XO (XO (XI (XI (XO (XO (XI
                            (XI (XO (XI (XO (XO (XO (XO (XI (XI (XO (XI (XI
                            (XI (XO (XO (XO (XO (XO (XI (XO (XO (XO (XO (XO
                            (XO (XO (XO (XO
                            XH)))))))))))))))))))))))))))))))))))))))))))))))))))))))))))))))
                        | _ -> N0)
                     | XH ->
                       Npos (XO (XI (XI (XO (XI (XI (XO (XO (XO (XI (XO (XI
                         (XI (XO (XO (XI (XI (XI (XI (XI (XI (XI (XO (XI (XO
                         (XI (XO (XI (XI (XI (XO (XI (XI (XI (XI (XI (XO (XO
                         (XI (XO (XO (XO (XO (XO (XI (XI (XI (XO (XO (XO (XO
                         (XI (XI (XI (XO (XO (XI (XO (XI (XI (XO (XI
                         XH)))))))))))))))))))))))))))))))))))))))))))))))))))))))))))))))
                  | XH ->
                    Npos (XO (XI (XO (XO (XO (XI (XO (XI (XO (XO (XO (XI (XI
                      (XI (XO (XO (XO (XI (XI (XI (XI (XO (XI (XI (XI (XI (XI
                      (XI (XO (XI (XO (XO (XI (XI (XI (XO (XI (XO (XI (XI (XO
                      (XI (XO (XI (XO (XI (XI (XO (XI (XI (XI (XO (XI (XI (XI
                      (XO (XI (XO (XI (XI (XI (XI (XO
                      XH))))))))))))))))))))))))))))))))))))))))))))))))))))))))))))))))
               | XO p4 ->
                 (match p4 with
                  | XI p5 ->
                    (match p5 with
                     | XI p6 ->
                       (match p6 with
                        | XH ->
                          Npos (XI (XI (XI (XO (XO (XI (XI (XI (XO (XO (XO
                            (XO (XI (XI (XI (XO (XI (XO (XO (XI (XO (XI (XI
                            (XO (XO (XO (XO (XO (XO (XO (XI (XI (XI (XI (XI
                            (XO (XO (XI (XO (XI (XI (XO (XI (XO (XI (XO (XI
                            (XI (XI (XI (XI (XO (XO (XI (XO (XO (XI (XO
                            XH))))))))))))))))))))))))))))))))))))))))))))))))))))))))))
                        | _ -> N0)
                     | XO p6 ->
                       (match p6 with
                        | XH ->
                          Npos (XO (XO (XO (XI (XI (XO (XO (XI (XI (XO (XO
                            (XI (XO (XI (XI (XO (XI (XO (XO (XO (XO (XO (XI
                            (XO (XI (XI (XI (XO (XO (XO (XI (XO (XI (XI (XO
                            (XI (XI (XI (XO (XI (XI (XI (XO (XO (XI (XO (XO
                            (XI (XO (XO (XO (XI (XO (XO (XI (XI (XI (XO (XI
                            (XI (XO (XO (XI
                            XH)))))))))))))))))))))))))))))))))))))))))))))))))))))))))))))))
                        | _ -> N0)
                     | XH ->
                       Npos (XO (XO (XI (XO (XO (XI (XI (XO (XO (XO (XO (XI
                         (XI (XO (XO (XI (XO (XO (XI (XI (XI (XI (XI (XI (XI
                         (XI (XO (XI (XO (XI (XO (XI (XI (XI (XO (XO (XI (XO
                         (XO (XO (XI (XO
                         XH)))))))))))))))))))))))))))))))))))))))))))
                  | XO p5 ->
                    (match p5 with
                     | XI p6 ->
                       (match p6 with
                        | XH ->
                          Npos (XO (XI (XO (XO (XI (XO (XO (XO (XO (XI (XI
                            (XI (XO (XO (XI (XO (XI (XO (XI (XO (XO (XO (XO
                            (XI (XO (XI (XO (XO (XI (XI (XI (XI (XI (XI (XI
                            (XI (XO (XI (XO (XO (XO (XO (XO (XO (XI (XI (XO
                            (XO (XO (XO (XI (XO (XO (XO (XO (XO (XO (XO (XO
                            (XI (XO (XI (XO
                            XH)))))))))))))))))))))))))))))))))))))))))))))))))))))))))))))))
                        | _ -> N0)
                     | XO p6 ->
                       (match p6 with
                        | XH ->
                          Npos (XO (XI (XI (XI (XO (XI (XO (XI (XI (XO (XI
                            (XI (XI (XI (XI (XI (XI (XO (XO (XO (XI (XI (XI
                            (XO (XI (XI (XO (XI (XI (XI (XO (XI (XO (XO (XI
                            (XI (XI (XO (XO (XI (XI (XI (XO (XI (XI (XO (XI
                            (XO (XI (XO (XO (XI (XI (XI (XO (XO (XI (XO (XO
                            (XI (XO (XI (XI
                            XH)))))))))))))))))))))))))))))))))))))))))))))))))))))))))))))))
                        | _ -> N0)
                     | XH ->
                       Npos (XI (XO (XI (XO (XO (XO (XO (XI (XI (XI (XI (XO
                         (XO (XO (XO (XO (XO (XI (XI (XO (XI (XO (XI (XO (XI
                         (XO (XI (XI (XI (XI (XI (XI (XI (XI (XO (XO (XI (XO
                         (XO (XI (XI (XO (XI (XI (XO (XI (XO (XI (XO (XO (XO
                         (XI (XO (XI (XI (XI (XO (XI (XI (XI (XO (XI
                         XH)))))))))))))))))))))))))))))))))))))))))))))))))))))))))))))))
                  | XH ->
                    Npos (XI (XI (XI (XI (XO (XI (XI (XO (XI (XI (XI (XI (XI
                      (XI (XO (XI (XO (XO (XO (XO (XO (XI (XO (XO (XO (XI (XI
                      (XO (XI (XI (XI (XI (XI (XO (XI (XI (XO (XO (XO (XI (XO
                      (XI (XO (XI (XI (XO (XO (XI (XI (XI (XI (XO (XI (XO (XI
                      (XO (XI (XI (XI (XI (XO (XI (XO
                      XH))))))))))))))))))))))))))))))))))))))))))))))))))))))))))))))))
               | XH ->
                 Npos (XO (XO (XO (XI (XO (XI (XO (XO (XO (XO (XI (XI (XO (XO
                   (XI (XI (XI (XI (XI (XI (XO (XO (XO (XI (XO (XO (XO (XI
                   (XO (XI (XO (XI (XO (XI (XI (XO (XO (XO (XO (XO (XI (XI
                   (XO (XO (XO (XO (XO (XI (XO (XO (XO (XO (XI (XI (XO (XI
                   (XO (XO (XI (XO (XO (XO (XI
                   XH))))))))))))))))))))))))))))))))))))))))))))))))))))))))))))))))
            | XH ->
              Npos (XO (XI (XO (XI (XO (XO (XO (XI (XO (XI (XO (XI (XI (XO
                (XO (XI (XI (XO (XI (XI (XO (XO (XO (XO (XI (XO (XI (XO (XI
                (XO (XO (XO (XI (XI (XI (XO (XI (XI (XI (XI (XI (XO (XI (XI
                (XO (XI (XO (XO (XI (XO (XO (XI (XO (XO (XI (XI (XI (XO (XO
                (XO (XO (XI (XI
                XH))))))))))))))))))))))))))))))))))))))))))))))))))))))))))))))))
         | XH ->
           Npos (XO (XI (XI (XO (XI (XI (XO (XI (XI (XO (XI (XO (XI (XO (XI
             (XI (XO (XO (XI (XO (XI (XO (XI (XO (XI (XO (XI (XO (XI (XO (XI
             (XO (XO (XI (XI (XI (XO (XO (XI (XO (XO (XO (XI (XI (XO (XO (XI
             (XO (XO (XI (XO (XI (XI (XI (XI (XO (XO (XO (XO (XO (XO
             XH))))))))))))))))))))))))))))))))))))))))))))))))))))))))))))))
      | XO p1 ->
        (match p1 with
         | XI p2 ->
           (match p2 with
            | XI p3 ->
              (match p3 with
               | XI p4 ->
                 (match p4 with
                  | XI p5 ->
                    (match p5 with
                     | XI p6 ->
                       (match p6 with
                        | XH ->
                          Npos (XO (XO (XI (XO (XI (XO (XO (XI (XI (XI (XO
                            (XO (XI (XO (XI (XI (XI (XO (XO (XI (XO (XO (XI
                            (XI (XI (XI (XO (XI (XO (XI (XO (XI (XI (XI (XI
                            (XO (XI (XI (XI (XI (XO (XI (XI (XO (XO (XO (XI
                            (XO (XI (XI (XO (XO (XI (XI (XI (XI (XO (XO (XO
                            (XI
                            XH))))))))))))))))))))))))))))))))))))))))))))))))))))))))))))
                        | _ -> N0)
                     | XO p6 ->
                       (match p6 with
                        | XH ->
                          Npos (XI (XI (XO (XI (XI (XO (XO (XO (XO (XO (XI
                            (XO (XI (XO (XO (XI (XI (XI (XI (XO (XI (XO (XI
                            (XO (XO (XI (XO (XO (XI (XO (XO (XO (XI (XI (XI
                            (XO (XO (XI (XO (XI (XO (XI (XI (XO (XO (XO (XO
                            (XI (XO (XO (XO (XO (XI (XO (XI (XO (XO (XO (XO
                            (XO (XI (XI (XI
                            XH)))))))))))))))))))))))))))))))))))))))))))))))))))))))))))))))
                        | _ -> N0)
                     | XH ->
                       Npos (XO (XI (XI (XI (XO (XI (XO (XO (XO (XI (XO (XO
                         (XO (XI (XO (XI (XO (XO (XO (XI (XO (XO (XO (XO (XO
                         (XI (XI (XI (XO (XO (XO (XI (XI (XI (XI (XO (XI (XO
                         (XO (XO (XO (XO (XO (XO (XI (XO (XO (XO (XI (XI (XO
                         (XO (XI (XI (XI (XO (XO (XI (XI (XO (XO
                         XH))))))))))))))))))))))))))))))))))))))))))))))))))))))))))))))
                  | XO p5 ->
                    (match p5 with
                     | XI p6 ->
                       (match p6 with
                        | XH ->
                          Npos (XI (XO (XO (XI (XI (XO (XI (XI (XI (XO (XO
                            (XO (XO (XI (XO (XO (XO (XO (XO (XI (XO (XO (XI
                            (XO (XO (XO (XI (XO (XI (XO (XO (XO (XI (XO (XI
                            (XI (XI (XI (XI (XI (XO (XO (XI (XI (XI (XO (XO
                            (XO (XI (XO (XI (XI (XI (XO (XI (XO (XO (XI (XI
                            (XI (XI
                            XH)))))))))))))))))))))))))))))))))))))))))))))))))))))))))))))
                        | _ -> N0)
                     | XO p6 ->
                       (match p6 with
                        | XH ->
                          Npos (XI (XO (XI (XI (XO (XI (XO (XO (XO (XI (XI
                            (XO (XO (XI (XI (XO (XI (XI (XO (XI (XI (XI (XO
                            (XI (XI (XO (XO (XO (XI (XI (XO (XO (XO (XO (XO
                            (XI (XI (XO (XO (XI (XI (XO (XI (XI (XO (XO (XI
                            (XI (XI (XO (XI (XO (XI (XO (XI
                            XH)))))))))))))))))))))))))))))))))))))))))))))))))))))))
                        | _ -> N0)
                     | XH ->
                       Npos (XO (XI (XI (XI (XO (XO (XI (XO (XO (XI (XO (XO
                         (XO (XI (XI (XI (XI (XI (XO (XO (XI (XI (XO (XO (XI
                         (XO (XI (XI (XO (XI (XO (XI (XI (XI (XI (XI (XI (XI
                         (XI (XI (XO (XO (XO (XO (XI (XI
                         XH)))))))))))))))))))))))))))))))))))))))))))))))
                  | XH ->
                    Npos (XO (XO (XO (XO (XI (XI (XO (XO (XI (XI (XI (XO (XI
                      (XO (XO (XO (XI (XO (XO (XI (XI (XI (XI (XO (XO (XO (XI
                      (XI (XO (XI (XI (XO (XO (XI (XI (XO (XI (XO (XO (XI (XI
                      (XO (XO (XI (XO (XO (XI (XI (XO (XI (XO (XI (XO (XI (XO
                      (XO (XI (XI (XI (XI (XI (XI
                      XH)))))))))))))))))))))))))))))))))))))))))))))))))))))))))))))))
               | XO p4 ->
                 (match p4 with
                  | XI p5 ->
                    (match p5 with
                     | XI p6 ->
                       (match p6 with
                        | XH ->
                          Npos (XO (XI (XO (XI (XO (XO (XO (XI (XI (XO (XI
                            (XO (XI (XI (XI (XI (XO (XI (XI (XO (XO (XO (XI
                            (XO (XI (XI (XO (XI (XO (XO (XI (XO (XO (XI (XI
                            (XO (XI (XI (XO (XO (XO (XI (XO (XI (XO (XI (XI
                            (XI (XI (XI (XO (XI (XO (XI (XO (XI (XI (XI (XI
                            (XI (XI (XO (XO
                            XH)))))))))))))))))))))))))))))))))))))))))))))))))))))))))))))))
                        | _ -> N0)
                     | XO p6 ->
                       (match p6 with
                        | XH ->
                          Npos (XO (XO (XI (XI (XI (XI (XO (XO (XI (XI (XI
                            (XO (XO (XI (XI (XO (XI (XI (XO (XI (XO (XO (XI
                            (XO (XI (XO (XI (XO (XI (XO (XO (XO (XO (XI (XO
                            (XO (XO (XI (XI (XI (XO (XI (XI (XO (XI (XI (XO
                            (XO (XO (XO (XO (XO (XI (XI (XI (XO (XO (XO (XO
                            (XO
                            XH))))))))))))))))))))))))))))))))))))))))))))))))))))))))))))
                        | _ -> N0)
                     | XH ->
                       Npos (XI (XI (XO (XI (XI (XI (XO (XI (XO (XO (XI (XI
                         (XO (XO (XO (XI (XI (XI (XO (XO (XO (XI (XO (XI (XO
                         (XO (XO (XI (XI (XI (XO (XI (XO (XO (XO (XI (XI (XO
                         (XI (XO (XI (XI (XI (XO (XO (XO (XI (XI (XO (XI (XO
                         (XO (XO (XI (XO (XI (XI (XI (XO (XI (XO (XI (XO
                         XH))))))))))))))))))))))))))))))))))))))))))))))))))))))))))))))))
                  | XO p5 ->
                    (match p5 with
                     | XI p6 ->
                       (match p6 with
                        | XH ->
                          Npos (XI (XO (XI (XI (XI (XO (XO (XI (XO (XO (XO
                            (XI (XO (XI (XI (XO (XI (XO (XO (XO (XI (XI (XO
                            (XO (XI (XO (XI (XO (XO (XO (XI (XO (XI (XI (XI
                            (XI (XO (XO (XO (XO (XI (XI (XI (XO (XI (XI (XI
                            (XO (XO (XI (XI (XI (XO (XI (XO (XO (XO (XI (XO
                            (XO (XO (XO (XI
                            XH)))))))))))))))))))))))))))))))))))))))))))))))))))))))))))))))
                        | _ -> N0)
                     | XO p6 ->
                       (match p6 with
                        | XH ->
                          Npos (XI (XI (XI (XO (XI (XO (XO (XO (XO (XI (XI
                            (XO (XO (XO (XI (XI (XO (XO (XO (XI (XI (XO (XI
                            (XO (XO (XI (XI (XO (XI (XI (XI (XI (XO (XI (XI
                            (XI (XI (XO (XI (XI (XO (XI (XI (XI (XO (XO (XI
                            (XI (XO (XI (XO (XO (XI (XO (XI (XO (XO (XO (XI
                            (XI (XO
                            XH)))))))))))))))))))))))))))))))))))))))))))))))))))))))))))))
                        | _ -> N0)
                     | XH ->
                       Npos (XI (XI (XO (XI (XO (XI (XI (XI (XO (XO (XI (XI
                         (XO (XI (XI (XI (XI (XO (XI (XI (XO (XO (XO (XI (XI
                         (XO (XO (XI (XO (XO (XI (XO (XO (XI (XI (XO (XO (XI
                         (XO (XI (XI (XI (XO (XO (XI (XO (XI (XI (XI (XI (XO
                         (XI (XI (XI (XI (XO (XO (XI (XI (XO (XO
                         XH))))))))))))))))))))))))))))))))))))))))))))))))))))))))))))))
                  | XH ->
                    Npos (XI (XO (XO (XI (XI (XO (XO (XI (XI (XO (XO (XO (XO
                      (XI (XI (XI (XO (XI (XO (XO (XI (XI (XO (XI (XI (XI (XI
                      (XO (XI (XO (XO (XI (XO (XO (XI (XI (XI (XO (XO (XI (XO
                      (XI (XI (XI (XI (XI (XI (XO (XI (XI (XI (XI (XO (XO (XI
                      (XO (XO (XO (XO (XI (XO (XO
                      XH)))))))))))))))))))))))))))))))))))))))))))))))))))))))))))))))
               | XH ->
                 Npos (XO (XO (XO (XO (XO (XI (XO (XO (XO (XO (XI (XO (XI (XI
                   (XI (XI (XI (XO (XO (XO (XI (XO (XO (XO (XO (XI (XO (XO
                   (XO (XI (XI (XO (XO (XI (XI (XI (XI (XO (XO (XI (XI (XI
                   (XI (XI (XO (XO (XI (XI (XO (XO (XI (XI (XO (XI (XO (XI
                   (XO (XO (XI (XO (XO (XI (XI
                   XH))))))))))))))))))))))))))))))))))))))))))))))))))))))))))))))))
            | XO p3 ->
              (match p3 with
               | XI p4 ->
                 (match p4 with
                  | XI p5 ->
                    (match p5 with
                     | XI p6 ->
                       (match p6 with
                        | XH ->
                          Npos (XO (XI (XI (XO (XI (XO (XO (XO (XO (XO (XO
                            (XI (XO (XO (XI (XI (XI (XI (XO (XI (XI (XI (XO
                            (XI (XI (XO (XO (XI (XI (XI (XO (XI (XI (XI (XO
                            (XO (XI (XO (XO (XO (XO (XI (XI (XI (XI (XO (XO
                            (XO (XO (XI (XO (XO (XI (XI (XO (XO (XO (XO (XI
                            (XO (XO (XO (XO
                            XH)))))))))))))))))))))))))))))))))))))))))))))))))))))))))))))))
                        | _ -> N0)
                     | XO p6 ->
                       (match p6 with
                        | XH ->
                          Npos (XO (XI (XI (XO (XI (XI (XO (XO (XO (XO (XO
                            (XI (XI (XO (XO (XO (XI (XI (XI (XO (XO (XO (XO
                            (XO (XO (XO (XI (XO (XI (XO (XI (XO (XI (XI (XO
                            (XO (XI (XO (XI (XI (XO (XO (XI (XO (XO (XI (XI
                            (XO (XI (XI (XO (XO (XI (XO (XO (XO (XO (XO (XI
                            (XO (XO (XO
                            XH))))))))))))))))))))))))))))))))))))))))))))))))))))))))))))))
                        | _ -> N0)
                     | XH ->
                       Npos (XI (XI (XO (XO (XO (XI (XI (XO (XO (XO (XO (XO
                         (XI (XO (XI (XO (XO (XI (XI (XO (XO (XI (XI (XI (XI
                         (XI (XI (XO (XO (XI (XI (XO (XI (XO (XI (XI (XI (XO
                         (XI (XI (XI (XO (XO (XO (XI (XO (XO (XO (XI (XI (XI
                         (XI (XO (XI (XI (XO (XI (XO (XO (XI (XO (XI
                         XH)))))))))))))))))))))))))))))))))))))))))))))))))))))))))))))))
                  | XO p5 ->
                    (match p5 with
                     | XI p6 ->
                       (match p6 with
                        | XH ->
                          Npos (XO (XO (XO (XO (XI (XO (XI (XI (XI (XI (XO
                            (XI (XI (XI (XO (XO (XO (XI (XI (XO (XI (XO (XO
                            (XI (XI (XI (XO (XI (XO (XO (XO (XO (XO (XO (XO
                            (XO (XO (XO (XI (XI (XO (XO (XO (XO (XI (XI (XI
                            (XO (XO (XI (XI (XO (XI (XO (XO (XI (XI (XI (XO
                            XH)))))))))))))))))))))))))))))))))))))))))))))))))))))))))))
                        | _ -> N0)
                     | XO p6 ->
                       (match p6 with
                        | XH ->
                          Npos (XI (XI (XO (XI (XO (XI (XI (XI (XI (XI (XO
                            (XO (XO (XO (XO (XI (XO (XO (XI (XI (XI (XI (XI
                            (XO (XO (XO (XI (XI (XO (XO (XI (XI (XI (XO (XO
                            (XI (XI (XO (XO (XO (XO (XI (XI (XI (XO (XO (XI
                            XH)))))))))))))))))))))))))))))))))))))))))))))))
                        | _ -> N0)
                     | XH ->
                       Npos (XO (XO (XO (XO (XI (XO (XO (XI (XO (XO (XO (XI
                         (XO (XO (XO (XO (XI (XO (XI (XO (XO (XO (XI (XO (XI
                         (XO (XI (XI (XO (XI (XO (XI (XO (XI (XI (XO (XI (XI
                         (XI (XI (XI (XO (XO (XO (XO (XI (XO (XO (XI (XO (XI
                         (XI (XO (XO (XO (XI (XO (XI (XO (XO (XO
                         XH))))))))))))))))))))))))))))))))))))))))))))))))))))))))))))))
                  | XH ->
                    Npos (XI (XI (XI (XO (XO (XI (XO (XO (XO (XO (XI (XO (XO
                      (XO (XI (XI (XI (XI (XO (XI (XI (XI (XI (XO (XO (XI (XI
                      (XO (XO (XI (XI (XI (XO (XO (XO (XI (XI (XI (XO (XI (XO
                      (XO (XI (XO (XI (XI (XI (XO (XO (XO (XI (XO (XO (XI (XO
                      (XI (XI (XI (XI (XO (XO (XO (XI
                      XH))))))))))))))))))))))))))))))))))))))))))))))))))))))))))))))))
               | XO p4 ->
                 (match p4 with
                  | XI p5 ->
                    (match p5 with
                     | XI p6 ->
                       (match p6 with
                        | XH ->
                          Npos (XO (XO (XI (XI (XO (XI (XO (XI (XI (XI (XO
                            (XI (XI (XI (XO (XO (XO (XO (XI (XI (XI (XI (XO
                            (XO (XO (XO (XI (XO (XO (XI (XI (XO (XI (XI (XI
                            (XI (XI (XO (XI (XI (XO (XO (XO (XO (XI (XI (XI
                            (XO (XI (XI (XO (XI (XO (XI (XO (XI (XI (XO (XO
                            (XI (XO (XO (XI
                            XH)))))))))))))))))))))))))))))))))))))))))))))))))))))))))))))))
                        | _ -> N0)
                     | XO p6 ->
                       (match p6 with
                        | XH ->
                          Npos (XI (XO (XI (XI (XI (XO (XI (XO (XO (XO (XI
                            (XI (XI (XI (XI (XO (XI (XI (XI (XO (XO (XI (XO
                            (XO (XO (XO (XI (XI (XO (XI (XO (XI (XO (XO (XO
                            (XO (XI (XI (XO (XO (XO (XI (XI (XI (XO (XI (XO
                            (XI (XO (XO (XO (XI (XI (XI (XI (XI (XI (XI (XI
                            (XO (XI (XI
                            XH))))))))))))))))))))))))))))))))))))))))))))))))))))))))))))))
                        | _ -> N0)
                     | XH ->
                       Npos (XO (XI (XI (XI (XI (XO (XI (XI (XO (XO (XO (XO
                         (XO (XI (XI (XI (XI (XO (XI (XO (XO (XI (XO (XO (XI
                         (XI (XI (XO (XI (XO (XO (XI (XI (XO (XI (XO (XO (XO
                         (XO (XI (XO (XO (XO (XO (XI (XO (XI (XO (XO (XO (XO
                         (XI (XO (XI (XI (XI (XI (XO (XO
                         XH))))))))))))))))))))))))))))))))))))))))))))))))))))))))))))
                  | XO p5 ->
                    (match p5 with
                     | XI p6 ->
                       (match p6 with
                        | XH ->
                          Npos (XO (XO (XI (XO (XO (XO (XO (XI (XO (XI (XO
                            (XI (XI (XI (XO (XI (XI (XI (XI (XO (XI (XI (XO
                            (XO (XO (XI (XI (XO (XI (XO (XI (XO (XO (XO (XI
                            (XO (XO (XI (XO (XI (XO (XI (XO (XO (XO (XI (XI
                            (XI (XI (XO (XO (XI (XI (XI (XO (XI (XI (XI (XI
                            (XI (XI (XI (XI
                            XH)))))))))))))))))))))))))))))))))))))))))))))))))))))))))))))))
                        | _ -> N0)
                     | XO p6 ->
                       (match p6 with
                        | XH ->
                          Npos (XO (XO (XI (XI (XI (XO (XO (XO (XI (XO (XO
                            (XI (XO (XO (XI (XI (XI (XI (XO (XO (XI (XI (XO
                            (XI (XI (XI (XO (XI (XO (XI (XO (XO (XI (XO (XI
                            (XI (XI (XO (XO (XO (XI (XI (XO (XI (XI (XO (XI
                            (XI (XI (XI (XO (XO (XO (XO (XO (XI (XO (XI (XO
                            (XO (XO (XO
                            XH))))))))))))))))))))))))))))))))))))))))))))))))))))))))))))))
                        | _ -> N0)
                     | XH ->
                       Npos (XI (XI (XI (XO (XI (XO (XI (XI (XI (XI (XO (XI
                         (XI (XO (XI (XI (XO (XO (XI (XI (XI (XO (XO (XO (XO
                         (XI (XO (XO (XI (XO (XI (XI (XO (XI (XO (XO (XI (XI
                         (XO (XI (XI (XI (XO (XI (XI (XI (XO (XO (XO (XI (XI
                         (XO (XO (XO (XO (XO (XO (XI (XI (XI (XI (XO (XO
                         XH))))))))))))))))))))))))))))))))))))))))))))))))))))))))))))))))
                  | XH ->
                    Npos (XO (XI (XI (XI (XO (XI (XO (XO (XI (XO (XO (XO (XO
                      (XI (XO (XI (XO (XI (XO (XO (XO (XI (XO (XO (XI (XI (XO
                      (XO (XO (XO (XI (XI (XO (XI (XO (XI (XO (XO (XO (XO (XI
                      (XI (XO (XO (XO (XO (XI (XI (XI (XI (XI (XI (XO (XI (XO
                      (XO (XO (XO (XI (XI (XO (XO (XI
                      XH))))))))))))))))))))))))))))))))))))))))))))))))))))))))))))))))
               | XH ->
                 Npos (XO (XI (XI (XO (XI (XI (XO (XO (XO (XO (XI (XO (XI (XI
                   (XI (XO (XI (XO (XI (XI (XO (XI (XO (XI (XO (XI (XI (XO
                   (XO (XO (XO (XI (XI (XI (XO (XI (XO (XI (XO (XI (XI (XI
                   (XI (XO (XO (XO (XO (XI (XI (XI (XI (XI (XI (XO (XO (XI
                   (XI (XO (XO (XO (XI (XI (XI
                   XH))))))))))))))))))))))))))))))))))))))))))))))))))))))))))))))))
            | XH ->
              Npos (XO (XI (XO (XO (XO (XI (XO (XO (XI (XI (XI (XO (XO (XO
                (XO (XO (XO (XI (XO (XI (XI (XI (XO (XO (XO (XO (XO (XI (XI
                (XI (XO (XI (XI (XO (XO (XO (XI (XI (XI (XI (XO (XO (XI (XO
                (XI (XI (XI (XI (XO (XI (XI (XI (XO (XI (XO (XO (XO (XI (XO
                (XI (XI (XO
                XH)))))))))))))))))))))))))))))))))))))))))))))))))))))))))))))))
         | XO p2 ->
           (match p2 with
            | XI p3 ->
              (match p3 with
               | XI p4 ->
                 (match p4 with
                  | XI p5 ->
                    (match p5 with
                     | XI p6 ->
                       (match p6 with
                        | XH ->
                          Npos (XI (XI (XO (XO (XO (XO (XI (XI (XO (XO (XO
                            (XO (XI (XO (XO (XO (XI (XI (XO (XI (XI (XO (XO
                            (XO (XO (XO (XO (XI (XI (XI (XO (XO (XI (XI (XO
                            (XO (XO (XI (XI (XO (XI (XI (XI (XI (XO (XO
                            XH))))))))))))))))))))))))))))))))))))))))))))))
                        | _ -> N0)
                     | XO p6 ->
                       (match p6 with
                        | XH ->
                          Npos (XI (XO (XO (XO (XO (XI (XO (XO (XO (XI (XO
                            (XO (XI (XO (XI (XO (XI (XI (XO (XI (XO (XO (XI
                            (XO (XO (XI (XO (XI (XI (XO (XI (XO (XI (XI (XI
                            (XO (XO (XO (XI (XI (XI (XI (XI (XI (XI (XO (XI
                            (XI (XO (XO (XO (XO (XI (XO (XO (XO (XI (XO (XO
                            (XI (XO
                            XH)))))))))))))))))))))))))))))))))))))))))))))))))))))))))))))
                        | _ -> N0)
                     | XH ->
                       Npos (XO (XO (XO (XI (XO (XI (XO (XO (XO (XO (XI (XI
                         (XO (XO (XO (XO (XO (XI (XO (XI (XI (XO (XI (XI (XO
                         (XI (XO (XI (XO (XO (XO (XO (XI (XO (XI (XO (XI (XI
                         (XO (XI (XI (XI (XO (XO (XI (XO (XI (XO (XO (XO (XI
                         (XO (XI (XO (XO (XI (XO (XI (XI (XI (XO (XI (XI
                         XH))))))))))))))))))))))))))))))))))))))))))))))))))))))))))))))))
                  | XO p5 ->
                    (match p5 with
                     | XI p6 ->
                       (match p6 with
                        | XH ->
                          Npos (XI (XI (XI (XI (XO (XO (XI (XI (XO (XO (XO
                            (XI (XI (XO (XO (XI (XO (XI (XO (XI (XI (XI (XI
                            (XO (XO (XI (XO (XI (XI (XO (XI (XI (XO (XO (XO
                            (XI (XO (XO (XI (XO (XI (XI (XI (XO (XI (XO (XO
                            (XI (XO (XI (XO (XI (XI (XO (XI (XI (XI (XI (XO
                            (XI (XI (XI (XO
                            XH)))))))))))))))))))))))))))))))))))))))))))))))))))))))))))))))
                        | _ -> N0)
                     | XO p6 ->
                       (match p6 with
                        | XH ->
                          Npos (XI (XO (XI (XO (XI (XO (XI (XI (XI (XO (XO
                            (XI (XI (XO (XI (XI (XO (XO (XI (XI (XI (XO (XO
                            (XI (XI (XI (XO (XO (XI (XI (XO (XO (XO (XI (XO
                            (XO (XI (XO (XO (XO (XI (XO (XO (XO (XO (XO (XI
                            (XI (XI (XO (XI (XI (XI (XI (XI (XO (XI (XI (XI
                            (XO (XI (XO (XI
                            XH)))))))))))))))))))))))))))))))))))))))))))))))))))))))))))))))
                        | _ -> N0)
                     | XH ->
                       Npos (XI (XI (XO (XI (XO (XI (XI (XI (XI (XO (XI (XI
                         (XO (XO (XO (XO (XO (XO (XI (XI (XI (XI (XO (XO (XI
                         (XI (XO (XI (XO (XI (XO (XO (XI (XI (XO (XO (XI (XO
                         (XO (XI (XO (XI (XO (XI (XO (XO (XI (XI (XO (XO (XO
                         (XO (XI (XO (XO (XO (XO (XO (XI
                         XH))))))))))))))))))))))))))))))))))))))))))))))))))))))))))))
                  | XH ->
                    Npos (XO (XI (XO (XI (XO (XO (XI (XO (XI (XO (XI (XI (XO
                      (XI (XO (XI (XI (XI (XI (XO (XO (XI (XO (XI (XO (XI (XI
                      (XI (XO (XI (XI (XO (XO (XO (XO (XI (XI (XI (XO (XO (XO
                      (XO (XI (XI (XI (XI (XO (XI (XO (XO (XI (XI (XO (XO (XI
                      XH))))))))))))))))))))))))))))))))))))))))))))))))))))))))
               | XO p4 ->
                 (match p4 with
                  | XI p5 ->
                    (match p5 with
                     | XI p6 ->
                       (match p6 with
                        | XH ->
                          Npos (XO (XO (XI (XO (XI (XI (XO (XI (XO (XO (XO
                            (XO (XO (XO (XO (XO (XI (XO (XO (XI (XO (XI (XO
                            (XI (XI (XI (XI (XI (XO (XO (XI (XO (XI (XO (XI
                            (XO (XI (XO (XO (XI (XI (XO (XI (XI (XO (XO (XO
                            (XO (XO (XO (XI (XO (XI (XI (XI (XO (XO (XI
                            XH))))))))))))))))))))))))))))))))))))))))))))))))))))))))))
                        | _ -> N0)
                     | XO p6 ->
                       (match p6 with
                        | XH ->
                          Npos (XO (XO (XI (XO (XO (XO (XO (XO (XI (XO (XO
                            (XO (XI (XO (XO (XO (XO (XI (XI (XI (XI (XO (XI
                            (XI (XO (XO (XO (XO (XO (XI (XI (XO (XO (XI (XO
                            (XI (XI (XI (XI (XI (XO (XI (XO (XI (XO (XO (XO
                            (XO (XO (XO (XI (XO (XO (XO (XI (XI (XI (XI (XO
                            (XO (XI (XI (XI
                            XH)))))))))))))))))))))))))))))))))))))))))))))))))))))))))))))))
                        | _ -> N0)
                     | XH ->
                       Npos (XO (XI (XI (XO (XI (XO (XO (XO (XO (XO (XI (XO
                         (XO (XI (XO (XO (XO (XI (XO (XO (XO (XI (XI (XI (XO
                         (XO (XI (XO (XI (XI (XI (XO (XI (XO (XO (XO (XI (XI
                         (XI (XO (XI (XO (XO (XI (XI (XI (XI (XO (XI (XO (XO
                         (XO (XO (XI (XI (XI (XO (XI (XI (XI (XI (XI (XO
                         XH))))))))))))))))))))))))))))))))))))))))))))))))))))))))))))))))
                  | XO p5 ->
                    (match p5 with
                     | XI p6 ->
                       (match p6 with
                        | XH ->
                          Npos (XO (XO (XO (XI (XO (XI (XI (XI (XI (XO (XI
                            (XO (XI (XI (XO (XI (XO (XO (XO (XI (XO (XO (XI
                            (XO (XO (XO (XO (XI (XO (XI (XI (XI (XI (XO (XO
                            (XO (XO (XO (XI (XO (XO (XO (XO (XI (XI (XO (XO
                            (XI (XI (XI (XO (XO (XO (XI (XI (XI (XI (XI (XO
                            (XI (XO (XO (XO
                            XH)))))))))))))))))))))))))))))))))))))))))))))))))))))))))))))))
                        | _ -> N0)
                     | XO p6 ->
                       (match p6 with
                        | XH ->
                          Npos (XO (XO (XI (XO (XO (XO (XO (XO (XI (XO (XI
                            (XI (XI (XO (XO (XI (XI (XO (XO (XI (XO (XI (XO
                            (XO (XI (XO (XI (XO (XI (XO (XI (XI (XO (XO (XI
                            (XO (XO (XO (XI (XI (XO (XO (XO (XO (XO (XI (XI
                            (XO (XI (XO (XO (XO (XO (XI (XO (XI (XO (XI (XI
                            (XI (XI (XO (XI
                            XH)))))))))))))))))))))))))))))))))))))))))))))))))))))))))))))))
                        | _ -> N0)
                     | XH ->
                       Npos (XI (XO (XI (XO (XI (XI (XI (XI (XI (XO (XI (XO
                         (XI (XI (XI (XI (XO (XO (XO (XO (XO (XO (XI (XI (XO
                         (XI (XI (XO (XO (XO (XI (XI (XI (XI (XO (XI (XI (XO
                         (XO (XO (XO (XI (XI (XI (XO (XO (XO (XO (XI (XO (XO
                         (XO (XI (XO (XI (XO (XI (XI (XI (XO (XO (XO (XI
                         XH))))))))))))))))))))))))))))))))))))))))))))))))))))))))))))))))
                  | XH ->
                    Npos (XI (XO (XO (XI (XO (XI (XI (XO (XI (XO (XI (XI (XI
                      (XI (XI (XO (XO (XO (XO (XO (XI (XI (XI (XO (XI (XO (XI
                      (XI (XI (XO (XO (XO (XO (XI (XO (XO (XI (XI (XI (XO (XO
                      (XO (XO (XI (XI (XO (XO (XO (XI (XO (XI (XO (XI (XI (XO
                      (XI (XI (XI (XI (XO (XI (XI (XI
                      XH))))))))))))))))))))))))))))))))))))))))))))))))))))))))))))))))
               | XH ->
                 Npos (XO (XO (XI (XI (XO (XO (XI (XI (XO (XI (XO (XI (XO (XI
                   (XI (XI (XO (XO (XI (XI (XI (XO (XO (XI (XO (XI (XO (XI
                   (XI (XO (XO (XO (XO (XO (XO (XO (XO (XO (XO (XI (XI (XI
                   (XI (XO (XI (XI (XO (XO (XO (XI (XO (XI (XI (XI (XO (XI
                   (XI (XI (XI (XI
                   XH)))))))))))))))))))))))))))))))))))))))))))))))))))))))))))))
            | XO p3 ->
              (match p3 with
               | XI p4 ->
                 (match p4 with
                  | XI p5 ->
                    (match p5 with
                     | XI p6 ->
                       (match p6 with
                        | XH ->
                          Npos (XI (XI (XO (XI (XI (XI (XI (XI (XO (XI (XO
                            (XI (XI (XO (XI (XO (XI (XI (XO (XO (XI (XI (XO
                            (XO (XI (XI (XO (XO (XI (XO (XO (XO (XI (XO (XO
                            (XI (XO (XO (XO (XO (XI (XI (XO (XO (XI (XI (XO
                            (XI (XO (XI (XO (XI (XO (XO (XI (XI (XI (XO (XO
                            (XI (XI (XI (XI
                            XH)))))))))))))))))))))))))))))))))))))))))))))))))))))))))))))))
                        | _ -> N0)
                     | XO p6 ->
                       (match p6 with
                        | XH ->
                          Npos (XO (XO (XI (XI (XI (XO (XO (XO (XI (XO (XO
                            (XO (XI (XO (XO (XI (XI (XI (XI (XO (XO (XO (XI
                            (XO (XI (XI (XO (XI (XI (XI (XI (XI (XI (XO (XI
                            (XO (XI (XO (XI (XO (XI (XO (XO (XI (XI (XI (XI
                            (XO (XO (XO (XI (XI (XI (XI (XI (XI (XI (XO (XO
                            (XO (XO (XI (XO
                            XH)))))))))))))))))))))))))))))))))))))))))))))))))))))))))))))))
                        | _ -> N0)
                     | XH ->
                       Npos (XI (XI (XO (XO (XO (XI (XO (XI (XI (XO (XO (XO
                         (XO (XO (XI (XI (XI (XO (XO (XO (XO (XO (XO (XO (XO
                         (XO (XO (XO (XO (XO (XI (XO (XI (XO (XI (XI (XI (XI
                         (XI (XO (XI (XI (XO (XI (XI (XI (XO (XO (XI (XO (XI
                         (XI (XI (XI (XI (XI (XO (XI (XO (XO (XO (XO (XI
                         XH))))))))))))))))))))))))))))))))))))))))))))))))))))))))))))))))
                  | XO p5 ->
                    (match p5 with
                     | XI p6 ->
                       (match p6 with
                        | XH ->
                          Npos (XO (XI (XI (XI (XO (XI (XO (XI (XO (XO (XO
                            (XI (XI (XI (XO (XI (XO (XO (XI (XI (XI (XI (XI
                            (XI (XO (XI (XO (XO (XI (XO (XO (XI (XI (XI (XO
                            (XO (XO (XI (XI (XI (XI (XO (XO (XO (XO (XO (XI
                            (XO (XO (XO (XI (XO (XI (XO (XO (XO (XO (XI (XI
                            (XO (XO (XO (XI
                            XH)))))))))))))))))))))))))))))))))))))))))))))))))))))))))))))))
                        | _ -> N0)
                     | XO p6 ->
                       (match p6 with
                        | XH ->
                          Npos (XO (XO (XI (XO (XO (XO (XO (XI (XI (XO (XI
                            (XO (XI (XI (XI (XI (XI (XO (XO (XO (XO (XO (XO
                            (XO (XI (XI (XO (XI (XO (XI (XO (XO (XO (XI (XO
                            (XO (XO (XI (XO (XI (XO (XI (XO (XO (XI (XI (XI
                            (XO (XO (XO (XO (XI (XI (XO (XO (XO (XO (XI (XO
                            (XI (XO (XO (XO
                            XH)))))))))))))))))))))))))))))))))))))))))))))))))))))))))))))))
                        | _ -> N0)
                     | XH ->
                       Npos (XO (XI (XO (XI (XO (XO (XI (XO (XI (XI (XI (XI
                         (XO (XO (XO (XI (XI (XI (XI (XI (XO (XO (XO (XO (XO
                         (XO (XO (XI (XO (XO (XI (XI (XO (XI (XO (XI (XO (XO
                         (XI (XI (XO (XO (XO (XI (XI (XI (XI (XI (XO (XO (XO
                         (XI (XI (XO (XI (XO (XO (XI (XO (XI (XO (XI (XI
                         XH))))))))))))))))))))))))))))))))))))))))))))))))))))))))))))))))
                  | XH ->
                    Npos (XO (XI (XO (XI (XI (XO (XI (XO (XI (XO (XI (XO (XI
                      (XO (XO (XI (XI (XI (XI (XO (XO (XO (XO (XI (XI (XO (XI
                      (XI (XO (XO (XO (XO (XO (XO (XI (XO (XI (XO (XO (XI (XO
                      (XO (XO (XO (XI (XI
                      XH)))))))))))))))))))))))))))))))))))))))))))))))
               | XO p4 ->
                 (match p4 with
                  | XI p5 ->
                    (match p5 with
                     | XI p6 ->
                       (match p6 with
                        | XH ->
                          Npos (XO (XI (XI (XI (XO (XO (XO (XI (XI (XO (XO
                            (XO (XI (XI (XO (XI (XI (XO (XO (XO (XO (XO (XO
                            (XO (XO (XO (XI (XO (XO (XO (XO (XI (XI (XI (XI
                            (XO (XI (XO (XO (XO (XO (XO (XO (XO (XI (XO (XO
                            (XI (XI (XI (XI (XI (XI (XI (XO (XO (XO (XI (XO
                            (XI (XI (XO (XI
                            XH)))))))))))))))))))))))))))))))))))))))))))))))))))))))))))))))
                        | _ -> N0)
                     | XO p6 ->
                       (match p6 with
                        | XH ->
                          Npos (XO (XI (XO (XO (XI (XI (XI (XI (XI (XO (XI
                            (XI (XI (XO (XI (XI (XO (XO (XI (XI (XO (XI (XO
                            (XO (XO (XI (XO (XO (XO (XO (XO (XO (XI (XO (XI
                            (XO (XI (XI (XO (XI (XO (XI (XI (XO (XO (XO (XI
                            (XI (XO (XI (XO (XO (XO (XO (XO (XI (XI (XI (XI
                            (XI (XI (XI (XO
                            XH)))))))))))))))))))))))))))))))))))))))))))))))))))))))))))))))
                        | _ -> N0)
                     | XH ->
                       Npos (XI (XO (XO (XI (XI (XO (XO (XO (XO (XI (XI (XI
                         (XI (XI (XO (XO (XO (XO (XO (XI (XO (XO (XI (XO (XO
                         (XI (XO (XO (XO (XO (XI (XO (XO (XO (XO (XO (XO (XI
                         (XO (XI (XO (XI (XO (XO (XI (XI (XI (XO (XI (XO (XO
                         (XI (XI (XO (XO (XI (XI (XI (XO (XI (XI (XI (XO
                         XH))))))))))))))))))))))))))))))))))))))))))))))))))))))))))))))))
                  | XO p5 ->
                    (match p5 with
                     | XI p6 ->
                       (match p6 with
                        | XH ->
                          Npos (XO (XO (XO (XI (XO (XO (XI (XI (XO (XO (XI
                            (XI (XI (XI (XO (XI (XO (XO (XI (XI (XI (XI (XO
                            (XI (XO (XO (XO (XI (XO (XO (XI (XI (XI (XO (XO
                            (XI (XI (XO (XI (XI (XI (XI (XI (XI (XI (XI
                            XH))))))))))))))))))))))))))))))))))))))))))))))
                        | _ -> N0)
                     | XO p6 ->
                       (match p6 with
                        | XH ->
                          Npos (XO (XI (XI (XO (XO (XI (XO (XO (XI (XO (XI
                            (XI (XO (XI (XI (XO (XO (XO (XO (XO (XI (XI (XI
                            (XO (XI (XI (XO (XI (XI (XI (XI (XI (XI (XI (XO
                            (XI (XO (XI (XI (XI (XI (XO (XI (XO (XI (XI (XI
                            (XI (XI (XO (XI (XO (XI (XO (XO (XO (XI (XI (XO
                            (XO (XO (XI (XO
                            XH)))))))))))))))))))))))))))))))))))))))))))))))))))))))))))))))
                        | _ -> N0)
                     | XH ->
                       Npos (XI (XI (XI (XO (XO (XO (XO (XO (XI (XI (XO (XI
                         (XI (XO (XI (XO (XO (XI (XO (XI (XO (XO (XI (XO (XI
                         (XI (XI (XI (XO (XO (XI (XO (XI (XI (XI (XO (XI (XI
                         (XO (XO (XI (XO (XO (XI (XI (XO (XO (XI (XO (XI (XO
                         (XI (XI (XO (XI (XO (XI (XO (XI (XO (XI (XI
                         XH)))))))))))))))))))))))))))))))))))))))))))))))))))))))))))))))
                  | XH ->
                    Npos (XI (XI (XI (XI (XO (XI (XO (XO (XI (XO (XO (XI (XI
                      (XI (XO (XO (XI (XI (XI (XO (XO (XO (XO (XI (XO (XI (XO
                      (XI (XI (XO (XI (XO (XO (XO (XI (XI (XI (XO (XO (XO (XI
                      (XO (XO (XO (XI (XI (XO (XO (XI (XO (XO (XI (XO (XI (XO
                      (XI (XO (XI (XO (XI (XO (XI (XI
                      XH))))))))))))))))))))))))))))))))))))))))))))))))))))))))))))))))
               | XH ->
                 Npos (XO (XI (XI (XO (XI (XI (XI (XO (XO (XO (XO (XO (XI (XI
                   (XO (XO (XI (XO (XI (XI (XI (XI (XI (XI (XI (XO (XI (XO
                   (XI (XO (XI (XO (XI (XO (XI (XO (XI (XI (XO (XI (XI (XI
                   (XI (XI (XO (XI (XO (XO (XI (XO (XI (XI (XI (XO (XO (XI
                   (XO (XO (XO (XI (XO (XI
                   XH)))))))))))))))))))))))))))))))))))))))))))))))))))))))))))))))
            | XH ->
              Npos (XO (XI (XO (XO (XI (XO (XO (XO (XI (XO (XO (XI (XI (XI
                (XO (XI (XI (XI (XO (XO (XO (XI (XO (XI (XO (XO (XI (XI (XI
                (XO (XO (XO (XO (XI (XI (XI (XI (XI (XO (XO (XO (XO (XO (XI
                (XO (XI (XO (XI (XO (XI (XI (XO (XO (XO (XO (XO (XI (XI (XO
                (XI (XI
                XH))))))))))))))))))))))))))))))))))))))))))))))))))))))))))))))
         | XH ->
           Npos (XI (XI (XI (XO (XI (XI (XO (XI (XI (XO (XO (XO (XI (XI (XO
             (XO (XO (XI (XO (XI (XI (XI (XI (XO (XI (XI (XO (XI (XO (XO (XO
             (XI (XO (XI (XI (XI (XI (XI (XO (XO (XI (XI (XI (XO (XI (XO (XI
             (XO (XI (XI (XI (XI (XO (XO (XO (XI (XO (XI (XI (XO (XI
             XH))))))))))))))))))))))))))))))))))))))))))))))))))))))))))))))
      | XH ->
        Npos (XI (XI (XO (XI (XO (XI (XO (XI (XO (XI (XO (XO (XI (XI (XI (XO
          (XI (XO (XO (XI (XO (XO (XO (XI (XI (XO (XO (XI (XO (XO (XO (XI (XI
          (XO (XO (XI (XO (XI (XI (XO (XI (XO (XO (XI (XO (XO (XO (XI (XO (XI
          (XO (XO (XI (XI (XO (XI (XI (XO (XI (XO (XO (XO
          XH)))))))))))))))))))))))))))))))))))))))))))))))))))))))))))))))
   | XH ->
     Npos (XO (XI (XI (XO (XI (XO (XI (XI (XO (XO (XO (XO (XO (XI (XO (XO (XI
       (XO (XI (XI (XO (XI (XI (XI (XI (XO (XO (XI (XI (XI (XO (XO (XI (XI
       (XI (XO (XI (XI (XI (XI (XI (XI (XI (XO (XO (XO (XI (XI (XO (XI (XO
       (XO (XI (XO (XI (XO (XO (XI (XI (XO (XI (XO
       XH)))))))))))))))))))))))))))))))))))))))))))))))))))))))))))))))

(** val mINIMUM_CHUNK_DIVISOR : n **)

let mINIMUM_CHUNK_DIVISOR =
  Npos (XO (XO (XO XH)))

(** val mAXIMUM_CHUNK_MULTIPLIER : n **)

let mAXIMUM_CHUNK_MULTIPLIER =
  Npos (XO XH)

(** val hASH_WINDOW_SIZE : n **)

let hASH_WINDOW_SIZE =
  Npos (XO (XO (XO (XO (XO (XO XH))))))

(** val chunker_minimum : n -> n **)

let chunker_minimum target =
  N.div target mINIMUM_CHUNK_DIVISOR

(** val chunker_maximum : n -> n **)

let chunker_maximum target =
  N.mul target mAXIMUM_CHUNK_MULTIPLIER

(** val chunker_mask : n -> n **)

let chunker_mask target =
  N.shiftl (N.sub target (Npos XH))
    (N.sub (Npos (XO (XO (XO (XO (XO (XO XH)))))))
      (N.size (N.sub target (Npos XH))))

(** val chunker_new_asserts : n -> n -> n -> bool **)

let chunker_new_asserts target minimum_chunk maximum_chunk =
  (&&)
    ((&&) (N.ltb (Npos (XO (XO (XO (XO (XO (XO XH))))))) target)
      (N.ltb target (Npos (XI (XI (XI (XI (XI (XI (XI (XI (XI (XI (XI (XI (XI
        (XI (XI (XI (XI (XI (XI (XI (XI (XI (XI (XI (XI (XI (XI (XI (XI (XI
        (XI XH))))))))))))))))))))))))))))))))))
    (N.ltb minimum_chunk maximum_chunk)

(** val next_skip_cond : n -> n -> bool **)

let next_skip_cond cur_chunk_len minimum_chunk =
  N.ltb (N.add cur_chunk_len hASH_WINDOW_SIZE) minimum_chunk

(** val next_skip_amount : n -> n -> n **)

let next_skip_amount cur_chunk_len minimum_chunk =
  N.sub (N.sub (N.sub minimum_chunk cur_chunk_len) hASH_WINDOW_SIZE) (Npos XH)

(** val next_skip_avail : n -> n -> n **)

let next_skip_avail =
  N.sub

(** val next_read_end : n -> n -> n -> n -> n **)

let next_read_end n_bytes consume_len maximum_chunk cur_chunk_len =
  N.min n_bytes (N.sub (N.add consume_len maximum_chunk) cur_chunk_len)

(** val next_force_cond : n -> n -> n -> bool **)

let next_force_cond bytes_to_next_boundary cur_chunk_len maximum_chunk =
  N.leb maximum_chunk (N.add bytes_to_next_boundary cur_chunk_len)

(** val next_force_amount : n -> n -> n **)

let next_force_amount =
  N.sub

(** val u64_mask : n **)

let u64_mask =
  Npos (XI (XI (XI (XI (XI (XI (XI (XI (XI (XI (XI (XI (XI (XI (XI (XI (XI
    (XI (XI (XI (XI (XI (XI (XI (XI (XI (XI (XI (XI (XI (XI (XI (XI (XI (XI
    (XI (XI (XI (XI (XI (XI (XI (XI (XI (XI (XI (XI (XI (XI (XI (XI (XI (XI
    (XI (XI (XI (XI (XI (XI (XI (XI (XI (XI
    XH)))))))))))))))))))))))))))))))))))))))))))))))))))))))))))))))

(** val u64 : n -> n **)

let u64 x =
  N.coq_land x u64_mask

(** val gear_step : n -> n -> n **)

let gear_step h b =
  u64 (N.add (N.shiftl h (Npos XH)) (gear b))

type cfg = { c_min : n; c_max : n; c_mask : n }

(** val is_pow2 : n -> bool **)

let is_pow2 t =
  (&&) (negb (N.eqb t N0)) (N.eqb t (N.shiftl (Npos XH) (N.log2 t)))

(** val chunker_new : n -> cfg option **)

let chunker_new target =
  let mn = chunker_minimum target in
  let mx = chunker_maximum target in
  if (&&) (is_pow2 target) (chunker_new_asserts target mn mx)
  then Some { c_min = mn; c_max = mx; c_mask = (chunker_mask target) }
  else None

type st = { s_hash : n; s_cur : n; s_buf : n list }

(** val st0 : st **)

let st0 =
  { s_hash = N0; s_cur = N0; s_buf = [] }

(** val next_match : n -> n -> n list -> n option * n **)

let rec next_match mask0 h = function
| [] -> (None, h)
| b :: r ->
  let h' = gear_step h b in
  if N.eqb (N.coq_land h' mask0) N0
  then ((Some (Npos XH)), h')
  else let (o, hf) = next_match mask0 h' r in
       (match o with
        | Some i -> ((Some (N.add i (Npos XH))), hf)
        | None -> (None, hf))

(** val slice : n list -> n -> n -> n list **)

let slice l a b =
  firstn (N.to_nat (N.sub b a)) (skipn (N.to_nat a) l)

(** val next : cfg -> st -> n list -> bool -> (n list option * n) * st **)

let next c s data is_final =
  let n_bytes = N.of_nat (length data) in
  let (p, s1) =
    if negb (N.eqb n_bytes N0)
    then let (consume_len, cur) =
           if next_skip_cond s.s_cur c.c_min
           then let max_advance =
                  N.min (next_skip_amount s.s_cur c.c_min)
                    (next_skip_avail n_bytes N0)
                in
                (max_advance, (N.add s.s_cur max_advance))
           else (N0, s.s_cur)
         in
         let read_end = next_read_end n_bytes consume_len c.c_max cur in
         let (m, h') =
           next_match c.c_mask s.s_hash (slice data consume_len read_end)
         in
         (match m with
          | Some b ->
            let create = true in
            if next_force_cond b cur c.c_max
            then let btnb = next_force_amount c.c_max cur in
                 let create0 = true in
                 let cur0 = N.add cur btnb in
                 let consume_len0 = N.add consume_len btnb in
                 ((create0, consume_len0), { s_hash = h'; s_cur = cur0;
                 s_buf =
                 (rev_append (firstn (N.to_nat consume_len0) data) s.s_buf) })
            else let cur0 = N.add cur b in
                 let consume_len0 = N.add consume_len b in
                 ((create, consume_len0), { s_hash = h'; s_cur = cur0;
                 s_buf =
                 (rev_append (firstn (N.to_nat consume_len0) data) s.s_buf) })
          | None ->
            let btnb = N.sub read_end consume_len in
            let create = false in
            if next_force_cond btnb cur c.c_max
            then let btnb0 = next_force_amount c.c_max cur in
                 let create0 = true in
                 let cur0 = N.add cur btnb0 in
                 let consume_len0 = N.add consume_len btnb0 in
                 ((create0, consume_len0), { s_hash = h'; s_cur = cur0;
                 s_buf =
                 (rev_append (firstn (N.to_nat consume_len0) data) s.s_buf) })
            else let cur0 = N.add cur btnb in
                 let consume_len0 = N.add consume_len btnb in
                 ((create, consume_len0), { s_hash = h'; s_cur = cur0;
                 s_buf =
                 (rev_append (firstn (N.to_nat consume_len0) data) s.s_buf) }))
    else ((false, N0), s)
  in
  let (create_chunk, consume_len) = p in
  if (||) create_chunk
       ((&&) is_final
         (negb (match s1.s_buf with
                | [] -> true
                | _ :: _ -> false)))
  then (((Some (rev0 s1.s_buf)), consume_len), st0)
  else ((None, consume_len), s1)

(** val next_block_loop :
    nat -> cfg -> st -> n list -> bool -> n list list -> (n list list * st)
    option **)

let rec next_block_loop fuel c s data is_final acc =
  match data with
  | [] -> Some ((rev0 acc), s)
  | _ :: _ ->
    (match fuel with
     | O -> None
     | S fuel' ->
       let (p, s') = next c s data is_final in
       let (mc, consumed) = p in
       let acc' = match mc with
                  | Some ch -> ch :: acc
                  | None -> acc in
       next_block_loop fuel' c s' (skipn (N.to_nat consumed) data) is_final
         acc')

(** val next_block :
    cfg -> st -> n list -> bool -> (n list list * st) option **)

let next_block c s data is_final =
  next_block_loop (S (length data)) c s data is_final []

(** val finish : cfg -> st -> n list option **)

let finish c s =
  fst (fst (next c s [] true))

(** val run_calls :
    cfg -> st -> (n list * bool) list -> n list list option **)

let rec run_calls c s = function
| [] -> Some (match finish c s with
              | Some ch -> ch :: []
              | None -> [])
| p :: rest ->
  let (d, fin) = p in
  (match next_block c s d fin with
   | Some p0 ->
     let (chs, s') = p0 in
     (match run_calls c s' rest with
      | Some more -> Some (app chs more)
      | None -> None)
   | None -> None)

(** val scan : cfg -> n -> n -> n list -> n option **)

let rec scan c h pos = function
| [] -> None
| b :: r ->
  let h' = gear_step h b in
  let pos' = N.add pos (Npos XH) in
  if (||) (N.eqb (N.coq_land h' c.c_mask) N0) (N.leb c.c_max pos')
  then Some pos'
  else scan c h' pos' r

(** val first_cut : cfg -> n list -> n option **)

let first_cut c data =
  let k = N.sub (N.sub c.c_min hASH_WINDOW_SIZE) (Npos XH) in
  if N.ltb (N.of_nat (length data)) k
  then None
  else scan c N0 k (skipn (N.to_nat k) data)

(** val cut_all : nat -> cfg -> n list -> n list list **)

let rec cut_all fuel c data = match data with
| [] -> []
| _ :: _ ->
  (match fuel with
   | O -> data :: []
   | S f ->
     (match first_cut c data with
      | Some p ->
        (firstn (N.to_nat p) data) :: (cut_all f c (skipn (N.to_nat p) data))
      | None -> data :: []))

(** val spec_chunks : cfg -> n list -> n list list **)

let spec_chunks c data =
  cut_all (length data) c data

(** val m32 : n **)

let m32 =
  Npos (XI (XI (XI (XI (XI (XI (XI (XI (XI (XI (XI (XI (XI (XI (XI (XI (XI
    (XI (XI (XI (XI (XI (XI (XI (XI (XI (XI (XI (XI (XI (XI
    XH)))))))))))))))))))))))))))))))

(** val add32 : n -> n -> n **)

let add32 x y =
  N.coq_land (N.add x y) m32

(** val rotr32 : n -> n -> n **)

let rotr32 x n0 =
  N.coq_lor (N.shiftr x n0)
    (N.coq_land (N.shiftl x (N.sub (Npos (XO (XO (XO (XO (XO XH)))))) n0))
      m32)

(** val iV : n list **)

let iV =
  (Npos (XI (XI (XI (XO (XO (XI (XI (XO (XO (XI (XI (XO (XO (XI (XI (XI (XI
    (XO (XO (XI (XO (XO (XO (XO (XO (XI (XO (XI (XO (XI
    XH))))))))))))))))))))))))))))))) :: ((Npos (XI (XO (XI (XO (XO (XO (XO
    (XI (XO (XI (XI (XI (XO (XI (XO (XI (XI (XI (XI (XO (XO (XI (XI (XO (XI
    (XI (XO (XI (XI (XI (XO XH)))))))))))))))))))))))))))))))) :: ((Npos (XO
    (XI (XO (XO (XI (XI (XI (XO (XI (XI (XO (XO (XI (XI (XI (XI (XO (XI (XI
    (XI (XO (XI (XI (XO (XO (XO (XI (XI (XI
    XH)))))))))))))))))))))))))))))) :: ((Npos (XO (XI (XO (XI (XI (XI (XO
    (XO (XI (XO (XI (XO (XI (XI (XI (XI (XI (XI (XI (XI (XO (XO (XI (XO (XI
    (XO (XI (XO (XO (XI (XO XH)))))))))))))))))))))))))))))))) :: ((Npos (XI
    (XI (XI (XI (XI (XI (XI (XO (XO (XI (XO (XO (XI (XO (XI (XO (XO (XI (XI
    (XI (XO (XO (XO (XO (XI (XO (XO (XO (XI (XO
    XH))))))))))))))))))))))))))))))) :: ((Npos (XO (XO (XI (XI (XO (XO (XO
    (XI (XO (XO (XO (XI (XO (XI (XI (XO (XI (XO (XI (XO (XO (XO (XO (XO (XI
    (XI (XO (XI (XI (XO (XO XH)))))))))))))))))))))))))))))))) :: ((Npos (XI
    (XI (XO (XI (XO (XI (XO (XI (XI (XO (XO (XI (XI (XO (XI (XI (XI (XI (XO
    (XO (XO (XO (XO (XI (XI (XI (XI (XI
    XH))))))))))))))))))))))))))))) :: ((Npos (XI (XO (XO (XI (XI (XO (XO (XO
    (XI (XO (XI (XI (XO (XO (XI (XI (XO (XO (XO (XO (XO (XI (XI (XI (XI (XI
    (XO (XI (XI (XO XH))))))))))))))))))))))))))))))) :: [])))))))

(** val mSG_PERMUTATION : nat list **)

let mSG_PERMUTATION =
  (S (S O)) :: ((S (S (S (S (S (S O)))))) :: ((S (S (S O))) :: ((S (S (S (S
    (S (S (S (S (S (S O)))))))))) :: ((S (S (S (S (S (S (S
    O))))))) :: (O :: ((S (S (S (S O)))) :: ((S (S (S (S (S (S (S (S (S (S (S
    (S (S O))))))))))))) :: ((S O) :: ((S (S (S (S (S (S (S (S (S (S (S
    O))))))))))) :: ((S (S (S (S (S (S (S (S (S (S (S (S O)))))))))))) :: ((S
    (S (S (S (S O))))) :: ((S (S (S (S (S (S (S (S (S O))))))))) :: ((S (S (S
    (S (S (S (S (S (S (S (S (S (S (S O)))))))))))))) :: ((S (S (S (S (S (S (S
    (S (S (S (S (S (S (S (S O))))))))))))))) :: ((S (S (S (S (S (S (S (S
    O)))))))) :: [])))))))))))))))

(** val cHUNK_START : n **)

let cHUNK_START =
  Npos XH

(** val cHUNK_END : n **)

let cHUNK_END =
  Npos (XO XH)

(** val pARENT : n **)

let pARENT =
  Npos (XO (XO XH))

(** val rOOT : n **)

let rOOT =
  Npos (XO (XO (XO XH)))

(** val kEYED_HASH : n **)

let kEYED_HASH =
  Npos (XO (XO (XO (XO XH))))

(** val get : n list -> nat -> n **)

let get l i =
  nth i l N0

(** val upd : n list -> nat -> n -> n list **)

let rec upd l i v =
  match l with
  | [] -> []
  | x :: r -> (match i with
               | O -> v :: r
               | S i' -> x :: (upd r i' v))

(** val g : n list -> nat -> nat -> nat -> nat -> n -> n -> n list **)

let g st1 a b c d mx my =
  let va = get st1 a in
  let vb = get st1 b in
  let vc = get st1 c in
  let vd = get st1 d in
  let va0 = add32 (add32 va vb) mx in
  let vd0 = rotr32 (N.coq_lxor vd va0) (Npos (XO (XO (XO (XO XH))))) in
  let vc0 = add32 vc vd0 in
  let vb0 = rotr32 (N.coq_lxor vb vc0) (Npos (XO (XO (XI XH)))) in
  let va1 = add32 (add32 va0 vb0) my in
  let vd1 = rotr32 (N.coq_lxor vd0 va1) (Npos (XO (XO (XO XH)))) in
  let vc1 = add32 vc0 vd1 in
  let vb1 = rotr32 (N.coq_lxor vb0 vc1) (Npos (XI (XI XH))) in
  upd (upd (upd (upd st1 a va1) b vb1) c vc1) d vd1

(** val round : n list -> n list -> n list **)

let round st1 m =
  let st2 =
    g st1 O (S (S (S (S O)))) (S (S (S (S (S (S (S (S O)))))))) (S (S (S (S
      (S (S (S (S (S (S (S (S O)))))))))))) (get m O) (get m (S O))
  in
  let st3 =
    g st2 (S O) (S (S (S (S (S O))))) (S (S (S (S (S (S (S (S (S O)))))))))
      (S (S (S (S (S (S (S (S (S (S (S (S (S O))))))))))))) (get m (S (S O)))
      (get m (S (S (S O))))
  in
  let st4 =
    g st3 (S (S O)) (S (S (S (S (S (S O)))))) (S (S (S (S (S (S (S (S (S (S
      O)))))))))) (S (S (S (S (S (S (S (S (S (S (S (S (S (S O))))))))))))))
      (get m (S (S (S (S O))))) (get m (S (S (S (S (S O))))))
  in
  let st5 =
    g st4 (S (S (S O))) (S (S (S (S (S (S (S O))))))) (S (S (S (S (S (S (S (S
      (S (S (S O))))))))))) (S (S (S (S (S (S (S (S (S (S (S (S (S (S (S
      O))))))))))))))) (get m (S (S (S (S (S (S O)))))))
      (get m (S (S (S (S (S (S (S O))))))))
  in
  let st6 =
    g st5 O (S (S (S (S (S O))))) (S (S (S (S (S (S (S (S (S (S O))))))))))
      (S (S (S (S (S (S (S (S (S (S (S (S (S (S (S O)))))))))))))))
      (get m (S (S (S (S (S (S (S (S O)))))))))
      (get m (S (S (S (S (S (S (S (S (S O))))))))))
  in
  let st7 =
    g st6 (S O) (S (S (S (S (S (S O)))))) (S (S (S (S (S (S (S (S (S (S (S
      O))))))))))) (S (S (S (S (S (S (S (S (S (S (S (S O))))))))))))
      (get m (S (S (S (S (S (S (S (S (S (S O)))))))))))
      (get m (S (S (S (S (S (S (S (S (S (S (S O))))))))))))
  in
  let st8 =
    g st7 (S (S O)) (S (S (S (S (S (S (S O))))))) (S (S (S (S (S (S (S (S
      O)))))))) (S (S (S (S (S (S (S (S (S (S (S (S (S O)))))))))))))
      (get m (S (S (S (S (S (S (S (S (S (S (S (S O)))))))))))))
      (get m (S (S (S (S (S (S (S (S (S (S (S (S (S O))))))))))))))
  in
  g st8 (S (S (S O))) (S (S (S (S O)))) (S (S (S (S (S (S (S (S (S O)))))))))
    (S (S (S (S (S (S (S (S (S (S (S (S (S (S O))))))))))))))
    (get m (S (S (S (S (S (S (S (S (S (S (S (S (S (S O)))))))))))))))
    (get m (S (S (S (S (S (S (S (S (S (S (S (S (S (S (S O))))))))))))))))

(** val permute : n list -> n list **)

let permute m =
  map (fun i -> get m i) mSG_PERMUTATION

(** val rounds : nat -> n list -> n list -> n list **)

let rec rounds n0 st1 m =
  match n0 with
  | O -> st1
  | S n' ->
    (match n' with
     | O -> round st1 m
     | S _ -> rounds n' (round st1 m) (permute m))

(** val compress : n list -> n list -> n -> n -> n -> n list **)

let compress cv block counter block_len flags =
  let st1 =
    app cv
      (app (firstn (S (S (S (S O)))) iV)
        ((N.coq_land counter m32) :: ((N.coq_land
                                        (N.shiftr counter (Npos (XO (XO (XO
                                          (XO (XO XH))))))) m32) :: (block_len :: (flags :: [])))))
  in
  let st2 = rounds (S (S (S (S (S (S (S O))))))) st1 block in
  app
    (map (fun i ->
      N.coq_lxor (get st2 i)
        (get st2 (add i (S (S (S (S (S (S (S (S O)))))))))))
      (seq O (S (S (S (S (S (S (S (S O))))))))))
    (map (fun i ->
      N.coq_lxor (get st2 (add i (S (S (S (S (S (S (S (S O))))))))))
        (get cv i)) (seq O (S (S (S (S (S (S (S (S O))))))))))

(** val compress_cv : n list -> n list -> n -> n -> n -> n list **)

let compress_cv cv block counter block_len flags =
  firstn (S (S (S (S (S (S (S (S O))))))))
    (compress cv block counter block_len flags)

(** val words_of_bytes : nat -> n list -> n list **)

let rec words_of_bytes fuel bs =
  match fuel with
  | O -> []
  | S f ->
    (match bs with
     | [] -> []
     | b0 :: r0 ->
       (match r0 with
        | [] -> b0 :: []
        | b1 :: r1 ->
          (match r1 with
           | [] -> (N.add b0 (N.shiftl b1 (Npos (XO (XO (XO XH)))))) :: []
           | b2 :: r2 ->
             (match r2 with
              | [] ->
                (N.add (N.add b0 (N.shiftl b1 (Npos (XO (XO (XO XH))))))
                  (N.shiftl b2 (Npos (XO (XO (XO (XO XH))))))) :: []
              | b3 :: r3 ->
                (N.add
                  (N.add (N.add b0 (N.shiftl b1 (Npos (XO (XO (XO XH))))))
                    (N.shiftl b2 (Npos (XO (XO (XO (XO XH)))))))
                  (N.shiftl b3 (Npos (XO (XO (XO (XI XH))))))) :: (words_of_bytes
                                                                    f r3)))))

(** val pad16 : n list -> n list **)

let pad16 ws =
  firstn (S (S (S (S (S (S (S (S (S (S (S (S (S (S (S (S O))))))))))))))))
    (app ws
      (repeat N0 (S (S (S (S (S (S (S (S (S (S (S (S (S (S (S (S
        O))))))))))))))))))

(** val block_words : n list -> n list **)

let block_words bs =
  pad16
    (words_of_bytes (S (S (S (S (S (S (S (S (S (S (S (S (S (S (S (S
      O)))))))))))))))) bs)

(** val bytes_of_word : n -> n list **)

let bytes_of_word w =
  (N.coq_land w (Npos (XI (XI (XI (XI (XI (XI (XI XH))))))))) :: ((N.coq_land
                                                                    (N.shiftr
                                                                    w (Npos
                                                                    (XO (XO
                                                                    (XO
                                                                    XH)))))
                                                                    (Npos (XI
                                                                    (XI (XI
                                                                    (XI (XI
                                                                    (XI (XI
                                                                    XH))))))))) :: (
    (N.coq_land (N.shiftr w (Npos (XO (XO (XO (XO XH)))))) (Npos (XI (XI (XI
      (XI (XI (XI (XI XH))))))))) :: ((N.coq_land
                                        (N.shiftr w (Npos (XO (XO (XO (XI
                                          XH)))))) (Npos (XI (XI (XI (XI (XI
                                        (XI (XI XH))))))))) :: [])))

(** val bytes_of_words : n list -> n list **)

let bytes_of_words ws =
  flat_map bytes_of_word ws

(** val chunks_of : nat -> nat -> n list -> n list list **)

let rec chunks_of fuel n0 l =
  match fuel with
  | O -> []
  | S f ->
    (match l with
     | [] -> []
     | _ :: _ -> (firstn n0 l) :: (chunks_of f n0 (skipn n0 l)))

(** val chunk_blocks :
    n list -> n list -> n list list -> n -> n -> ((n list * n list) * n) * n **)

let rec chunk_blocks key cv blocks counter flags_start =
  match blocks with
  | [] ->
    (((cv, (block_words [])), N0),
      (N.coq_lor (N.coq_lor kEYED_HASH flags_start) cHUNK_END))
  | b :: rest ->
    (match rest with
     | [] ->
       (((cv, (block_words b)), (N.of_nat (length b))),
         (N.coq_lor (N.coq_lor kEYED_HASH flags_start) cHUNK_END))
     | _ :: _ ->
       let cv' =
         compress_cv cv (block_words b) counter (Npos (XO (XO (XO (XO (XO (XO
           XH))))))) (N.coq_lor kEYED_HASH flags_start)
       in
       chunk_blocks key cv' rest counter N0)

(** val chunk_output :
    n list -> n list -> n -> (((n list * n list) * n) * n) * n **)

let chunk_output key chunk counter =
  let (p, fl) =
    chunk_blocks key key
      (chunks_of (S (S (S (S (S (S (S (S (S (S (S (S (S (S (S (S (S
        O))))))))))))))))) (S (S (S (S (S (S (S (S (S (S (S (S (S (S (S (S (S
        (S (S (S (S (S (S (S (S (S (S (S (S (S (S (S (S (S (S (S (S (S (S (S
        (S (S (S (S (S (S (S (S (S (S (S (S (S (S (S (S (S (S (S (S (S (S (S
        (S O))))))))))))))))))))))))))))))))))))))))))))))))))))))))))))))))
        chunk) counter cHUNK_START
  in
  let (p0, bl) = p in (((p0, counter), bl), fl)

(** val out_cv : ((((n list * n list) * n) * n) * n) -> n list **)

let out_cv = function
| (p, fl) ->
  let (p0, bl) = p in
  let (p1, ctr) = p0 in let (cv, bw) = p1 in compress_cv cv bw ctr bl fl

(** val out_root : ((((n list * n list) * n) * n) * n) -> n list **)

let out_root = function
| (p, fl) ->
  let (p0, bl) = p in
  let (p1, _) = p0 in
  let (cv, bw) = p1 in
  bytes_of_words
    (firstn (S (S (S (S (S (S (S (S O))))))))
      (compress cv bw N0 bl (N.coq_lor fl rOOT)))

(** val parent_output :
    n list -> n list -> n list -> (((n list * n list) * n) * n) * n **)

let parent_output key l r =
  ((((key, (app l r)), N0), (Npos (XO (XO (XO (XO (XO (XO XH)))))))),
    (N.coq_lor kEYED_HASH pARENT))

(** val pow2_below : nat -> nat -> nat -> nat **)

let rec pow2_below fuel p n0 =
  match fuel with
  | O -> p
  | S f ->
    if ltb (mul (S (S O)) p) n0 then pow2_below f (mul (S (S O)) p) n0 else p

(** val subtree :
    nat -> n list -> n list list -> n -> (((n list * n list) * n) * n) * n **)

let rec subtree fuel key chunks first =
  match fuel with
  | O -> chunk_output key [] first
  | S f ->
    (match chunks with
     | [] -> chunk_output key [] first
     | c :: l ->
       (match l with
        | [] -> chunk_output key c first
        | _ :: _ ->
          let n0 = length chunks in
          let k = pow2_below n0 (S O) n0 in
          let l0 = out_cv (subtree f key (firstn k chunks) first) in
          let r =
            out_cv (subtree f key (skipn k chunks) (N.add first (N.of_nat k)))
          in
          parent_output key l0 r))

(** val key_words : n list -> n list **)

let key_words key_bytes =
  firstn (S (S (S (S (S (S (S (S O))))))))
    (app (words_of_bytes (S (S (S (S (S (S (S (S O)))))))) key_bytes)
      (repeat N0 (S (S (S (S (S (S (S (S O))))))))))

(** val keyed_hash : n list -> n list -> n list **)

let keyed_hash key_bytes input =
  let key = key_words key_bytes in
  let chunks =
    chunks_of (S
      (div (length input) (S (S (S (S (S (S (S (S (S (S (S (S (S (S (S (S (S
        (S (S (S (S (S (S (S (S (S (S (S (S (S (S (S (S (S (S (S (S (S (S (S
        (S (S (S (S (S (S (S (S (S (S (S (S (S (S (S (S (S (S (S (S (S (S (S
        (S (S (S (S (S (S (S (S (S (S (S (S (S (S (S (S (S (S (S (S (S (S (S
        (S (S (S (S (S (S (S (S (S (S (S (S (S (S (S (S (S (S (S (S (S (S (S
        (S (S (S (S (S (S (S (S (S (S (S (S (S (S (S (S (S (S (S (S (S (S (S
        (S (S (S (S (S (S (S (S (S (S (S (S (S (S (S (S (S (S (S (S (S (S (S
        (S (S (S (S (S (S (S (S (S (S (S (S (S (S (S (S (S (S (S (S (S (S (S
        (S (S (S (S (S (S (S (S (S (S (S (S (S (S (S (S (S (S (S (S (S (S (S
        (S (S (S (S (S (S (S (S (S (S (S (S (S (S (S (S (S (S (S (S (S (S (S
        (S (S (S (S (S (S (S (S (S (S (S (S (S (S (S (S (S (S (S (S (S (S (S
        (S (S (S (S (S (S (S (S (S (S (S (S (S (S (S (S (S (S (S (S (S (S (S
        (S (S (S (S (S (S (S (S (S (S (S (S (S (S (S (S (S (S (S (S (S (S (S
        (S (S (S (S (S (S (S (S (S (S (S (S (S (S (S (S (S (S (S (S (S (S (S
        (S (S (S (S (S (S (S (S (S (S (S (S (S (S (S (S (S (S (S (S (S (S (S
        (S (S (S (S (S (S (S (S (S (S (S (S (S (S (S (S (S (S (S (S (S (S (S
        (S (S (S (S (S (S (S (S (S (S (S (S (S (S (S (S (S (S (S (S (S (S (S
        (S (S (S (S (S (S (S (S (S (S (S (S (S (S (S (S (S (S (S (S (S (S (S
        (S (S (S (S (S (S (S (S (S (S (S (S (S (S (S (S (S (S (S (S (S (S (S
        (S (S (S (S (S (S (S (S (S (S (S (S (S (S (S (S (S (S (S (S (S (S (S
        (S (S (S (S (S (S (S (S (S (S (S (S (S (S (S (S (S (S (S (S (S (S (S
        (S (S (S (S (S (S (S (S (S (S (S (S (S (S (S (S (S (S (S (S (S (S (S
        (S (S (S (S (S (S (S (S (S (S (S (S (S (S (S (S (S (S (S (S (S (S (S
        (S (S (S (S (S (S (S (S (S (S (S (S (S (S (S (S (S (S (S (S (S (S (S
        (S (S (S (S (S (S (S (S (S (S (S (S (S (S (S (S (S (S (S (S (S (S (S
        (S (S (S (S (S (S (S (S (S (S (S (S (S (S (S (S (S (S (S (S (S (S (S
        (S (S (S (S (S (S (S (S (S (S (S (S (S (S (S (S (S (S (S (S (S (S (S
        (S (S (S (S (S (S (S (S (S (S (S (S (S (S (S (S (S (S (S (S (S (S (S
        (S (S (S (S (S (S (S (S (S (S (S (S (S (S (S (S (S (S (S (S (S (S (S
        (S (S (S (S (S (S (S (S (S (S (S (S (S (S (S (S (S (S (S (S (S (S (S
        (S (S (S (S (S (S (S (S (S (S (S (S (S (S (S (S (S (S (S (S (S (S (S
        (S (S (S (S (S (S (S (S (S (S (S (S (S (S (S (S (S (S (S (S (S (S (S
        (S (S (S (S (S (S (S (S (S (S (S (S (S (S (S (S (S (S (S (S (S (S (S
        (S (S (S (S (S (S (S (S (S (S (S (S (S (S (S (S (S (S (S (S (S (S (S
        (S (S (S (S (S (S (S (S (S (S (S (S (S (S (S (S (S (S (S (S (S (S (S
        (S (S (S (S (S (S (S (S (S (S (S (S (S (S (S (S (S (S (S (S (S (S (S
        (S (S (S (S (S (S (S (S (S (S (S (S (S (S (S (S (S (S (S (S (S (S (S
        (S (S (S (S (S (S (S (S (S (S (S (S (S (S (S (S (S (S (S (S (S (S (S
        (S (S (S (S (S (S (S (S (S (S (S (S (S (S (S (S (S (S (S (S (S (S (S
        (S (S (S (S (S (S (S (S (S (S (S (S (S (S (S (S (S (S (S (S (S (S (S
        (S (S (S (S (S (S (S (S (S (S (S (S (S (S (S (S (S (S (S (S (S (S (S
        (S (S (S (S (S (S (S (S (S (S (S (S (S (S (S (S (S (S (S (S (S (S (S
        (S (S (S (S (S (S (S (S (S (S (S (S (S (S (S (S (S (S (S (S (S (S (S
        (S (S (S (S (S (S (S (S (S (S (S (S (S (S (S (S (S (S (S (S (S (S (S
        (S (S (S (S (S (S (S (S (S (S (S (S (S (S (S (S (S (S
        O))))))))))))))))))))))))))))))))))))))))))))))))))))))))))))))))))))))))))))))))))))))))))))))))))))))))))))))))))))))))))))))))))))))))))))))))))))))))))))))))))))))))))))))))))))))))))))))))))))))))))))))))))))))))))))))))))))))))))))))))))))))))))))))))))))))))))))))))))))))))))))))))))))))))))))))))))))))))))))))))))))))))))))))))))))))))))))))))))))))))))))))))))))))))))))))))))))))))))))))))))))))))))))))))))))))))))))))))))))))))))))))))))))))))))))))))))))))))))))))))))))))))))))))))))))))))))))))))))))))))))))))))))))))))))))))))))))))))))))))))))))))))))))))))))))))))))))))))))))))))))))))))))))))))))))))))))))))))))))))))))))))))))))))))))))))))))))))))))))))))))))))))))))))))))))))))))))))))))))))))))))))))))))))))))))))))))))))))))))))))))))))))))))))))))))))))))))))))))))))))))))))))))))))))))))))))))))))))))))))))))))))))))))))))))))))))))))))))))))))))))))))))))))))))))))))))))))))))))))))))))))))))))))))))))))))))))))))))))))))))))))))))))))))))))))))))))))))))))))))))))))))))))))))))))))))))))
      (S (S (S (S (S (S (S (S (S (S (S (S (S (S (S (S (S (S (S (S (S (S (S (S
      (S (S (S (S (S (S (S (S (S (S (S (S (S (S (S (S (S (S (S (S (S (S (S (S
      (S (S (S (S (S (S (S (S (S (S (S (S (S (S (S (S (S (S (S (S (S (S (S (S
      (S (S (S (S (S (S (S (S (S (S (S (S (S (S (S (S (S (S (S (S (S (S (S (S
      (S (S (S (S (S (S (S (S (S (S (S (S (S (S (S (S (S (S (S (S (S (S (S (S
      (S (S (S (S (S (S (S (S (S (S (S (S (S (S (S (S (S (S (S (S (S (S (S (S
      (S (S (S (S (S (S (S (S (S (S (S (S (S (S (S (S (S (S (S (S (S (S (S (S
      (S (S (S (S (S (S (S (S (S (S (S (S (S (S (S (S (S (S (S (S (S (S (S (S
      (S (S (S (S (S (S (S (S (S (S (S (S (S (S (S (S (S (S (S (S (S (S (S (S
      (S (S (S (S (S (S (S (S (S (S (S (S (S (S (S (S (S (S (S (S (S (S (S (S
      (S (S (S (S (S (S (S (S (S (S (S (S (S (S (S (S (S (S (S (S (S (S (S (S
      (S (S (S (S (S (S (S (S (S (S (S (S (S (S (S (S (S (S (S (S (S (S (S (S
      (S (S (S (S (S (S (S (S (S (S (S (S (S (S (S (S (S (S (S (S (S (S (S (S
      (S (S (S (S (S (S (S (S (S (S (S (S (S (S (S (S (S (S (S (S (S (S (S (S
      (S (S (S (S (S (S (S (S (S (S (S (S (S (S (S (S (S (S (S (S (S (S (S (S
      (S (S (S (S (S (S (S (S (S (S (S (S (S (S (S (S (S (S (S (S (S (S (S (S
      (S (S (S (S (S (S (S (S (S (S (S (S (S (S (S (S (S (S (S (S (S (S (S (S
      (S (S (S (S (S (S (S (S (S (S (S (S (S (S (S (S (S (S (S (S (S (S (S (S
      (S (S (S (S (S (S (S (S (S (S (S (S (S (S (S (S (S (S (S (S (S (S (S (S
      (S (S (S (S (S (S (S (S (S (S (S (S (S (S (S (S (S (S (S (S (S (S (S (S
      (S (S (S (S (S (S (S (S (S (S (S (S (S (S (S (S (S (S (S (S (S (S (S (S
      (S (S (S (S (S (S (S (S (S (S (S (S (S (S (S (S (S (S (S (S (S (S (S (S
      (S (S (S (S (S (S (S (S (S (S (S (S (S (S (S (S (S (S (S (S (S (S (S (S
      (S (S (S (S (S (S (S (S (S (S (S (S (S (S (S (S (S (S (S (S (S (S (S (S
      (S (S (S (S (S (S (S (S (S (S (S (S (S (S (S (S (S (S (S (S (S (S (S (S
      (S (S (S (S (S (S (S (S (S (S (S (S (S (S (S (S (S (S (S (S (S (S (S (S
      (S (S (S (S (S (S (S (S (S (S (S (S (S (S (S (S (S (S (S (S (S (S (S (S
      (S (S (S (S (S (S (S (S (S (S (S (S (S (S (S (S (S (S (S (S (S (S (S (S
      (S (S (S (S (S (S (S (S (S (S (S (S (S (S (S (S (S (S (S (S (S (S (S (S
      (S (S (S (S (S (S (S (S (S (S (S (S (S (S (S (S (S (S (S (S (S (S (S (S
      (S (S (S (S (S (S (S (S (S (S (S (S (S (S (S (S (S (S (S (S (S (S (S (S
      (S (S (S (S (S (S (S (S (S (S (S (S (S (S (S (S (S (S (S (S (S (S (S (S
      (S (S (S (S (S (S (S (S (S (S (S (S (S (S (S (S (S (S (S (S (S (S (S (S
      (S (S (S (S (S (S (S (S (S (S (S (S (S (S (S (S (S (S (S (S (S (S (S (S
      (S (S (S (S (S (S (S (S (S (S (S (S (S (S (S (S (S (S (S (S (S (S (S (S
      (S (S (S (S (S (S (S (S (S (S (S (S (S (S (S (S (S (S (S (S (S (S (S (S
      (S (S (S (S (S (S (S (S (S (S (S (S (S (S (S (S (S (S (S (S (S (S (S (S
      (S (S (S (S (S (S (S (S (S (S (S (S (S (S (S (S (S (S (S (S (S (S (S (S
      (S (S (S (S (S (S (S (S (S (S (S (S (S (S (S (S (S (S (S (S (S (S (S (S
      (S (S (S (S (S (S (S (S (S (S (S (S (S (S (S (S (S (S (S (S (S (S (S (S
      (S (S (S (S (S (S (S (S (S (S (S (S (S (S (S (S (S (S (S (S (S (S (S (S
      (S (S (S (S (S (S (S (S (S (S (S (S (S (S (S (S (S (S (S (S (S (S (S (S
      (S (S (S (S (S (S (S (S (S (S (S (S (S (S (S (S
      O))))))))))))))))))))))))))))))))))))))))))))))))))))))))))))))))))))))))))))))))))))))))))))))))))))))))))))))))))))))))))))))))))))))))))))))))))))))))))))))))))))))))))))))))))))))))))))))))))))))))))))))))))))))))))))))))))))))))))))))))))))))))))))))))))))))))))))))))))))))))))))))))))))))))))))))))))))))))))))))))))))))))))))))))))))))))))))))))))))))))))))))))))))))))))))))))))))))))))))))))))))))))))))))))))))))))))))))))))))))))))))))))))))))))))))))))))))))))))))))))))))))))))))))))))))))))))))))))))))))))))))))))))))))))))))))))))))))))))))))))))))))))))))))))))))))))))))))))))))))))))))))))))))))))))))))))))))))))))))))))))))))))))))))))))))))))))))))))))))))))))))))))))))))))))))))))))))))))))))))))))))))))))))))))))))))))))))))))))))))))))))))))))))))))))))))))))))))))))))))))))))))))))))))))))))))))))))))))))))))))))))))))))))))))))))))))))))))))))))))))))))))))))))))))))))))))))))))))))))))))))))))))))))))))))))))))))))))))))))))))))))))))))))))))))))))))))))))))))))))))))))))))))))))))))))))))
      input
  in
  out_root (subtree (S (length chunks)) key chunks N0)

type hash = n list

(** val zero_hash : hash **)

let zero_hash =
  repeat N0 (S (S (S (S (S (S (S (S (S (S (S (S (S (S (S (S (S (S (S (S (S (S
    (S (S (S (S (S (S (S (S (S (S O))))))))))))))))))))))))))))))))

(** val compute_data_hash : n list -> hash **)

let compute_data_hash data =
  keyed_hash dATA_KEY data

(** val compute_internal_node_hash : n list -> hash **)

let compute_internal_node_hash data =
  keyed_hash iNTERNAL_NODE_HASH data

(** val hmac : hash -> hash -> hash **)

let hmac h key =
  keyed_hash key h

(** val with_salt : hash -> hash -> hash **)

let with_salt h salt =
  keyed_hash salt h

(** val range_hash_from_chunks : hash list -> hash **)

let range_hash_from_chunks hs =
  keyed_hash vERIFICATION_KEY (concat hs)

(** val hexdigit : n -> n **)

let hexdigit d =
  if N.ltb d (Npos (XO (XI (XO XH))))
  then N.add (Npos (XO (XO (XO (XO (XI XH)))))) d
  else N.add (Npos (XI (XI (XI (XO (XI (XO XH))))))) d

(** val hex_byte : n -> n list **)

let hex_byte b =
  (hexdigit (N.div b (Npos (XO (XO (XO (XO XH))))))) :: ((hexdigit
                                                           (N.modulo b (Npos
                                                             (XO (XO (XO (XO
                                                             XH))))))) :: [])

(** val hex_words : nat -> n list -> n list **)

let rec hex_words fuel h =
  match fuel with
  | O -> []
  | S f ->
    app
      (flat_map hex_byte (rev0 (firstn (S (S (S (S (S (S (S (S O)))))))) h)))
      (hex_words f (skipn (S (S (S (S (S (S (S (S O)))))))) h))

(** val hex : hash -> n list **)

let hex h =
  hex_words (S (S (S (S O)))) h

(** val unhexdigit : n -> n option **)

let unhexdigit c =
  if (&&) (N.leb (Npos (XO (XO (XO (XO (XI XH)))))) c)
       (N.leb c (Npos (XI (XO (XO (XI (XI XH)))))))
  then Some (N.sub c (Npos (XO (XO (XO (XO (XI XH)))))))
  else if (&&) (N.leb (Npos (XI (XO (XO (XO (XO (XI XH))))))) c)
            (N.leb c (Npos (XO (XI (XI (XO (XO (XI XH))))))))
       then Some (N.sub c (Npos (XI (XI (XI (XO (XI (XO XH))))))))
       else if (&&) (N.leb (Npos (XI (XO (XO (XO (XO (XO XH))))))) c)
                 (N.leb c (Npos (XO (XI (XI (XO (XO (XO XH))))))))
            then Some (N.sub c (Npos (XI (XI (XI (XO (XI XH)))))))
            else None

(** val unhex_bytes : n list -> n list option **)

let rec unhex_bytes = function
| [] -> Some []
| a :: l ->
  (match l with
   | [] -> None
   | b :: r ->
     (match unhexdigit a with
      | Some x ->
        (match unhexdigit b with
         | Some y ->
           (match unhex_bytes r with
            | Some rest ->
              Some ((N.add (N.mul (Npos (XO (XO (XO (XO XH))))) x) y) :: rest)
            | None -> None)
         | None -> None)
      | None -> None))

(** val unhex_words : nat -> n list -> n list **)

let rec unhex_words fuel bs =
  match fuel with
  | O -> []
  | S f ->
    app (rev0 (firstn (S (S (S (S (S (S (S (S O)))))))) bs))
      (unhex_words f (skipn (S (S (S (S (S (S (S (S O)))))))) bs))

(** val from_hex : n list -> hash option **)

let from_hex s =
  if negb
       (N.eqb (N.of_nat (length s)) (Npos (XO (XO (XO (XO (XO (XO XH))))))))
  then None
  else (match unhex_bytes s with
        | Some bs -> Some (unhex_words (S (S (S (S O)))) bs)
        | None -> None)

(** val b64char : n -> n **)

let b64char v =
  if N.ltb v (Npos (XO (XI (XO (XI XH)))))
  then N.add (Npos (XI (XO (XO (XO (XO (XO XH))))))) v
  else if N.ltb v (Npos (XO (XO (XI (XO (XI XH))))))
       then N.add (Npos (XI (XO (XO (XO (XO (XI XH)))))))
              (N.sub v (Npos (XO (XI (XO (XI XH))))))
       else if N.ltb v (Npos (XO (XI (XI (XI (XI XH))))))
            then N.add (Npos (XO (XO (XO (XO (XI XH))))))
                   (N.sub v (Npos (XO (XO (XI (XO (XI XH)))))))
            else if N.eqb v (Npos (XO (XI (XI (XI (XI XH))))))
                 then Npos (XI (XO (XI (XI (XO XH)))))
                 else Npos (XI (XI (XI (XI (XI (XO XH))))))

(** val b64enc : nat -> n list -> n list **)

let rec b64enc fuel bs =
  match fuel with
  | O -> []
  | S f ->
    (match bs with
     | [] -> []
     | a :: l ->
       (match l with
        | [] ->
          (b64char (N.div a (Npos (XO (XO XH))))) :: ((b64char
                                                        (N.mul
                                                          (N.modulo a (Npos
                                                            (XO (XO XH))))
                                                          (Npos (XO (XO (XO
                                                          (XO XH))))))) :: [])
        | b :: l0 ->
          (match l0 with
           | [] ->
             (b64char (N.div a (Npos (XO (XO XH))))) :: ((b64char
                                                           (N.add
                                                             (N.mul
                                                               (N.modulo a
                                                                 (Npos (XO
                                                                 (XO XH))))
                                                               (Npos (XO (XO
                                                               (XO (XO
                                                               XH))))))
                                                             (N.div b (Npos
                                                               (XO (XO (XO
                                                               (XO XH)))))))) :: (
               (b64char
                 (N.mul (N.modulo b (Npos (XO (XO (XO (XO XH)))))) (Npos (XO
                   (XO XH))))) :: []))
           | c :: r ->
             (b64char (N.div a (Npos (XO (XO XH))))) :: ((b64char
                                                           (N.add
                                                             (N.mul
                                                               (N.modulo a
                                                                 (Npos (XO
                                                                 (XO XH))))
                                                               (Npos (XO (XO
                                                               (XO (XO
                                                               XH))))))
                                                             (N.div b (Npos
                                                               (XO (XO (XO
                                                               (XO XH)))))))) :: (
               (b64char
                 (N.add
                   (N.mul (N.modulo b (Npos (XO (XO (XO (XO XH)))))) (Npos
                     (XO (XO XH))))
                   (N.div c (Npos (XO (XO (XO (XO (XO (XO XH)))))))))) :: (
               (b64char (N.modulo c (Npos (XO (XO (XO (XO (XO (XO XH))))))))) :: 
               (b64enc f r)))))))

(** val base64 : hash -> n list **)

let base64 h =
  b64enc (S (S (S (S (S (S (S (S (S (S (S (S O)))))))))))) h

(** val b64val : n -> n option **)

let b64val c =
  if (&&) (N.leb (Npos (XI (XO (XO (XO (XO (XO XH))))))) c)
       (N.leb c (Npos (XO (XI (XO (XI (XI (XO XH))))))))
  then Some (N.sub c (Npos (XI (XO (XO (XO (XO (XO XH))))))))
  else if (&&) (N.leb (Npos (XI (XO (XO (XO (XO (XI XH))))))) c)
            (N.leb c (Npos (XO (XI (XO (XI (XI (XI XH))))))))
       then Some
              (N.add (N.sub c (Npos (XI (XO (XO (XO (XO (XI XH)))))))) (Npos
                (XO (XI (XO (XI XH))))))
       else if (&&) (N.leb (Npos (XO (XO (XO (XO (XI XH)))))) c)
                 (N.leb c (Npos (XI (XO (XO (XI (XI XH)))))))
            then Some
                   (N.add (N.sub c (Npos (XO (XO (XO (XO (XI XH))))))) (Npos
                     (XO (XO (XI (XO (XI XH)))))))
            else if N.eqb c (Npos (XI (XO (XI (XI (XO XH))))))
                 then Some (Npos (XO (XI (XI (XI (XI XH))))))
                 else if N.eqb c (Npos (XI (XI (XI (XI (XI (XO XH)))))))
                      then Some (Npos (XI (XI (XI (XI (XI XH))))))
                      else None

(** val b64dec : nat -> n list -> n list option **)

let rec b64dec fuel s =
  match fuel with
  | O -> None
  | S f ->
    (match s with
     | [] -> Some []
     | a :: l ->
       (match l with
        | [] -> None
        | b :: l0 ->
          (match l0 with
           | [] ->
             (match b64val a with
              | Some x ->
                (match b64val b with
                 | Some y ->
                   if N.eqb (N.modulo y (Npos (XO (XO (XO (XO XH)))))) N0
                   then Some
                          ((N.add (N.mul x (Npos (XO (XO XH))))
                             (N.div y (Npos (XO (XO (XO (XO XH))))))) :: [])
                   else None
                 | None -> None)
              | None -> None)
           | c :: l1 ->
             (match l1 with
              | [] ->
                (match b64val a with
                 | Some x ->
                   (match b64val b with
                    | Some y ->
                      (match b64val c with
                       | Some z ->
                         if N.eqb (N.modulo z (Npos (XO (XO XH)))) N0
                         then Some
                                ((N.add (N.mul x (Npos (XO (XO XH))))
                                   (N.div y (Npos (XO (XO (XO (XO XH))))))) :: (
                                (N.add
                                  (N.mul
                                    (N.modulo y (Npos (XO (XO (XO (XO XH))))))
                                    (Npos (XO (XO (XO (XO XH))))))
                                  (N.div z (Npos (XO (XO XH))))) :: []))
                         else None
                       | None -> None)
                    | None -> None)
                 | None -> None)
              | d :: r ->
                (match b64val a with
                 | Some x ->
                   (match b64val b with
                    | Some y ->
                      (match b64val c with
                       | Some z ->
                         (match b64val d with
                          | Some w ->
                            (match b64dec f r with
                             | Some rest ->
                               Some
                                 ((N.add (N.mul x (Npos (XO (XO XH))))
                                    (N.div y (Npos (XO (XO (XO (XO XH))))))) :: (
                                 (N.add
                                   (N.mul
                                     (N.modulo y (Npos (XO (XO (XO (XO
                                       XH)))))) (Npos (XO (XO (XO (XO XH))))))
                                   (N.div z (Npos (XO (XO XH))))) :: (
                                 (N.add
                                   (N.mul (N.modulo z (Npos (XO (XO XH))))
                                     (Npos (XO (XO (XO (XO (XO (XO XH))))))))
                                   w) :: rest)))
                             | None -> None)
                          | None -> None)
                       | None -> None)
                    | None -> None)
                 | None -> None)))))

(** val from_base64 : n list -> hash option **)

let from_base64 s =
  match b64dec (S (length s)) s with
  | Some bs ->
    if N.eqb (N.of_nat (length bs)) (Npos (XO (XO (XO (XO (XO XH))))))
    then Some bs
    else None
  | None -> None

(** val uint_digits : uint -> n list **)

let rec uint_digits = function
| Nil -> []
| D0 r -> (Npos (XO (XO (XO (XO (XI XH)))))) :: (uint_digits r)
| D1 r -> (Npos (XI (XO (XO (XO (XI XH)))))) :: (uint_digits r)
| D2 r -> (Npos (XO (XI (XO (XO (XI XH)))))) :: (uint_digits r)
| D3 r -> (Npos (XI (XI (XO (XO (XI XH)))))) :: (uint_digits r)
| D4 r -> (Npos (XO (XO (XI (XO (XI XH)))))) :: (uint_digits r)
| D5 r -> (Npos (XI (XO (XI (XO (XI XH)))))) :: (uint_digits r)
| D6 r -> (Npos (XO (XI (XI (XO (XI XH)))))) :: (uint_digits r)
| D7 r -> (Npos (XI (XI (XI (XO (XI XH)))))) :: (uint_digits r)
| D8 r -> (Npos (XO (XO (XO (XI (XI XH)))))) :: (uint_digits r)
| D9 r -> (Npos (XI (XO (XO (XI (XI XH)))))) :: (uint_digits r)

(** val dec : n -> n list **)

let dec n0 =
  uint_digits (N.to_uint n0)

type node = hash * n

(** val child_text : node -> n list **)

let child_text nd =
  app (hex (fst nd))
    (app ((Npos (XO (XO (XO (XO (XO XH)))))) :: ((Npos (XO (XI (XO (XI (XI
      XH)))))) :: ((Npos (XO (XO (XO (XO (XO XH)))))) :: [])))
      (app (dec (snd nd)) ((Npos (XO (XI (XO XH)))) :: [])))

(** val children_text : node list -> n list **)

let children_text ch =
  flat_map child_text ch

(** val le64 : n list -> n **)

let le64 bs =
  fold_right (fun b acc ->
    N.add b (N.mul (Npos (XO (XO (XO (XO (XO (XO (XO (XO XH))))))))) acc)) N0
    bs

(** val word3 : hash -> n **)

let word3 h =
  le64
    (firstn (S (S (S (S (S (S (S (S O))))))))
      (skipn (S (S (S (S (S (S (S (S (S (S (S (S (S (S (S (S (S (S (S (S (S
        (S (S (S O)))))))))))))))))))))))) h))

(** val hkey : hash -> n **)

let hkey =
  le64

type db = (n * n) list

(** val db0 : db **)

let db0 =
  (N0, N0) :: []

(** val db_find : db -> n -> n option **)

let rec db_find d k =
  match d with
  | [] -> None
  | p :: r -> let (k', l) = p in if N.eqb k k' then Some l else db_find r k

(** val add_node : db -> hash -> n -> db * node **)

let add_node d h len =
  match db_find d (hkey h) with
  | Some l -> (d, (h, l))
  | None -> ((((hkey h), len) :: d), (h, len))

(** val mol :
    (n list -> hash) -> db -> node list -> n -> n -> n -> node list -> node
    list -> db * node list **)

let rec mol hint d cur curlen idx total nodes parents =
  match nodes with
  | [] -> (d, (rev0 parents))
  | nd :: rest ->
    let curlen' = N.add curlen (snd nd) in
    if merkle_cut (N.of_nat (length cur)) (word3 (fst nd)) idx total
    then let (d', p) =
           add_node d (hint (children_text (rev0 (nd :: cur)))) curlen'
         in
         mol hint d' [] N0 (N.add idx (Npos XH)) total rest (p :: parents)
    else mol hint d (nd :: cur) curlen' (N.add idx (Npos XH)) total rest
           parents

(** val merge_one_level :
    (n list -> hash) -> db -> node list -> db * node list **)

let merge_one_level hint d nodes =
  mol hint d [] N0 N0 (N.of_nat (length nodes)) nodes []

(** val merge_loop :
    (n list -> hash) -> nat -> db -> node list -> (db * node) option **)

let rec merge_loop hint fuel d nodes = match nodes with
| [] -> None
| r :: l ->
  (match l with
   | [] -> Some (d, r)
   | _ :: _ ->
     (match fuel with
      | O -> None
      | S f ->
        let (d', ps) = merge_one_level hint d nodes in merge_loop hint f d' ps))

(** val merge : (n list -> hash) -> db -> node list -> (db * node) option **)

let merge hint d nodes =
  merge_loop hint (length nodes) d nodes

(** val add_nodes : db -> node list -> db * node list **)

let rec add_nodes d = function
| [] -> (d, [])
| n0 :: r ->
  let (h, l) = n0 in
  let (d1, n1) = add_node d h l in
  let (d2, ns) = add_nodes d1 r in (d2, (n1 :: ns))

(** val cas_node_hash : (n list -> hash) -> node list -> hash option **)

let cas_node_hash hint chunks = match chunks with
| [] -> Some zero_hash
| _ :: _ ->
  let (d, ns) = add_nodes db0 chunks in
  (match merge hint d ns with
   | Some p -> let (_, r) = p in Some (fst r)
   | None -> None)

(** val validator_root : (n list -> hash) -> node list -> hash option **)

let validator_root hint chunks = match chunks with
| [] -> Some zero_hash
| _ :: _ ->
  let (d, ns) = add_nodes db0 chunks in
  (match merge hint d ns with
   | Some p ->
     let (d1, file_root) = p in
     let d2 =
       match merge hint d1 ns with
       | Some p0 -> let (d', _) = p0 in d'
       | None -> d1
     in
     (match merge hint d2 (file_root :: []) with
      | Some p0 -> let (_, r) = p0 in Some (fst r)
      | None -> None)
   | None -> None)

(** val file_node_hash : node list -> hash -> hash option **)

let file_node_hash chunks salt =
  match chunks with
  | [] -> Some zero_hash
  | _ :: _ ->
    (match cas_node_hash compute_internal_node_hash chunks with
     | Some r -> Some (with_salt r salt)
     | None -> None)

(** val hashed_write :
    bool -> (n list * n option) list -> n list -> n list -> n list * n list **)

let rec hashed_write hash_whole calls hashed accepted =
  match calls with
  | [] -> (hashed, accepted)
  | p :: rest ->
    let (buf, r) = p in
    (match r with
     | Some n0 ->
       let taken = firstn (N.to_nat n0) buf in
       hashed_write hash_whole rest
         (app hashed (if hash_whole then buf else taken)) (app accepted taken)
     | None ->
       if hash_whole
       then hashed_write hash_whole rest (app hashed buf) accepted
       else hashed_write hash_whole rest hashed accepted)
