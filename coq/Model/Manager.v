(* Executable model of mdb_shard::ShardFileManager's bookkeeping of registered shard files: the keyed shard collections,
   the capped in-memory chunk index (register_shards) and the routing of chunk_hash_dedup_query through it.
   A registered shard file is given at record level (its key and the blocks of its CAS section, chunk hashes as stored,
   i.e. already keyed); what the query finds inside one file is the record-level view of the on-disk lookup
   (Model/Shard.v: direct_rec; tied to the bytes by Proofs/DedupProofs.dedup_direct_is_rec).  No proofs. *)
From Coq Require Import NArith Bool List.
Import ListNotations.
From XetModel Require Import Base.Codec Gen.ShardLayout Gen.ManagerFacts Model.Merkle Model.Shard.
Open Scope N_scope.

(* a registered shard file (MDBShardFile): identity, key, the blocks of its CAS section *)
Record rshard := mkRS { sh_hash : hash; sh_key : hash; sh_cass : list cas_info }.

(* read_all_truncated_hashes of a shard file that carries its chunk lookup table: the sorted table *)
Definition sh_tbl (s : rshard) : list (N * (N * N)) := sort_by_key (chunk_lookup_tbl (sh_cass s) 0).

(* ChunkCacheElement *)
Record centry := mkCEl { e_start : N; e_off : N; e_shard : N }.

(* HashMap<u64, ChunkCacheElement>: insertion overwrites *)
Fixpoint amap_get {V} (k : N) (l : list (N * V)) : option V :=
  match l with [] => None | (k', v) :: r => if k =? k' then Some v else amap_get k r end.
Fixpoint amap_ins {V} (k : N) (v : V) (l : list (N * V)) : list (N * V) :=
  match l with [] => [(k, v)] | (k', v') :: r => if k =? k' then (k, v) :: r else (k', v') :: amap_ins k v r end.

Record coll := mkColl { k_key : hash; k_shards : list rshard; k_lookup : list (N * centry) }.
Record book := mkBook { b_colls : list coll; b_known : list hash; b_total : N }.
(* ShardBookkeeper::new: the collection without a key comes first *)
Definition book0 : book := mkBook [mkColl zero_hash [] []] [] 0.

Fixpoint find_coll (key : hash) (cs : list coll) (i : nat) : option nat :=
  match cs with [] => None | c :: r => if bytes_eqb (k_key c) key then Some i else find_coll key r (S i) end.
Fixpoint upd_nth {A} (i : nat) (g : A -> A) (l : list A) : list A :=
  match l, i with
  | [], _ => []
  | x :: r, O => g x :: r
  | x :: r, S j => x :: upd_nth j g r
  end.

(* the loop over insert_hashes: chunks past offset u16::MAX are skipped; the shard index is stored as u16 *)
Definition index_shard (s : rshard) (si : N) (lk : list (N * centry)) : list (N * centry) :=
  fold_left (fun l e => if 65535 <? snd (snd e) then l else amap_ins (fst e) (mkCEl (fst (snd e)) (snd (snd e)) (si mod 65536)) l) (sh_tbl s) lk.

(* register_shards, one shard ([cap] = CHUNK_INDEX_TABLE_MAX_SIZE).  [exact] = the generated fact "total_indexed_chunks is
   advanced by the growth of the table" (index_counts_inserted_entries); the other shape advances it by the size of the shard's
   whole table *)
Definition register_with (exact : bool) (cap : N) (b : book) (s : rshard) : book :=
  if existsb (bytes_eqb (sh_hash s)) (b_known b) then b
  else
    let colls := match find_coll (sh_key s) (b_colls b) 0 with Some _ => b_colls b | None => b_colls b ++ [mkColl (sh_key s) [] []] end in
    let ci := match find_coll (sh_key s) colls 0 with Some i => i | None => O end in
    let upd := b_total b <? cap in
    let old := match nth_error colls ci with Some c => N.of_nat (length (k_lookup c)) | None => 0 end in
    let colls' := upd_nth ci (fun c => mkColl (k_key c) (k_shards c ++ [s])
                                              (if upd then index_shard s (N.of_nat (length (k_shards c))) (k_lookup c) else k_lookup c)) colls in
    let new := match nth_error colls' ci with Some c => N.of_nat (length (k_lookup c)) | None => 0 end in
    mkBook colls' (sh_hash s :: b_known b) (b_total b + (if exact then new - old else if upd then N.of_nat (length (sh_tbl s)) else 0)).
Definition register : N -> book -> rshard -> book := register_with index_counts_inserted_entries.

(* one register_shards call with several files: they are registered from the newest to the oldest modification time (a stable
   sort of the argument list by descending time); [l] pairs each file with its modification time in seconds *)
Definition batch_order (l : list (N * rshard)) : list rshard :=
  map snd (sort_by_key (map (fun x => (18446744073709551616 - fst x, snd x)) l)).
Definition register_batch (cap : N) (b : book) (l : list (N * rshard)) : book := fold_left (register cap) (batch_order l) b.

(* the block whose header is record number [start] of the CAS section *)
Fixpoint block_at (cass : list cas_info) (start : N) : option cas_info :=
  match cass with
  | [] => None
  | c :: r => if start =? 0 then Some c
              else if start <? 1 + N.of_nat (length (ci_chunks c)) then None
              else block_at r (start - (1 + N.of_nat (length (ci_chunks c))))
  end.
(* MDBShardFile::chunk_hash_dedup_query_direct at record level *)
Definition sh_direct (s : rshard) (qs : list hash) (start off : N) : lookup_result (option (N * seg)) :=
  match block_at (sh_cass s) start with
  | Some c => if off <? N.of_nat (length (ci_chunks c)) then Found (direct_rec (sh_key s) c qs off) else IoError
  | None => IoError
  end.

(* ShardFileManager::chunk_hash_dedup_query over the registered shards (the in-memory shard is asked first; not here) *)
Fixpoint colls_query (cs : list coll) (qs : list hash) : lookup_result (option (N * seg)) :=
  match cs with
  | [] => Found None
  | c :: r =>
      match qs with
      | [] => Found None
      | q0 :: _ =>
          match amap_get (truncate_hash (keyed (k_key c) q0)) (k_lookup c) with
          | None => colls_query r qs
          | Some e =>
              match nth_error (k_shards c) (N.to_nat (e_shard e)) with
              | None => IoError
              | Some s => match sh_direct s qs (e_start e) (e_off e) with
                          | Found (Some a) => Found (Some a)
                          | Found None => colls_query r qs
                          | x => x
                          end
              end
          end
      end
  end.
Definition mgr_query (b : book) (qs : list hash) : lookup_result (option (N * seg)) := colls_query (b_colls b) qs.

(* the chunk hashes of a keyed export, as its CAS section stores them *)
Definition keyed_cass (key : hash) (cass : list cas_info) : list cas_info :=
  map (fun c => mkCI (ci_hash c) (ci_flags c) (ci_nbytes c) (ci_ndisk c)
                     (map (fun ch => mkCE (keyed key (ce_hash ch)) (ce_bytes ch) (ce_start ch) (ce_unused ch)) (ci_chunks c))) cass.

(* ---- the whole manager: the in-memory shard in front of the registered files ---- *)
Record mgr := mkMgr { g_mem : mshard; g_book : book; g_flushes : N }.
Definition mgr0 : mgr := mkMgr ms_empty book0 0.
(* MDBInMemoryShard::is_empty *)
Definition mem_is_empty (m : mshard) : bool := match ms_cass m, ms_files m with [], [] => true | _, _ => false end.
(* ShardFileManager::flush: the in-memory shard is written to a file (serialize_from: the blocks in key order, the sorted chunk
   table, no key), replaced by an empty one, and the file is registered.  The file's identity is the hash of its bytes, which
   include the creation time: the model gives every flush a fresh identity (two flushes of identical content within one second
   would share one; they would also answer every query alike) *)
Definition flushed_shard (g : mgr) : rshard := mkRS [g_flushes g; 1] zero_hash (ms_cass (g_mem g)).
Definition mgr_flush (cap : N) (g : mgr) : mgr :=
  if mem_is_empty (g_mem g) then g
  else mkMgr ms_empty (register cap (g_book g) (flushed_shard g)) (g_flushes g + 1).
(* ShardFileManager::add_cas_block / add_file_reconstruction_info ([target] = target_shard_min_size) *)
Definition mgr_add_cas (ra : bool) (cap target : N) (g : mgr) (c : cas_info) : mgr :=
  let g' := mkMgr (add_cas_block ra (g_mem g) c) (g_book g) (g_flushes g) in
  if target <=? shard_file_size (g_mem g') then mgr_flush cap g' else g'.
Definition mgr_add_file (ra : bool) (cap target : N) (g : mgr) (f : file_info) : mgr :=
  let g' := mkMgr (add_file_info ra (g_mem g) f) (g_book g) (g_flushes g) in
  if target <=? shard_file_size (g_mem g') then mgr_flush cap g' else g'.
Definition mgr_register (cap : N) (g : mgr) (s : rshard) : mgr := mkMgr (g_mem g) (register cap (g_book g) s) (g_flushes g).
(* ShardFileManager::chunk_hash_dedup_query: the in-memory shard first *)
Definition mgr_dedup (g : mgr) (qs : list hash) : lookup_result (option (N * seg)) :=
  match mem_dedup_query (g_mem g) qs with
  | Some a => Found (Some a)
  | None => mgr_query (g_book g) qs
  end.

Inductive gop := MAddCas (c : cas_info) | MAddFile (f : file_info) | MFlush | MRegister (s : rshard).
Definition mgr_step (ra : bool) (cap target : N) (g : mgr) (o : gop) : mgr :=
  match o with
  | MAddCas c => mgr_add_cas ra cap target g c
  | MAddFile f => mgr_add_file ra cap target g f
  | MFlush => mgr_flush cap g
  | MRegister s => mgr_register cap g s
  end.
Definition mgr_run (ra : bool) (cap target : N) (ops : list gop) : mgr := fold_left (mgr_step ra cap target) ops mgr0.
