(* An independent Gallina implementation of keyed BLAKE3 (the published construction:
   7-round compression over 16 u32 words, 64-byte blocks, 1024-byte chunks, binary tree with the
   left subtree holding the largest power of two of chunks, ROOT flag on the last compression).
   Executable; validated against the blake3 crate by the correspondence check and pinned values.
   Bytes are N (0..255); words are N < 2^32. *)
From Coq Require Import NArith Bool List.
Import ListNotations.
Open Scope N_scope.

Definition m32 : N := 0xFFFFFFFF.
Definition add32 (x y : N) : N := N.land (x + y) m32.
Definition rotr32 (x n : N) : N := N.lor (N.shiftr x n) (N.land (N.shiftl x (32 - n)) m32).

Definition IV : list N :=
  [0x6A09E667; 0xBB67AE85; 0x3C6EF372; 0xA54FF53A; 0x510E527F; 0x9B05688C; 0x1F83D9AB; 0x5BE0CD19].
Definition MSG_PERMUTATION : list nat := [2; 6; 3; 10; 7; 0; 4; 13; 1; 11; 12; 5; 9; 14; 15; 8]%nat.

Definition CHUNK_START : N := 1.
Definition CHUNK_END : N := 2.
Definition PARENT : N := 4.
Definition ROOT : N := 8.
Definition KEYED_HASH : N := 16.

Definition get (l : list N) (i : nat) : N := nth i l 0.
Fixpoint upd (l : list N) (i : nat) (v : N) : list N :=
  match l, i with
  | [], _ => []
  | _ :: r, O => v :: r
  | x :: r, S i' => x :: upd r i' v
  end.

Definition g (st : list N) (a b c d : nat) (mx my : N) : list N :=
  let va := get st a in let vb := get st b in let vc := get st c in let vd := get st d in
  let va := add32 (add32 va vb) mx in
  let vd := rotr32 (N.lxor vd va) 16 in
  let vc := add32 vc vd in
  let vb := rotr32 (N.lxor vb vc) 12 in
  let va := add32 (add32 va vb) my in
  let vd := rotr32 (N.lxor vd va) 8 in
  let vc := add32 vc vd in
  let vb := rotr32 (N.lxor vb vc) 7 in
  upd (upd (upd (upd st a va) b vb) c vc) d vd.

Definition round (st m : list N) : list N :=
  let st := g st 0 4 8 12 (get m 0) (get m 1) in
  let st := g st 1 5 9 13 (get m 2) (get m 3) in
  let st := g st 2 6 10 14 (get m 4) (get m 5) in
  let st := g st 3 7 11 15 (get m 6) (get m 7) in
  let st := g st 0 5 10 15 (get m 8) (get m 9) in
  let st := g st 1 6 11 12 (get m 10) (get m 11) in
  let st := g st 2 7 8 13 (get m 12) (get m 13) in
  g st 3 4 9 14 (get m 14) (get m 15).

Definition permute (m : list N) : list N := map (fun i => get m i) MSG_PERMUTATION.

Fixpoint rounds (n : nat) (st m : list N) : list N :=
  match n with
  | O => st
  | S O => round st m
  | S n' => rounds n' (round st m) (permute m)
  end.

(* compress: chaining value (8 words), block (16 words), counter (u64), block_len, flags -> 16 words *)
Definition compress (cv block : list N) (counter block_len flags : N) : list N :=
  let st := cv ++ firstn 4 IV ++ [N.land counter m32; N.land (N.shiftr counter 32) m32; block_len; flags] in
  let st := rounds 7 st block in
  map (fun i => N.lxor (get st i) (get st (i + 8))) (seq 0 8)
  ++ map (fun i => N.lxor (get st (i + 8)) (get cv i)) (seq 0 8).

Definition compress_cv (cv block : list N) (counter block_len flags : N) : list N :=
  firstn 8 (compress cv block counter block_len flags).

(* little-endian words from bytes (the byte list is zero-padded to a multiple of 4) *)
Fixpoint words_of_bytes (fuel : nat) (bs : list N) : list N :=
  match fuel with
  | O => []
  | S f =>
      match bs with
      | [] => []
      | b0 :: r0 =>
          match r0 with
          | [] => [b0]
          | b1 :: r1 =>
              match r1 with
              | [] => [b0 + N.shiftl b1 8]
              | b2 :: r2 =>
                  match r2 with
                  | [] => [b0 + N.shiftl b1 8 + N.shiftl b2 16]
                  | b3 :: r3 => (b0 + N.shiftl b1 8 + N.shiftl b2 16 + N.shiftl b3 24) :: words_of_bytes f r3
                  end
              end
          end
      end
  end.

Definition pad16 (ws : list N) : list N := firstn 16 (ws ++ repeat 0 16).
Definition block_words (bs : list N) : list N := pad16 (words_of_bytes 16 bs).

Definition bytes_of_word (w : N) : list N :=
  [N.land w 255; N.land (N.shiftr w 8) 255; N.land (N.shiftr w 16) 255; N.land (N.shiftr w 24) 255].
Definition bytes_of_words (ws : list N) : list N := flat_map bytes_of_word ws.

(* split a list into pieces of n elements (the last may be shorter); [] -> [] *)
Fixpoint chunks_of (fuel : nat) (n : nat) (l : list N) : list (list N) :=
  match fuel with
  | O => []
  | S f => match l with [] => [] | _ => firstn n l :: chunks_of f n (skipn n l) end
  end.

(* one chunk (<= 1024 bytes): fold the blocks; returns the chaining value after all blocks but the
   last, plus the last block and the flags for it, so the caller can add ROOT *)
Fixpoint chunk_blocks (key cv : list N) (blocks : list (list N)) (counter : N) (flags_start : N)
  : list N * list N * N * N (* cv, last block words, last block len, last flags *) :=
  match blocks with
  | [] => (cv, block_words [], 0, N.lor (N.lor KEYED_HASH flags_start) CHUNK_END)
  | [b] => (cv, block_words b, N.of_nat (length b), N.lor (N.lor KEYED_HASH flags_start) CHUNK_END)
  | b :: rest =>
      let cv' := compress_cv cv (block_words b) counter 64 (N.lor KEYED_HASH flags_start) in
      chunk_blocks key cv' rest counter 0
  end.

Definition chunk_output (key : list N) (chunk : list N) (counter : N) : list N * list N * N * N * N :=
  let '(cv, bw, bl, fl) := chunk_blocks key key (chunks_of 17 64 chunk) counter CHUNK_START in
  (cv, bw, counter, bl, fl).

(* an "output" = pending final compression (cv, block, counter, len, flags) *)
Definition out_cv (o : list N * list N * N * N * N) : list N :=
  let '(cv, bw, ctr, bl, fl) := o in compress_cv cv bw ctr bl fl.
Definition out_root (o : list N * list N * N * N * N) : list N :=
  let '(cv, bw, ctr, bl, fl) := o in bytes_of_words (firstn 8 (compress cv bw 0 bl (N.lor fl ROOT))).

Definition parent_output (key l r : list N) : list N * list N * N * N * N :=
  (key, l ++ r, 0, 64, N.lor KEYED_HASH PARENT).

(* largest power of two strictly less than n (n >= 2) *)
Fixpoint pow2_below (fuel : nat) (p n : nat) : nat :=
  match fuel with
  | O => p
  | S f => if Nat.ltb (2 * p) n then pow2_below f (2 * p) n else p
  end.

Fixpoint subtree (fuel : nat) (key : list N) (chunks : list (list N)) (first : N) : list N * list N * N * N * N :=
  match fuel with
  | O => chunk_output key [] first
  | S f =>
      match chunks with
      | [] => chunk_output key [] first
      | [c] => chunk_output key c first
      | _ =>
          let n := length chunks in
          let k := pow2_below n 1 n in
          let l := out_cv (subtree f key (firstn k chunks) first) in
          let r := out_cv (subtree f key (skipn k chunks) (first + N.of_nat k)) in
          parent_output key l r
      end
  end.

Definition key_words (key_bytes : list N) : list N := firstn 8 (words_of_bytes 8 key_bytes ++ repeat 0 8).

(* keyed_hash: 32 key bytes, any input -> 32 output bytes *)
Definition keyed_hash (key_bytes : list N) (input : list N) : list N :=
  let key := key_words key_bytes in
  let chunks := chunks_of (S (Nat.div (length input) 1024)) 1024%nat input in
  out_root (subtree (S (length chunks)) key chunks 0).
