(* Small-step model of utils::singleflight::Group::work (C20).
   Atomic actions: the map-lock sections (get_call_or_create, remove_call), the read-lock section of get_future (see the
   result, or register with the notifier), the write-lock section of complete (store the result and notify every
   registered waiter), the start and end of the owner task, the creator's join.  The environment decides when callers
   arrive, when a started task finishes and with which outcome (value, error, panic). *)
From Coq Require Import List NArith Bool Arith.
Import ListNotations.
Open Scope N_scope.

Inductive outcome := OVal (v : N) | OErr (e : N) | OPanic.
(* what complete() stores (an error is stored as its clone: WaiterInternalError) *)
Inductive stored := SVal (v : N) | SWErr (e : N) | SPanicked.
Inductive cres := RVal (v : N) | RWaiterErr (e : N) | RJoinErr | ROwnerPanicked | RNoResult | RCallMissing.

Definition store_of (o : outcome) : stored := match o with OVal v => SVal v | OErr e => SWErr e | OPanic => SPanicked end.
Definition cres_of (s : stored) : cres := match s with SVal v => RVal v | SWErr e => RWaiterErr e | SPanicked => ROwnerPanicked end.
(* the creator: join error if the task panicked, else the stored result *)
Definition creator_res (o : outcome) : cres := match o with OPanic => RJoinErr | _ => cres_of (store_of o) end.

Inductive tstate := TNotSpawned | TSpawned | TRunning | TGotOutcome (o : outcome) | TCompleted (o : outcome) | TExited (o : outcome).

Record call := { c_key : N; c_creator : nat; c_res : option stored; c_task : tstate }.

Inductive cpc :=
| CIdle                                              (* has not arrived *)
| CArrive (k : N)                                    (* next: the map lock *)
| CGotCall (k : N) (cid : nat) (created : bool)      (* next: get_future under the read lock *)
| CSpawn (k : N) (cid : nat) (n : bool)              (* creator, future obtained: next spawn the owner task *)
| CWait (k : N) (cid : nat) (created : bool) (notified : bool)
| CRemove (k : N) (cid : nat) (r : cres)             (* creator: next remove_call under the map lock *)
| CReturned (cid : nat) (r : cres) (owner : bool).

Record sfstate := {
  sf_map : N -> option nat;
  sf_calls : nat -> call;
  sf_next : nat;
  sf_callers : nat -> cpc }.

Definition upd {A} (f : nat -> A) (i : nat) (x : A) : nat -> A := fun j => if Nat.eqb j i then x else f j.
Definition updN {A} (f : N -> A) (i : N) (x : A) : N -> A := fun j => if N.eqb j i then x else f j.

Definition empty_call : call := {| c_key := 0; c_creator := 0; c_res := None; c_task := TNotSpawned |}.
Definition sf_init : sfstate :=
  {| sf_map := fun _ => None; sf_calls := fun _ => empty_call; sf_next := 0; sf_callers := fun _ => CIdle |}.

Definition set_caller (s : sfstate) (c : nat) (p : cpc) : sfstate :=
  {| sf_map := sf_map s; sf_calls := sf_calls s; sf_next := sf_next s; sf_callers := upd (sf_callers s) c p |}.
Definition set_call (s : sfstate) (cid : nat) (x : call) : sfstate :=
  {| sf_map := sf_map s; sf_calls := upd (sf_calls s) cid x; sf_next := sf_next s; sf_callers := sf_callers s |}.
Definition set_task (s : sfstate) (cid : nat) (t : tstate) : sfstate :=
  let x := sf_calls s cid in set_call s cid {| c_key := c_key x; c_creator := c_creator x; c_res := c_res x; c_task := t |}.

(* notify_waiters: every caller registered on this call becomes notified *)
Definition notify (callers : nat -> cpc) (cid : nat) : nat -> cpc :=
  fun c => match callers c with
           | CWait k cid' created _ => if Nat.eqb cid' cid then CWait k cid' created true else callers c
           | p => p
           end.

Inductive event :=
| EArrive (c : nat) (k : N)
| EStep (c : nat)                       (* caller c takes its next step *)
| ETaskStart (cid : nat)                (* the spawned owner task is first polled *)
| ETaskOutcome (cid : nat) (o : outcome) (* the supplied task finishes (environment) *)
| ETaskComplete (cid : nat)             (* complete(): store and notify under the write lock *)
| ETaskExit (cid : nat).                (* the owner task's handle becomes ready *)

Definition sf_step (s : sfstate) (e : event) : option sfstate :=
  match e with
  | EArrive c k => match sf_callers s c with CIdle => Some (set_caller s c (CArrive k)) | _ => None end
  | EStep c =>
      match sf_callers s c with
      | CArrive k =>
          match sf_map s k with
          | Some cid => Some (set_caller s c (CGotCall k cid false))
          | None =>
              let cid := sf_next s in
              Some {| sf_map := updN (sf_map s) k (Some cid);
                      sf_calls := upd (sf_calls s) cid {| c_key := k; c_creator := c; c_res := None; c_task := TNotSpawned |};
                      sf_next := S cid;
                      sf_callers := upd (sf_callers s) c (CGotCall k cid true) |}
          end
      | CGotCall k cid created =>
          match c_res (sf_calls s cid) with
          | Some r => Some (set_caller s c (if created then CSpawn k cid true else CReturned cid (cres_of r) false))
          | None => Some (set_caller s c (if created then CSpawn k cid false else CWait k cid false false))
          end
      | CSpawn k cid n => Some (set_caller (set_task s cid TSpawned) c (CWait k cid true n))
      | CWait k cid created true =>
          if created then
            match c_task (sf_calls s cid) with
            | TExited o =>
                let r := match o with
                         | OPanic => RJoinErr
                         | _ => match c_res (sf_calls s cid) with Some x => cres_of x | None => RNoResult end
                         end in
                Some (set_caller s c (CRemove k cid r))
            | _ => None
            end
          else
            Some (set_caller s c (CReturned cid (match c_res (sf_calls s cid) with Some x => cres_of x | None => RNoResult end) false))
      | CWait _ _ _ false => None
      | CRemove k cid r =>
          match sf_map s k with
          | Some _ => Some {| sf_map := updN (sf_map s) k None; sf_calls := sf_calls s; sf_next := sf_next s;
                              sf_callers := upd (sf_callers s) c (CReturned cid r true) |}
          | None => Some (set_caller s c (CReturned cid RCallMissing true))
          end
      | CIdle | CReturned _ _ _ => None
      end
  | ETaskStart cid => match c_task (sf_calls s cid) with TSpawned => Some (set_task s cid TRunning) | _ => None end
  | ETaskOutcome cid o => match c_task (sf_calls s cid) with TRunning => Some (set_task s cid (TGotOutcome o)) | _ => None end
  | ETaskComplete cid =>
      match c_task (sf_calls s cid) with
      | TGotOutcome o =>
          let x := sf_calls s cid in
          Some {| sf_map := sf_map s;
                  sf_calls := upd (sf_calls s) cid {| c_key := c_key x; c_creator := c_creator x; c_res := Some (store_of o); c_task := TCompleted o |};
                  sf_next := sf_next s;
                  sf_callers := notify (sf_callers s) cid |}
      | _ => None
      end
  | ETaskExit cid => match c_task (sf_calls s cid) with TCompleted o => Some (set_task s cid (TExited o)) | _ => None end
  end.

Fixpoint sf_run (s : sfstate) (es : list event) : option sfstate :=
  match es with
  | [] => Some s
  | e :: r => match sf_step s e with Some s' => sf_run s' r | None => None end
  end.
