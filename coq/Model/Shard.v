(* Executable model of mdb_shard: records, (de)serialisers built from the generated codecs
   (Gen/ShardLayout.v), the in-memory shard, serialize_from, the interpolation search, the on-disk
   lookups and dedup queries, keyed export and the record-level set operations.  No proofs here. *)
From Coq Require Import NArith Bool List.
Import ListNotations.
From XetModel Require Import Base.Codec Gen.ShardLayout Model.Merkle.
Open Scope N_scope.

Definition bookend_hash : hash := repeat 255 32%nat.
Fixpoint bytes_eqb (a b : list N) : bool :=
  match a, b with
  | [], [] => true
  | x :: a', y :: b' => (x =? y) && bytes_eqb a' b'
  | _, _ => false
  end.

(* MerkleHash order = lexicographic order of the four little-endian u64 words *)
Definition hwords (h : hash) : list N :=
  [le_val (firstn 8 h); le_val (firstn 8 (skipn 8 h)); le_val (firstn 8 (skipn 16 h)); le_val (firstn 8 (skipn 24 h))].
Fixpoint words_cmp (a b : list N) : comparison :=
  match a, b with
  | [], [] => Eq
  | [], _ => Lt
  | _, [] => Gt
  | x :: a', y :: b' => match x ?= y with Eq => words_cmp a' b' | c => c end
  end.
Definition hash_cmp (a b : hash) : comparison := words_cmp (hwords a) (hwords b).
Definition truncate_hash (h : hash) : N := le_val (firstn 8 h).

Record seg := mkSeg { sg_cas : hash; sg_flags : N; sg_bytes : N; sg_start : N; sg_end : N }.
Record file_info := mkFI { fi_hash : hash; fi_flags : N; fi_unused : N; fi_segs : list seg; fi_verif : list hash; fi_ext : option hash }.
Record chunk_ent := mkCE { ce_hash : hash; ce_bytes : N; ce_start : N; ce_unused : N }.
Record cas_info := mkCI { ci_hash : hash; ci_flags : N; ci_nbytes : N; ci_ndisk : N; ci_chunks : list chunk_ent }.

Definition has_verif (flags : N) : bool := negb (N.land flags MDB_FILE_FLAG_VERIFICATION_MASK =? 0).
Definition has_ext (flags : N) : bool := negb (N.land flags MDB_FILE_FLAG_METADATA_EXT_MASK =? 0).

(* ---- record serialisers (MDBFileInfo::serialize, MDBCASInfo::serialize) ---- *)
Definition ser_seg (s : seg) : list N :=
  ser_FileDataSequenceEntry (sg_cas s) (sg_flags s) (sg_bytes s) (sg_start s) (sg_end s).
Definition ser_file_info (f : file_info) : list N :=
  ser_FileDataSequenceHeader (fi_hash f) (fi_flags f) (N.of_nat (length (fi_segs f))) (fi_unused f)
  ++ flat_map ser_seg (fi_segs f)
  ++ (if has_verif (fi_flags f) then flat_map (fun h => ser_FileVerificationEntry h [0; 0]) (fi_verif f) else [])
  ++ match fi_ext f with Some h => ser_FileMetadataExt h [0; 0] | None => [] end.
Definition ser_chunk (c : chunk_ent) : list N :=
  ser_CASChunkSequenceEntry (ce_hash c) (ce_bytes c) (ce_start c) (ce_unused c).
Definition ser_cas_info (c : cas_info) : list N :=
  ser_CASChunkSequenceHeader (ci_hash c) (ci_flags c) (N.of_nat (length (ci_chunks c))) (ci_nbytes c) (ci_ndisk c)
  ++ flat_map ser_chunk (ci_chunks c).
Definition file_bookend : list N := ser_FileDataSequenceHeader bookend_hash 0 0 0.
Definition cas_bookend : list N := ser_CASChunkSequenceHeader bookend_hash 0 0 0 0.

Definition file_info_num_bytes (f : file_info) : N :=
  48 + 48 * (N.of_nat (length (fi_segs f)) * (if has_verif (fi_flags f) then 2 else 1) + (if has_ext (fi_flags f) then 1 else 0)).
Definition cas_info_num_bytes (c : cas_info) : N := 48 + 48 * N.of_nat (length (ci_chunks c)).

(* ---- record parsers ---- *)
Fixpoint parse_n {A} (p : list N -> option (A * list N)) (n : nat) (bs : list N) : option (list A * list N) :=
  match n with
  | O => Some ([], bs)
  | S n' => match p bs with
            | None => None
            | Some (a, r) => match parse_n p n' r with Some (l, r') => Some (a :: l, r') | None => None end
            end
  end.
Definition enough (n : N) (bs : list N) : bool := n * 48 <=? N.of_nat (length bs).

Definition parse_seg (bs : list N) : option (seg * list N) :=
  match de_FileDataSequenceEntry bs with
  | Some ((h, fl, b, s, e), r) => Some (mkSeg h fl b s e, r)
  | None => None
  end.
Definition parse_verif (bs : list N) : option (hash * list N) :=
  match de_FileVerificationEntry bs with Some ((h, _), r) => Some (h, r) | None => None end.
Definition parse_chunk (bs : list N) : option (chunk_ent * list N) :=
  match de_CASChunkSequenceEntry bs with
  | Some ((h, b, s, u), r) => Some (mkCE h b s u, r)
  | None => None
  end.

(* MDBFileInfo::deserialize: Some (None, _) = bookend *)
Definition parse_file_info (bs : list N) : option (option file_info * list N) :=
  match de_FileDataSequenceHeader bs with
  | None => None
  | Some ((h, fl, n, u), r) =>
      if bytes_eqb h bookend_hash then Some (None, r)
      else if negb (enough n r) then None
      else match parse_n parse_seg (N.to_nat n) r with
           | None => None
           | Some (segs, r1) =>
               match (if has_verif fl then (if enough n r1 then parse_n parse_verif (N.to_nat n) r1 else None) else Some ([], r1)) with
               | None => None
               | Some (ver, r2) =>
                   if has_ext fl then
                     match de_FileMetadataExt r2 with
                     | Some ((sha, _), r3) => Some (Some (mkFI h fl u segs ver (Some sha)), r3)
                     | None => None
                     end
                   else Some (Some (mkFI h fl u segs ver None), r2)
               end
           end
  end.
Definition parse_cas_info (bs : list N) : option (option cas_info * list N) :=
  match de_CASChunkSequenceHeader bs with
  | None => None
  | Some ((h, fl, n, nb, nd), r) =>
      if bytes_eqb h bookend_hash then Some (None, r)
      else if negb (enough n r) then None
      else match parse_n parse_chunk (N.to_nat n) r with
           | Some (chs, r1) => Some (Some (mkCI h fl nb nd chs), r1)
           | None => None
           end
  end.

(* read until the bookend; fuel = number of 48-byte records available *)
Fixpoint parse_all {A} (p : list N -> option (option A * list N)) (fuel : nat) (bs : list N) : option (list A * list N) :=
  match fuel with
  | O => None
  | S f => match p bs with
           | None => None
           | Some (None, r) => Some ([], r)
           | Some (Some a, r) => match parse_all p f r with Some (l, r') => Some (a :: l, r') | None => None end
           end
  end.
Definition fuel_of (bs : list N) : nat := S (Nat.div (length bs) 48).

(* ---- the in-memory shard ---- *)
Record mshard := mkMS {
  ms_files : list file_info;                 (* BTreeMap: sorted by hash, unique *)
  ms_cass : list cas_info;                   (* BTreeMap: sorted by hash, unique *)
  ms_lookup : list (N * (cas_info * N));     (* HashMap chunk hash -> (block, index): newest binding first *)
  ms_size : N                                (* current_shard_file_size *)
}.
Definition ms_empty : mshard := mkMS [] [] [] 0.

Fixpoint ins_file (f : file_info) (l : list file_info) : list file_info :=
  match l with
  | [] => [f]
  | g :: r => match hash_cmp (fi_hash f) (fi_hash g) with
              | Lt => f :: l
              | Eq => f :: r
              | Gt => g :: ins_file f r
              end
  end.
Fixpoint ins_cas (c : cas_info) (l : list cas_info) : list cas_info :=
  match l with
  | [] => [c]
  | g :: r => match hash_cmp (ci_hash c) (ci_hash g) with
              | Lt => c :: l
              | Eq => c :: r
              | Gt => g :: ins_cas c r
              end
  end.
Fixpoint find_file (h : hash) (l : list file_info) : option file_info :=
  match l with
  | [] => None
  | g :: r => if bytes_eqb h (fi_hash g) then Some g else find_file h r
  end.
Fixpoint find_cas (h : hash) (l : list cas_info) : option cas_info :=
  match l with
  | [] => None
  | g :: r => if bytes_eqb h (ci_hash g) then Some g else find_cas h r
  end.
Fixpoint lk_find (k : N) (l : list (N * (cas_info * N))) : option (cas_info * N) :=
  match l with
  | [] => None
  | (k', v) :: r => if k =? k' then Some v else lk_find k r
  end.
Fixpoint lk_count_unique (l : list (N * (cas_info * N))) : N :=
  match l with
  | [] => 0
  | (k, _) :: r => (match lk_find k r with Some _ => 0 | None => 1 end) + lk_count_unique r
  end.

Fixpoint lk_add_chunks (c : cas_info) (chs : list chunk_ent) (i : N) (l : list (N * (cas_info * N))) : list (N * (cas_info * N)) :=
  match chs with
  | [] => l
  | ch :: r => lk_add_chunks c r (i + 1) ((hkey (ce_hash ch), (c, i)) :: l)
  end.

(* the size bookkeeping of add_cas_block / add_file_reconstruction_info; [replace_aware] = the
   generated fact "an overwritten record's size is subtracted" *)
Definition cas_entry_cost (c : cas_info) : N := cas_info_num_bytes c + 12 + 16 * N.of_nat (length (ci_chunks c)).
Definition file_entry_cost (f : file_info) : N := file_info_num_bytes f + 12.

Definition add_cas_block (replace_aware : bool) (m : mshard) (c : cas_info) : mshard :=
  let old := if replace_aware then match find_cas (ci_hash c) (ms_cass m) with Some o => cas_entry_cost o | None => 0 end else 0 in
  mkMS (ms_files m) (ins_cas c (ms_cass m)) (lk_add_chunks c (ci_chunks c) 0 (ms_lookup m)) (ms_size m + cas_entry_cost c - old).
Definition add_file_info (replace_aware : bool) (m : mshard) (f : file_info) : mshard :=
  let old := if replace_aware then match find_file (fi_hash f) (ms_files m) with Some o => file_entry_cost o | None => 0 end else 0 in
  mkMS (ins_file f (ms_files m)) (ms_cass m) (ms_lookup m) (ms_size m + file_entry_cost f - old).

Definition NON_CONTENT_SIZE : N := 200 + 48 + 48 + 48.
Definition shard_file_size (m : mshard) : N := ms_size m + NON_CONTENT_SIZE.

(* recalculate_shard_size: [per_occurrence] = the generated fact "chunk table entries are counted per
   occurrence (as serialised)" instead of per unique chunk hash *)
Definition recalc_size (per_occurrence : bool) (m : mshard) : N :=
  fold_right (fun c acc => cas_info_num_bytes c + 12 + acc) 0 (ms_cass m)
  + fold_right (fun f acc => file_entry_cost f + acc) 0 (ms_files m)
  + 16 * (if per_occurrence then fold_right (fun c acc => N.of_nat (length (ci_chunks c)) + acc) 0 (ms_cass m)
          else lk_count_unique (ms_lookup m)).

(* MDBFileInfo::merge_from *)
Definition merge_from (a b : file_info) : file_info :=
  let a1 := if negb (Bool.eqb (has_verif (fi_flags a)) (has_verif (fi_flags b))) && has_verif (fi_flags b)
            then mkFI (fi_hash a) (N.lor (fi_flags a) MDB_FILE_FLAG_WITH_VERIFICATION) (fi_unused a) (fi_segs a) (fi_verif b) (fi_ext a) else a in
  if negb (Bool.eqb (has_ext (fi_flags a1)) (has_ext (fi_flags b))) && has_ext (fi_flags b)
  then mkFI (fi_hash a1) (N.lor (fi_flags a1) MDB_FILE_FLAG_WITH_METADATA_EXT) (fi_unused a1) (fi_segs a1) (fi_verif a1) (fi_ext b) else a1.

(* MDBInMemoryShard::union / difference *)
Definition mem_union (per_occ : bool) (a b : mshard) : mshard :=
  let cass := fold_left (fun acc c => ins_cas c acc) (ms_cass b) (ms_cass a) in
  let files := fold_left (fun acc f => match find_file (fi_hash f) acc with
                                       | Some old => ins_file (merge_from old f) acc
                                       | None => ins_file f acc end) (ms_files b) (ms_files a) in
  let lk := ms_lookup b ++ ms_lookup a in
  let m := mkMS files cass lk 0 in
  mkMS files cass lk (recalc_size per_occ m).
Definition mem_difference (per_occ : bool) (a b : mshard) : mshard :=
  let cass := filter (fun c => match find_cas (ci_hash c) (ms_cass a) with Some _ => false | None => true end) (ms_cass b) in
  let files := filter (fun f => match find_file (fi_hash f) (ms_files a) with Some _ => false | None => true end) (ms_files b) in
  let lk := filter (fun kv => match lk_find (fst kv) (ms_lookup a) with Some _ => false | None => true end) (ms_lookup b) in
  let m := mkMS files cass lk 0 in
  mkMS files cass lk (recalc_size per_occ m).

(* in-memory dedup query *)
Fixpoint match_run (chs : list chunk_ent) (qs : list hash) : list chunk_ent :=
  match chs, qs with
  | c :: cr, q :: qr => if bytes_eqb (ce_hash c) q then c :: match_run cr qr else []
  | _, _ => []
  end.
Definition sum_bytes32 (l : list chunk_ent) : N := fold_right (fun c acc => ce_bytes c + acc) 0 l.
Definition mem_dedup_query (m : mshard) (qs : list hash) : option (N * seg) :=
  match qs with
  | [] => None
  | q0 :: _ =>
      match lk_find (hkey q0) (ms_lookup m) with
      | None => None
      | Some (c, start) =>
          let run := match_run (skipn (N.to_nat start) (ci_chunks c)) qs in
          let n := N.of_nat (length run) in
          Some (n, match run with
                   | [] => mkSeg zero_hash 0 0 0 0      (* from_cas_entries on an empty slice: default *)
                   | _ => mkSeg (ci_hash c) (ci_flags c) (sum_bytes32 run) start (start + n)
                   end)
      end
  end.

(* ---- serialize_from ---- *)
Fixpoint file_lookup_tbl (fs : list file_info) (idx : N) : list (N * N) :=
  match fs with
  | [] => []
  | f :: r => (truncate_hash (fi_hash f), idx) :: file_lookup_tbl r (idx + file_info_num_bytes f / 48)
  end.
Fixpoint cas_lookup_tbl (cs : list cas_info) (idx : N) : list (N * N) :=
  match cs with
  | [] => []
  | c :: r => (truncate_hash (ci_hash c), idx) :: cas_lookup_tbl r (idx + 1 + N.of_nat (length (ci_chunks c)))
  end.
Fixpoint chunk_tbl_of (c : cas_info) (chs : list chunk_ent) (idx i : N) : list (N * (N * N)) :=
  match chs with
  | [] => []
  | ch :: r => (truncate_hash (ce_hash ch), (idx, i)) :: chunk_tbl_of c r idx (i + 1)
  end.
Fixpoint chunk_lookup_tbl (cs : list cas_info) (idx : N) : list (N * (N * N)) :=
  match cs with
  | [] => []
  | c :: r => chunk_tbl_of c (ci_chunks c) idx 0 ++ chunk_lookup_tbl r (idx + 1 + N.of_nat (length (ci_chunks c)))
  end.
(* a stable insertion sort by key; the real code uses an unstable sort, so only the order of keys and
   the multiset under each key is compared with the implementation *)
Fixpoint ins_key {V} (e : N * V) (l : list (N * V)) : list (N * V) :=
  match l with
  | [] => [e]
  | x :: r => if fst e <=? fst x then e :: l else x :: ins_key e r
  end.
Definition sort_by_key {V} (l : list (N * V)) : list (N * V) := fold_right ins_key [] l.

Definition ser_lookup12 (t : list (N * N)) : list N := flat_map (fun e => u64 (fst e) ++ u32 (snd e)) t.
Definition ser_lookup16 (t : list (N * (N * N))) : list N := flat_map (fun e => u64 (fst e) ++ u32 (fst (snd e)) ++ u32 (snd (snd e))) t.

Definition u64max : N := 18446744073709551615.
Definition sum_ndisk (cs : list cas_info) : N := fold_right (fun c acc => ci_ndisk c + acc) 0 cs.
Definition sum_nbytes (cs : list cas_info) : N := fold_right (fun c acc => ci_nbytes c + acc) 0 cs.
Definition sum_materialized (fs : list file_info) : N :=
  fold_right (fun f acc => fold_right (fun s a => sg_bytes s + a) 0 (fi_segs f) + acc) 0 fs.

Definition serialize_with (files : list file_info) (cass : list cas_info) (chunk_tbl : list (N * (N * N)))
           (with_file_tbl with_cas_tbl : bool) (key : hash) (created expiry : N) : list N :=
  let hdr := ser_MDBShardFileHeader MDB_SHARD_HEADER_TAG MDB_SHARD_HEADER_VERSION 200 in
  let fsec := flat_map ser_file_info files ++ file_bookend in
  let csec := flat_map ser_cas_info cass ++ cas_bookend in
  let ftbl := if with_file_tbl then file_lookup_tbl files 0 else [] in
  let ctbl := if with_cas_tbl then cas_lookup_tbl cass 0 else [] in
  let o1 := 48 in
  let o2 := o1 + N.of_nat (length fsec) in
  let o3 := o2 + N.of_nat (length csec) in
  let o4 := o3 + 12 * N.of_nat (length ftbl) in
  let o5 := o4 + 12 * N.of_nat (length ctbl) in
  let o6 := o5 + 16 * N.of_nat (length chunk_tbl) in
  hdr ++ fsec ++ csec ++ ser_lookup12 ftbl ++ ser_lookup12 ctbl ++ ser_lookup16 chunk_tbl
  ++ ser_MDBShardFileFooter MDB_SHARD_FOOTER_VERSION o1 o2 o3 (N.of_nat (length ftbl)) o4 (N.of_nat (length ctbl)) o5 (N.of_nat (length chunk_tbl))
       key created expiry [0; 0; 0; 0; 0; 0] (sum_ndisk cass) (sum_materialized files) (sum_nbytes cass) o6.

Definition serialize_from (m : mshard) : list N :=
  serialize_with (ms_files m) (ms_cass m) (sort_by_key (chunk_lookup_tbl (ms_cass m) 0)) true true zero_hash 0 u64max.

(* ---- the interpolation search (search_on_sorted_u64s), for any probe oracle ---- *)
Section Search.
  Context {V : Type}.
  Variable probe : N -> N -> N -> N -> N -> N.    (* lo lo_key hi hi_key key: the float estimate, unclamped *)
  Variable tbl : list (N * V).

  Definition entry (pos : N) : option (N * V) := nth_error tbl (N.to_nat (pos - 1)).
  Definition clamp (lo hi x : N) : N := N.min (N.max x (lo + 1)) (hi - 1).

  Fixpoint read_ahead (key : N) (n : nat) (l : list (N * V)) : list V :=
    match n, l with
    | S n', (k, v) :: r => if k =? key then v :: read_ahead key n' r else []
    | _, _ => []
    end.

  Fixpoint loop1 (fuel : nat) (key lo lo_key hi hi_key pi : N) (acc : list V) : option (N * N * list V) :=
    if lo + READ_WINDOW_SIZE <? hi then
      match fuel with
      | O => None
      | S f =>
          match entry pi with
          | None => None
          | Some (pk, pv) =>
              match key ?= pk with
              | Lt =>
                  let cand := clamp lo pi (probe lo lo_key pi pk key) in
                  let pi' := if pi <? cand + READ_WINDOW_SIZE then pi - N.min READ_WINDOW_SIZE (pi - (lo + 1)) else cand in
                  loop1 f key lo lo_key pi pk pi' acc
              | Eq =>
                  let acc' := acc ++ pv :: read_ahead key (N.to_nat (hi - pi - 1)) (skipn (N.to_nat pi) tbl) in
                  let pi' := pi - N.min EXPECTED_MAX_NUM_DUPLICATES (pi - (lo + 1)) in
                  loop1 f key lo lo_key pi pk pi' acc'
              | Gt =>
                  let cand := clamp pi hi (probe pi pk hi hi_key key) in
                  let pi' := if cand - pi <=? READ_WINDOW_SIZE then N.min (pi + READ_WINDOW_SIZE) (hi - 1) else cand in
                  loop1 f key pi pk hi hi_key pi' acc
              end
          end
      end
    else Some (lo, hi, acc).

  Fixpoint scan_window (key : N) (n : nat) (l : list (N * V)) (acc : list V) : list V :=
    match n, l with
    | S n', (k, v) :: r =>
        match key ?= k with
        | Lt => acc
        | Eq => scan_window key n' r (acc ++ [v])
        | Gt => scan_window key n' r acc
        end
    | _, _ => acc
    end.

  Definition search (cap : nat) (key : N) : option (list V) :=
    match cap with
    | O => Some []
    | _ =>
        let n := N.of_nat (length tbl) in
        let hi := n + 1 in
        let pi := clamp 0 hi (probe 0 0 hi u64max key) in
        match loop1 (S (length tbl)) key 0 0 hi u64max pi [] with
        | None => None
        | Some (lo, hi', acc) => Some (firstn cap (scan_window key (N.to_nat (hi' - lo - 1)) (skipn (N.to_nat lo) tbl) acc))
        end
    end.
End Search.

(* the executable probe: exact-rational interpolation (the code uses f64; the search result does not
   depend on the probe, which is what the theorem says and the correspondence confirms) *)
Definition probe_exact (lo lo_key hi hi_key key : N) : N :=
  if hi_key - lo_key =? 0 then lo else lo + (key - lo_key) * (hi - lo) / (hi_key - lo_key).

(* ---- the on-disk shard ---- *)
Record footer := mkFooter {
  ft_version : N; ft_file_info_offset : N; ft_cas_info_offset : N; ft_file_lookup_offset : N; ft_file_lookup_num : N;
  ft_cas_lookup_offset : N; ft_cas_lookup_num : N; ft_chunk_lookup_offset : N; ft_chunk_lookup_num : N;
  ft_key : hash; ft_created : N; ft_expiry : N; ft_buffer : list N; ft_ondisk : N; ft_materialized : N; ft_stored : N; ft_footer_offset : N }.

(* MDBShardInfo::load_from_reader: header at 0, footer at End(-200) *)
Definition load_footer (bs : list N) : option footer :=
  match de_MDBShardFileHeader bs with
  | None => None
  | Some ((tag, ver, fsz), _) =>
      if negb (bytes_eqb tag MDB_SHARD_HEADER_TAG) then None
      else if negb (has 200 bs) then None
      else match de_MDBShardFileFooter (skipn (length bs - 200) bs) with
           | Some ((v, a, b, c, d, e, f, g, h, k, t, x, buf, s1, s2, s3, fo), _) =>
               if v =? MDB_SHARD_FOOTER_VERSION then Some (mkFooter v a b c d e f g h k t x buf s1 s2 s3 fo) else None
           | None => None
           end
  end.

Definition read_tbl12 (bs : list N) (off num : N) : list (N * N) :=
  let fix go (n : nat) (l : list N) : list (N * N) :=
    match n with
    | O => []
    | S n' => if has 12 l then (le_val (firstn 8 l), le_val (firstn 4 (skipn 8 l))) :: go n' (skipn 12 l) else []
    end in
  if N.of_nat (length bs) <? off + 12 * num then [] else go (N.to_nat num) (skipn (N.to_nat off) bs).
Definition read_tbl16 (bs : list N) (off num : N) : list (N * (N * N)) :=
  let fix go (n : nat) (l : list N) : list (N * (N * N)) :=
    match n with
    | O => []
    | S n' => if has 16 l then (le_val (firstn 8 l), (le_val (firstn 4 (skipn 8 l)), le_val (firstn 4 (skipn 12 l)))) :: go n' (skipn 16 l) else []
    end in
  if N.of_nat (length bs) <? off + 16 * num then [] else go (N.to_nat num) (skipn (N.to_nat off) bs).

Definition read_all_files (bs : list N) (ft : footer) : option (list file_info) :=
  let sec := skipn (N.to_nat (ft_file_info_offset ft)) bs in
  match parse_all parse_file_info (fuel_of sec) sec with Some (l, _) => Some l | None => None end.
Definition read_all_cas (bs : list N) (ft : footer) : option (list cas_info) :=
  let sec := skipn (N.to_nat (ft_cas_info_offset ft)) bs in
  match parse_all parse_cas_info (fuel_of sec) sec with Some (l, _) => Some l | None => None end.

(* ---- the streaming walk (streaming_shard::process_shard_stream): the header (tag checked), then each section record by
   record up to its bookend, without the footer or the lookup tables.  A record is handed to the callback as its bytes
   (header and entries); a section that ends before its record does is an error. ---- *)
Definition blob_file (bs : list N) : option (option (list N) * list N) :=
  match de_FileDataSequenceHeader bs with
  | None => None
  | Some ((h, fl, n, _), r) =>
      if bytes_eqb h bookend_hash then Some (None, r)
      else let k := n * (if has_verif fl then 2 else 1) + (if has_ext fl then 1 else 0) in
           if enough k r then Some (Some (firstn (48 + N.to_nat (k * 48)) bs), skipn (N.to_nat (k * 48)) r) else None
  end.
Definition blob_cas (bs : list N) : option (option (list N) * list N) :=
  match de_CASChunkSequenceHeader bs with
  | None => None
  | Some ((h, _, n, _, _), r) =>
      if bytes_eqb h bookend_hash then Some (None, r)
      else if enough n r then Some (Some (firstn (48 + N.to_nat (n * 48)) bs), skipn (N.to_nat (n * 48)) r) else None
  end.
Definition stream_walk (bs : list N) : option (list (list N) * list (list N)) :=
  match de_MDBShardFileHeader bs with
  | None => None
  | Some ((tag, _, _), r) =>
      if negb (bytes_eqb tag MDB_SHARD_HEADER_TAG) then None
      else match parse_all blob_file (fuel_of r) r with
           | None => None
           | Some (fl, r1) => match parse_all blob_cas (fuel_of r1) r1 with
                              | None => None
                              | Some (cl, _) => Some (fl, cl)
                              end
           end
  end.

(* MDBMinimalShard::from_reader, the reader built on the walk: the header is checked; the records of the file section are
   copied into the buffer (when asked to) and where each begins is noted; the end marker is appended; the same for the xorb
   section, which is not even read when not asked for; the end marker again. *)
Fixpoint offsets_from (pos : N) (blobs : list (list N)) : list N :=
  match blobs with [] => [] | b :: r => pos :: offsets_from (pos + N.of_nat (length b)) r end.
Record minimal := mkMin { mn_data : list N; mn_file_offsets : list N; mn_cas_offsets : list N; mn_cas_info_start : N }.
Definition minimal_from_reader (bs : list N) (include_files include_cas : bool) : option minimal :=
  match de_MDBShardFileHeader bs with
  | None => None
  | Some ((tag, _, _), r) =>
      if negb (bytes_eqb tag MDB_SHARD_HEADER_TAG) then None
      else match parse_all blob_file (fuel_of r) r with
           | None => None
           | Some (fl, r1) =>
               let fkeep := if include_files then fl else [] in
               let d1 := concat fkeep ++ file_bookend in
               let start := N.of_nat (length d1) in
               if include_cas then
                 match parse_all blob_cas (fuel_of r1) r1 with
                 | None => None
                 | Some (cl, _) => Some (mkMin (d1 ++ concat cl ++ cas_bookend) (offsets_from 0 fkeep) (offsets_from start cl) start)
                 end
               else Some (mkMin (d1 ++ cas_bookend) (offsets_from 0 fkeep) [] start)
           end
  end.

(* MDBShardFile::export_with_expiration: the bytes up to the footer offset, followed by the footer with a new expiry *)
Definition ser_footer (ft : footer) : list N :=
  ser_MDBShardFileFooter (ft_version ft) (ft_file_info_offset ft) (ft_cas_info_offset ft) (ft_file_lookup_offset ft) (ft_file_lookup_num ft)
    (ft_cas_lookup_offset ft) (ft_cas_lookup_num ft) (ft_chunk_lookup_offset ft) (ft_chunk_lookup_num ft)
    (ft_key ft) (ft_created ft) (ft_expiry ft) (ft_buffer ft) (ft_ondisk ft) (ft_materialized ft) (ft_stored ft) (ft_footer_offset ft).
Definition set_expiry (ft : footer) (e : N) : footer :=
  mkFooter (ft_version ft) (ft_file_info_offset ft) (ft_cas_info_offset ft) (ft_file_lookup_offset ft) (ft_file_lookup_num ft)
    (ft_cas_lookup_offset ft) (ft_cas_lookup_num ft) (ft_chunk_lookup_offset ft) (ft_chunk_lookup_num ft)
    (ft_key ft) (ft_created ft) e (ft_buffer ft) (ft_ondisk ft) (ft_materialized ft) (ft_stored ft) (ft_footer_offset ft).
Definition export_with_expiration (bs : list N) (ft : footer) (e : N) : list N :=
  firstn (N.to_nat (ft_footer_offset ft)) bs ++ ser_footer (set_expiry ft e).

Inductive lookup_result (A : Type) := Found (a : A) | NotFound | CollisionError | IoError.
Arguments Found {A} _. Arguments NotFound {A}. Arguments CollisionError {A}. Arguments IoError {A}.

Definition file_at (bs : list N) (ft : footer) (idx : N) : option file_info :=
  match parse_file_info (skipn (N.to_nat (ft_file_info_offset ft + 48 * idx)) bs) with
  | Some (Some f, _) => Some f
  | _ => None
  end.

(* get_file_reconstruction_info *)
Definition get_file_info (probe : N -> N -> N -> N -> N -> N) (bs : list N) (ft : footer) (h : hash) : lookup_result file_info :=
  let tbl := read_tbl12 bs (ft_file_lookup_offset ft) (ft_file_lookup_num ft) in
  match search probe tbl 8 (truncate_hash h) with
  | None => IoError
  | Some idxs =>
      if Nat.leb 8 (length idxs) then CollisionError
      else (fix go (l : list N) : lookup_result file_info :=
              match l with
              | [] => NotFound
              | i :: r => match file_at bs ft i with
                          | None => IoError
                          | Some f => if bytes_eqb (fi_hash f) h then Found f else go r
                          end
              end) idxs
  end.

Definition keyed (key h : hash) : hash := if bytes_eqb key zero_hash then h else hmac h key.

(* chunk_hash_dedup_query_direct *)
Fixpoint direct_loop (key ch : hash) (cfl n off : N) (fuel : nat) (i : N) (qs' : list hash) (r' : list N) (nb : N)
  : lookup_result (option (N * seg)) :=
  match fuel with
  | O => IoError
  | S f =>
      if off + i =? n then Found (Some (i, mkSeg ch cfl nb off (off + i)))
      else match parse_chunk r' with
           | None => IoError
           | Some (c, r'') =>
               match qs' with
               | [] => Found (Some (i, mkSeg ch cfl nb off (off + i)))
               | q :: qr => if bytes_eqb (ce_hash c) (keyed key q)
                            then direct_loop key ch cfl n off f (i + 1) qr r'' (nb + ce_bytes c)
                            else Found (Some (i, mkSeg ch cfl nb off (off + i)))
               end
           end
  end.

Definition dedup_direct (bs : list N) (ft : footer) (qs : list hash) (cas_idx off : N) : lookup_result (option (N * seg)) :=
  match qs with
  | [] => Found None
  | q0 :: qrest =>
      match de_CASChunkSequenceHeader (skipn (N.to_nat (ft_cas_info_offset ft + 48 * cas_idx)) bs) with
      | None => IoError
      | Some ((ch, cfl, n, _, _), r) =>
          let r := skipn (48 * N.to_nat off) r in
          match parse_chunk r with
          | None => IoError
          | Some (c0, r1) =>
              if negb (bytes_eqb (ce_hash c0) (keyed (ft_key ft) q0)) then Found None
              else direct_loop (ft_key ft) ch cfl n off (S (length qs)) 1 qrest r1 (ce_bytes c0)
          end
      end
  end.

(* chunk_hash_dedup_query *)
Definition dedup_query (probe : N -> N -> N -> N -> N -> N) (bs : list N) (ft : footer) (qs : list hash) : lookup_result (option (N * seg)) :=
  match qs with
  | [] => Found None
  | q0 :: _ =>
      if ft_chunk_lookup_num ft =? 0 then Found None
      else
        let tbl := read_tbl16 bs (ft_chunk_lookup_offset ft) (ft_chunk_lookup_num ft) in
        match search probe tbl 8 (truncate_hash (keyed (ft_key ft) q0)) with
        | None => IoError
        | Some cands =>
            (fix go (l : list (N * N)) : lookup_result (option (N * seg)) :=
               match l with
               | [] => Found None
               | (ci, off) :: r =>
                   match dedup_direct bs ft qs ci off with
                   | Found (Some a) => Found (Some a)
                   | Found None => go r
                   | e => e
                   end
               end) cands
        end
  end.

(* ---- keyed export (export_as_keyed_shard) at the record level ---- *)
Definition export_keyed (files : list file_info) (cass : list cas_info) (key : hash) (created expiry : N)
           (incl_files incl_cas_tbl incl_chunk_tbl : bool) : list N :=
  let cass' := map (fun c => mkCI (ci_hash c) (ci_flags c) (ci_nbytes c) (ci_ndisk c)
                            (map (fun ch => mkCE (keyed key (ce_hash ch)) (ce_bytes ch) (ce_start ch) (ce_unused ch)) (ci_chunks c))) cass in
  let files' := if incl_files then files else [] in
  serialize_with files' cass' (if incl_chunk_tbl then sort_by_key (chunk_lookup_tbl cass' 0) else [])
                 incl_files incl_cas_tbl key created expiry.

(* ---- record-level view of chunk_hash_dedup_query_direct (what it computes once the block is parsed) ---- *)
Fixpoint run_len (key : hash) (chs : list chunk_ent) (qs : list hash) : nat :=
  match chs, qs with
  | c :: cr, q :: qr => if bytes_eqb (ce_hash c) (keyed key q) then S (run_len key cr qr) else O
  | _, _ => O
  end.
Definition direct_rec (key : hash) (c : cas_info) (qs : list hash) (off : N) : option (N * seg) :=
  let tail := skipn (N.to_nat off) (ci_chunks c) in
  match run_len key tail qs with
  | O => None
  | S k => let run := firstn (S k) tail in
           Some (N.of_nat (S k), mkSeg (ci_hash c) (ci_flags c) (sum_bytes32 run) off (off + N.of_nat (S k)))
  end.

(* ---- on-disk set operations (set_operations.rs) at the record level ---- *)
Inductive superset := SuperA | SuperB | SupNeither | SupEqual.
Definition compare_flag_superset (f0 f1 : N) : superset :=
  if f0 =? f1 then SupEqual
  else if N.land f0 f1 =? f1 then SuperA
  else if N.land f1 f0 =? f0 then SuperB
  else SupNeither.

(* the Merge branch: a fresh header (flags rebuilt from the two booleans, _unused reset), A's segments,
   verification / metadata from whichever side has them (A first) *)
Definition merge_disk (a b : file_info) : file_info :=
  let hv := has_verif (fi_flags a) || has_verif (fi_flags b) in
  let he := has_ext (fi_flags a) || has_ext (fi_flags b) in
  mkFI (fi_hash a)
       (N.lor MDB_DEFAULT_FILE_FLAG (N.lor (if hv then MDB_FILE_FLAG_WITH_VERIFICATION else 0) (if he then MDB_FILE_FLAG_WITH_METADATA_EXT else 0)))
       0 (fi_segs a)
       (if hv then (if has_verif (fi_flags a) then fi_verif a else fi_verif b) else [])
       (if he then (if has_ext (fi_flags a) then fi_ext a else fi_ext b) else None).

Fixpoint union_files (fuel : nat) (a b : list file_info) : list file_info :=
  match fuel with
  | O => []
  | S f =>
      match a, b with
      | [], _ => b
      | _, [] => a
      | x :: a', y :: b' =>
          match hash_cmp (fi_hash x) (fi_hash y) with
          | Lt => x :: union_files f a' b
          | Gt => y :: union_files f a b'
          | Eq => (match compare_flag_superset (fi_flags x) (fi_flags y) with
                   | SuperA | SupEqual => x
                   | SuperB => y
                   | SupNeither => merge_disk x y
                   end) :: union_files f a' b'
          end
      end
  end.
Fixpoint union_cas (fuel : nat) (a b : list cas_info) : list cas_info :=
  match fuel with
  | O => []
  | S f =>
      match a, b with
      | [], _ => b
      | _, [] => a
      | x :: a', y :: b' =>
          match hash_cmp (ci_hash x) (ci_hash y) with
          | Lt => x :: union_cas f a' b
          | Gt => y :: union_cas f a b'
          | Eq => x :: union_cas f a' b'
          end
      end
  end.
(* difference = the records of b whose key is not in a (merge walk over two sorted lists) *)
Fixpoint diff_files (fuel : nat) (a b : list file_info) : list file_info :=
  match fuel with
  | O => []
  | S f =>
      match a, b with
      | _, [] => []
      | [], _ => b
      | x :: a', y :: b' =>
          match hash_cmp (fi_hash x) (fi_hash y) with
          | Lt => diff_files f a' b
          | Gt => y :: diff_files f a b'
          | Eq => diff_files f a' b'
          end
      end
  end.
Fixpoint diff_cas (fuel : nat) (a b : list cas_info) : list cas_info :=
  match fuel with
  | O => []
  | S f =>
      match a, b with
      | _, [] => []
      | [], _ => b
      | x :: a', y :: b' =>
          match hash_cmp (ci_hash x) (ci_hash y) with
          | Lt => diff_cas f a' b
          | Gt => y :: diff_cas f a b'
          | Eq => diff_cas f a' b'
          end
      end
  end.

Definition disk_shard_bytes (files : list file_info) (cass : list cas_info) : list N :=
  serialize_with files cass (sort_by_key (chunk_lookup_tbl cass 0)) true true zero_hash 0 u64max.
Definition disk_union (fa fb : list file_info) (ca cb : list cas_info) : list N :=
  disk_shard_bytes (union_files (length fa + length fb) fa fb) (union_cas (length ca + length cb) ca cb).
Definition disk_difference (fa fb : list file_info) (ca cb : list cas_info) : list N :=
  disk_shard_bytes (diff_files (length fa + length fb) fa fb) (diff_cas (length ca + length cb) ca cb).
