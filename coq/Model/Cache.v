(* Executable model of chunk_cache::disk::DiskCache (C12, C13; the file-system effects are reused by C19).

   Shared state: the tracked entries (per key, in vector order, with the lazily set verified flag), the two
   counters, the cache files on disk and the capacity.  Every operation is a thread program of micro steps, each of
   which performs exactly one action under the state lock ([L]) or one file-system action ([F]); a sequential call is
   the thread run alone to completion.  The schedule points of the guarded hook are the pcs for which [at_hook] holds.
   The directory cscan of [initialize] is a function from the directory tree (three levels, in listing order) to the
   tracked state and the list of files it deletes.  The random eviction victims and the base64 / UTF-8 decoders of the
   name parsers are parameters: victims are an argument of the commit step (checked by [evict_ok]), the decoders are
   Section variables (tables computed by the real crates in the correspondence check). *)
From Coq Require Import List NArith ZArith Bool Arith Lia.
From XetModel Require Import Base.Codec Gen.CacheFacts Model.Merkle.
Import ListNotations.
Open Scope N_scope.

Definition bytes := list N.
Definition key := bytes.                      (* hash (32 bytes) ++ prefix (UTF-8) *)
Record item := { i_s : N; i_e : N; i_len : N; i_crc : N }.
Definition titem := (item * bool)%type.        (* the flag: verified *)
Definition path := (bytes * bytes * bytes)%type.   (* prefix dir, key dir, file name *)

Definition item_eqb (a b : item) : bool :=
  (i_s a =? i_s b) && (i_e a =? i_e b) && (i_len a =? i_len b) && (i_crc a =? i_crc b).
Fixpoint bytes_eqb (a b : bytes) : bool :=
  match a, b with
  | [], [] => true
  | x :: r, y :: s => (x =? y) && bytes_eqb r s
  | _, _ => false
  end.
Definition path_eqb (p q : path) : bool :=
  let '(a, b, c) := p in let '(d, e, f) := q in bytes_eqb a d && bytes_eqb b e && bytes_eqb c f.

(* ---- list helpers indexed by N (no unary numbers of data-dependent size) ---- *)
Fixpoint nthN {A} (l : list A) (n : N) : option A :=
  match l with [] => None | x :: r => if n =? 0 then Some x else nthN r (n - 1) end.
Fixpoint dropN {A} (l : list A) (n : N) : list A :=
  match l with [] => [] | x :: r => if n =? 0 then l else dropN r (n - 1) end.
Fixpoint takeN {A} (l : list A) (n : N) : list A :=
  match l with [] => [] | x :: r => if n =? 0 then [] else x :: takeN r (n - 1) end.
Definition lenN {A} (l : list A) : N := N.of_nat (length l).

(* ---- CRC-32 (IEEE, reflected), bit by bit ---- *)
Definition crc_bit (c : N) : N := if N.odd c then N.lxor (N.shiftr c 1) 3988292384 else N.shiftr c 1.
Definition crc_byte (c b : N) : N :=
  crc_bit (crc_bit (crc_bit (crc_bit (crc_bit (crc_bit (crc_bit (crc_bit (N.lxor c b)))))))).
Definition crc32 (bs : bytes) : N := N.lxor (fold_left crc_byte bs 4294967295) 4294967295.

(* ---- names ---- *)
Definition b64pad (bs : bytes) : bytes :=
  let e := b64enc (S (length bs)) bs in
  e ++ repeat 61 ((4 - length e mod 4) mod 4)%nat.
Definition ser_item (it : item) : bytes := u32 (i_s it) ++ u32 (i_e it) ++ u64 (i_len it) ++ u32 (i_crc it).
Definition item_name (it : item) : bytes := b64pad (ser_item it).
Definition key_dir (k : key) : bytes * bytes := let e := b64pad k in (firstn PREFIX_DIR_NAME_LEN e, e).
Definition item_path (k : key) (it : item) : path := (fst (key_dir k), snd (key_dir k), item_name it).

Definition parse_item (buf : bytes) : option item :=
  if negb (Nat.eqb (length buf) 20) then None
  else
    let s := le_val (firstn 4 buf) in
    let e := le_val (firstn 4 (skipn 4 buf)) in
    let l := le_val (firstn 8 (skipn 8 buf)) in
    let c := le_val (firstn 4 (skipn 16 buf)) in
    if e <=? s then None else Some {| i_s := s; i_e := e; i_len := l; i_crc := c |}.

(* ---- the cache file: header (count, offsets) then the data ---- *)
Definition ser_header (offs : list N) : bytes := u32 (lenN offs) ++ flat_map u32 offs.
Definition header_len (offs : list N) : N := 4 * (lenN offs + 1).
Definition encode_file (offs : list N) (data : bytes) : bytes := ser_header offs ++ data.

Fixpoint de_offs (fuel : nat) (cnt : N) (prev : option N) (bs : bytes) : option (list N) :=
  if cnt =? 0 then Some []
  else
    match fuel with
    | O => None
    | S f =>
        if has 4 bs then
          let v := le_val (firstn 4 bs) in
          let ok := match prev with None => v =? 0 | Some p => p <? v end in
          if ok then
            match de_offs f (cnt - 1) (Some v) (skipn 4 bs) with
            | Some r => Some (v :: r)
            | None => None
            end
          else None
        else None
    end.
Definition de_header (bs : bytes) : option (list N) :=
  if has 4 bs then de_offs (length bs) (le_val (firstn 4 bs)) None (skipn 4 bs) else None.

Definition E_INVALID : N := 1.
Definition E_BADRANGE : N := 2.
Definition E_IO : N := 3.
Definition E_GENERAL : N := 4.

Inductive result :=
| CHit (rs re : N) (offs : list N) (data : bytes)
| CMiss
| COk
| CErr (c : N)
| CPanic.

(* get_range_from_cache_file *)
Definition get_range (offs : list N) (content : bytes) (rs re start : N) : result :=
  let si := rs - start in
  let ei := re - start in
  match nthN offs si, nthN offs ei with
  | Some sb, Some eb =>
      let data := takeN (dropN content (sb + header_len offs)) (eb - sb) in
      if lenN data <? eb - sb then CErr E_IO
      else CHit rs re (map (fun v => v - sb) (takeN (dropN offs si) (ei - si + 1))) data
  | _, _ => CErr E_BADRANGE
  end.

Fixpoint diffs (l : list N) : list N :=
  match l with
  | a :: ((b :: _) as r) => (b - a) :: diffs r
  | _ => []
  end.
Definition list_eqb (a b : list N) : bool := bytes_eqb a b.

Fixpoint strictly_increasing (l : list N) : bool :=
  match l with
  | a :: ((b :: _) as r) => (a <? b) && strictly_increasing r
  | _ => true
  end.

(* ---- shared state ---- *)
Record cstate := {
  tracked : list (key * list titem);
  nitems : N;
  tbytes : N;
  fs : list (path * bytes);
  cap : N }.

Definition cupd (s : cstate) tr n b f := {| tracked := tr; nitems := n; tbytes := b; fs := f; cap := cap s |}.

Fixpoint fs_read (f : list (path * bytes)) (p : path) : option bytes :=
  match f with [] => None | (q, c) :: r => if path_eqb p q then Some c else fs_read r p end.
Definition fs_unlink (f : list (path * bytes)) (p : path) : list (path * bytes) :=
  filter (fun e => negb (path_eqb p (fst e))) f.
Definition fs_install (f : list (path * bytes)) (p : path) (c : bytes) : list (path * bytes) :=
  (p, c) :: fs_unlink f p.

Fixpoint items_of (tr : list (key * list titem)) (k : key) : list titem :=
  match tr with [] => [] | (q, its) :: r => if bytes_eqb k q then its else items_of r k end.
Fixpoint has_key (tr : list (key * list titem)) (k : key) : bool :=
  match tr with [] => false | (q, _) :: r => bytes_eqb k q || has_key r k end.
(* replace the entry of k (dropping it when the vector is empty), or append a new one *)
Fixpoint set_items (tr : list (key * list titem)) (k : key) (its : list titem) : list (key * list titem) :=
  match tr with
  | [] => match its with [] => [] | _ => [(k, its)] end
  | (q, old) :: r =>
      if bytes_eqb k q then match its with [] => r | _ => (q, its) :: r end
      else (q, old) :: set_items r k its
  end.

Definition covers (it : item) (rs re : N) : bool := (i_s it <=? rs) && (re <=? i_e it).
Definition find_match (tr : list (key * list titem)) (k : key) (rs re : N) : option titem :=
  find (fun ti => covers (fst ti) rs re) (items_of tr k).

Fixpoint index_of (its : list titem) (it : item) : option nat :=
  match its with
  | [] => None
  | (x, _) :: r => if item_eqb x it then Some O else match index_of r it with Some i => Some (S i) | None => None end
  end.

(* Vec::swap_remove *)
Definition swap_remove {A} (l : list A) (i : nat) : list A :=
  match rev l with
  | [] => []
  | x :: r => let init := rev r in if Nat.eqb i (length init) then init else firstn i init ++ x :: skipn (S i) init
  end.
(* Vec::remove of the first entry equal to it *)
Fixpoint remove_first (its : list titem) (it : item) : list titem :=
  match its with
  | [] => []
  | (x, v) :: r => if item_eqb x it then r else (x, v) :: remove_first r it
  end.
Fixpoint mark_verified (its : list titem) (it : item) : list titem :=
  match its with
  | [] => []
  | (x, v) :: r => if item_eqb x it then (x, true) :: r else (x, v) :: mark_verified r it
  end.

Definition sum_len (its : list titem) : N := fold_right (fun ti a => i_len (fst ti) + a) 0 its.

(* the state part of remove_item: None when the entry is no longer there (the call then returns at once) *)
Definition remove_state (s : cstate) (k : key) (it : item) : option cstate :=
  if has_key (tracked s) k then
    match index_of (items_of (tracked s) k) it with
    | None => None
    | Some i =>
        Some (cupd s (set_items (tracked s) k (swap_remove (items_of (tracked s) k) i)) (nitems s - 1) (tbytes s - i_len it) (fs s))
    end
  else Some s.

(* ---- eviction with given victims ---- *)
Fixpoint evict (tr : list (key * list titem)) (n b : N) (vs : list (key * item)) : list (key * list titem) * N * N :=
  match vs with
  | [] => (tr, n, b)
  | (k, it) :: r => evict (set_items tr k (remove_first (items_of tr k) it)) (n - 1) (b - i_len it) r
  end.
Definition tracks (tr : list (key * list titem)) (v : key * item) : bool :=
  match index_of (items_of tr (fst v)) (snd v) with Some _ => true | None => false end.
(* the loop `while to_remove > bytes_removed { pick a random tracked item }`: every victim is picked while the removed
   total is still short, and the loop ends when it is no longer short or nothing is left *)
Fixpoint evict_ok (tr : list (key * list titem)) (n : N) (need : Z) (removed : Z) (vs : list (key * item)) : bool :=
  match vs with
  | [] => (need <=? removed)%Z || (n =? 0)
  | (k, it) :: r =>
      (removed <? need)%Z && negb (n =? 0) && tracks tr (k, it) &&
      evict_ok (set_items tr k (remove_first (items_of tr k) it)) (n - 1) need (removed + Z.of_N (i_len it))%Z r
  end.

(* ---- thread programs ---- *)
Inductive op :=
| OPut (k : key) (rs re : N) (offs : list N) (data : bytes)
| OGet (k : key) (rs re : N).

Inductive pc :=
| PFind (o : op)                        (* next: [L] find_match *)
| PFound (o : op) (it : item) (v : bool)  (* next: [F] open and read the entry's file (get: the hook get:after_find_match) *)
| PRemState (o : op) (it : item)        (* next: [L] the state part of remove_item *)
| PRemHook (o : op) (it : item)         (* hook remove_item:after_state_update; next: [F] unlink *)
| PHookFM (o : op)                      (* hook put:after_find_match; next: [F] write the file *)
| PHookFW (o : op) (it : item)          (* hook put:after_file_write; next: [L] commit *)
| PUnl (hook : bool) (dl : list path)   (* hook put:after_commit (when hook); next: [F] unlink one path *)
| PDone (r : result).

Definition at_hook (p : pc) : bool :=
  match p with
  | PFound (OGet _ _ _) _ _ => true
  | PRemHook _ _ => true
  | PHookFM _ => true
  | PHookFW _ _ => true
  | PUnl h _ => h
  | PDone _ => true
  | _ => false
  end.

Definition put_args_ok (rs re : N) (offs : list N) (data : bytes) : bool :=
  (rs <? re) && (lenN offs =? re - rs + 1) && (match offs with a :: _ => a =? 0 | [] => false end)
  && (last offs 0 =? lenN data) && strictly_increasing offs.

Definition start_op (o : op) : pc :=
  match o with
  | OPut k rs re offs data => if put_args_ok rs re offs data then PFind o else PDone (CErr E_INVALID)
  | OGet k rs re => if rs <? re then PFind o else PDone (CErr E_INVALID)
  end.

Definition op_key (o : op) : key := match o with OPut k _ _ _ _ => k | OGet k _ _ => k end.
Definition op_range (o : op) : N * N := match o with OPut _ rs re _ _ => (rs, re) | OGet _ rs re => (rs, re) end.

Definition new_item (o : op) : item :=
  match o with
  | OPut _ rs re offs data =>
      let c := encode_file offs data in {| i_s := rs; i_e := re; i_len := lenN c; i_crc := crc32 c |}
  | OGet _ rs re => {| i_s := rs; i_e := re; i_len := 0; i_crc := 0 |}
  end.

(* validate_match, after the file was read *)
Definition validate_with (checked : bool) (o : op) (it : item) (content : option bytes) : pc :=
  match o with
  | OGet _ _ _ => PDone CPanic
  | OPut k rs re offs data =>
      match content with
      | None => PRemState o it
      | Some c =>
          if negb (lenN c =? i_len it) then PRemState o it
          else if negb (crc32 c =? i_crc it) then PRemState o it
          else
            match de_header c with
            | None => PRemState o it
            | Some h =>
                let idx_start := rs - i_s it in
                let idx_end := re - i_s it + 1 in
                if lenN h <? idx_end then (if checked then PRemState o it else PDone CPanic)
                else if negb (list_eqb (diffs (takeN (dropN h idx_start) (idx_end - idx_start))) (diffs offs)) then PDone (CErr E_INVALID)
                else
                  match get_range h c rs re (i_s it) with
                  | CHit _ _ _ d => if list_eqb d data then PDone COk else PDone (CErr E_INVALID)
                  | r => PDone r
                  end
            end
      end
  end.

Definition validate := validate_with validate_bounds_checked.

(* the commit of a put, under the lock *)
Fixpoint subsumed_idx (its : list titem) (nw : item) (i : nat) : list nat :=
  match its with
  | [] => []
  | (x, _) :: r => if (i_s nw <=? i_s x) && (i_e x <=? i_e nw) then i :: subsumed_idx r nw (S i) else subsumed_idx r nw (S i)
  end.
(* swap_remove in reverse index order; returns the remaining vector and the removed entries *)
Fixpoint remove_rev (its : list titem) (idx : list nat) : list titem * list titem :=
  match idx with
  | [] => (its, [])
  | i :: r =>
      match nth_error its i with
      | Some x => let '(l, rm) := remove_rev (swap_remove its i) r in (l, x :: rm)
      | None => remove_rev its r
      end
  end.

Definition commit_with (fact : bool) (s : cstate) (k : key) (nw : item) (vs : list (key * item)) : cstate * list path * bool :=
  let its := items_of (tracked s) k in
  let '(its1, rm) := remove_rev its (rev (subsumed_idx its nw O)) in
  let others := filter (fun ti => negb (item_eqb (fst ti) nw)) rm in
  let n1 := nitems s - lenN rm in
  let b1 := tbytes s - (if fact then sum_len rm else sum_len others) in
  let tr1 := set_items (tracked s) k its1 in
  let need := (Z.of_N b1 - Z.of_N (cap s) + Z.of_N (i_len nw))%Z in
  let ok := evict_ok tr1 n1 need 0%Z vs in
  let '(tr2, n2, b2) := evict tr1 n1 b1 vs in
  let tr3 := set_items tr2 k (items_of tr2 k ++ [(nw, true)]) in
  (cupd s tr3 (n2 + 1) (b2 + i_len nw) (fs s),
   map (fun ti => item_path k (fst ti)) others ++ map (fun v => item_path (fst v) (snd v)) vs, ok).

Definition commit := commit_with bytes_removed_for_every_entry.

(* one micro step of a thread; the bool is false when the given victims are not a run of the eviction loop *)
Definition mstep (s : cstate) (p : pc) (vs : list (key * item)) : cstate * pc * bool :=
  match p with
  | PFind o =>
      let '(rs, re) := op_range o in
      match find_match (tracked s) (op_key o) rs re with
      | Some (it, v) => (s, PFound o it v, true)
      | None => (s, match o with OPut _ _ _ _ _ => PHookFM o | OGet _ _ _ => PDone CMiss end, true)
      end
  | PFound o it v =>
      let content := fs_read (fs s) (item_path (op_key o) it) in
      match o with
      | OPut _ _ _ _ _ => (s, validate o it content, true)
      | OGet k rs re =>
          match content with
          | None => (s, PRemState o it, true)
          | Some c =>
              if negb v && negb (crc32 c =? i_crc it) then (s, PRemState o it, true)
              else
                let s1 := if v then s else cupd s (set_items (tracked s) k (mark_verified (items_of (tracked s) k) it)) (nitems s) (tbytes s) (fs s) in
                match de_header c with
                | None => (s1, PRemState o it, true)
                | Some h => (s1, PDone (get_range h c rs re (i_s it)), true)
                end
          end
      end
  | PRemState o it =>
      match remove_state s (op_key o) it with
      | Some s1 => (s1, PRemHook o it, true)
      | None => (s, PFind o, true)
      end
  | PRemHook o it => (cupd s (tracked s) (nitems s) (tbytes s) (fs_unlink (fs s) (item_path (op_key o) it)), PFind o, true)
  | PHookFM o =>
      match o with
      | OPut k rs re offs data =>
          let nw := new_item o in
          (cupd s (tracked s) (nitems s) (tbytes s) (fs_install (fs s) (item_path k nw) (encode_file offs data)), PHookFW o nw, true)
      | OGet _ _ _ => (s, PDone CPanic, true)
      end
  | PHookFW o nw =>
      let '(s1, dl, ok) := commit s (op_key o) nw vs in (s1, PUnl true dl, ok)
  | PUnl _ dl =>
      match dl with
      | [] => (s, PDone COk, true)
      | q :: r => (cupd s (tracked s) (nitems s) (tbytes s) (fs_unlink (fs s) q), PUnl false r, true)
      end
  | PDone r => (s, PDone r, true)
  end.

(* run a thread until it reaches a schedule point of the hook (or, with [stop_at_hooks = false], until it is done) *)
Fixpoint run_thread (fuel : nat) (stop_at_hooks : bool) (s : cstate) (p : pc) (vs : list (key * item)) : cstate * pc * bool :=
  match fuel with
  | O => (s, p, false)
  | S f =>
      let '(s1, p1, ok) := mstep s p vs in
      match p1 with
      | PDone _ => (s1, p1, ok)
      | _ =>
          if stop_at_hooks && at_hook p1 then (s1, p1, ok)
          else let '(s2, p2, ok2) := run_thread f stop_at_hooks s1 p1 vs in (s2, p2, ok && ok2)
      end
  end.

(* a sequential call *)
Definition seq_fuel (s : cstate) (o : op) : nat :=
  (8 * (length (items_of (tracked s) (op_key o)) + 4) + 8 * (length (fs s)) + 64)%nat.
Definition run_op (s : cstate) (o : op) (vs : list (key * item)) : cstate * result * bool :=
  match start_op o with
  | PDone r => (s, r, true)
  | p =>
      let '(s1, p1, ok) := run_thread (seq_fuel s o + 8 * length vs) false s p vs in
      match p1 with PDone r => (s1, r, ok) | _ => (s1, CPanic, false) end
  end.

(* victims implied by the tracked state observed after a commit: what the model holds just before the eviction loop
   and the observation no longer holds (correspondence tooling; the theorems quantify over every victim list) *)
Definition count_item (its : list titem) (it : item) : nat := length (filter (fun ti => item_eqb (fst ti) it) its).
Fixpoint missing (k : key) (pre post : list titem) (seen : list titem) : list (key * item) :=
  match pre with
  | [] => []
  | (x, v) :: r =>
      if Nat.ltb (count_item post x) (S (count_item seen x)) then (k, x) :: missing k r post seen
      else missing k r post ((x, v) :: seen)
  end.
Fixpoint insert_by_len (v : key * item) (l : list (key * item)) : list (key * item) :=
  match l with
  | [] => [v]
  | w :: r => if i_len (snd v) <=? i_len (snd w) then v :: l else w :: insert_by_len v r
  end.
Definition infer_victims (s : cstate) (k : key) (nw : item) (post : list (key * list titem)) : list (key * item) :=
  let its := items_of (tracked s) k in
  let '(its1, _) := remove_rev its (rev (subsumed_idx its nw O)) in
  let tr1 := set_items (tracked s) k its1 in
  (* the observation already holds the new entry: take one copy of it away *)
  let post1 := set_items post k (remove_first (items_of post k) nw) in
  fold_right insert_by_len [] (flat_map (fun e => missing (fst e) (snd e) (items_of post1 (fst e)) []) tr1).

(* ---- the directory cscan of initialize ---- *)
Record fent := { f_name : bytes; f_kind : N; f_content : bytes }.    (* kind: 0 file, 1 directory, 2 other *)
Record kent := { k_name : bytes; k_kind : N; k_files : list fent }.
Record pent := { p_name : bytes; p_kind : N; p_keys : list kent }.

Definition ascii_upper (c : N) : N := if (97 <=? c) && (c <=? 122) then c - 32 else c.

Section Scan.
  Variable b64d : bytes -> option bytes.
  Variable utf8 : bytes -> bool.

  Definition try_parse_key_with (checked : bool) (name : bytes) : option (option key) :=   (* None: panic *)
    match b64d name with
    | None => Some None
    | Some buf =>
        if Nat.ltb (length buf) 32 then (if checked then Some None else None)
        else if utf8 (skipn 32 buf) then Some (Some buf) else Some None
    end.

  Definition try_parse_key := try_parse_key_with key_name_length_checked.

  Inductive parsed := PSkip | PDelete | PItem (it : item) | PErr.
  Definition try_parse_cache_file (capacity : N) (f : fent) : parsed :=
    if negb (f_kind f =? 0) then PSkip
    else if DEFAULT_CHUNK_CACHE_CAPACITY <? lenN (f_content f) then PErr
    else if capacity <? lenN (f_content f) then PSkip
    else
      match b64d (f_name f) with
      | None => PDelete
      | Some buf =>
          match parse_item buf with
          | None => PDelete
          | Some it => if lenN (f_content f) =? i_len it then PItem it else PDelete
          end
      end.

  Record scan_acc := {
    a_tr : list (key * list titem); a_n : N; a_b : N; a_del : list path;
    a_stop : bool; a_err : bool; a_panic : bool }.

  (* HashMap::insert: replaces the vector of an existing key *)
  Definition tr_insert (tr : list (key * list titem)) (k : key) (its : list titem) : list (key * list titem) :=
    if has_key tr k then map (fun e => if bytes_eqb k (fst e) then (fst e, its) else e) tr else tr ++ [(k, its)].

  Fixpoint scan_items (capacity : N) (pp kd : bytes) (k : key) (fl : list fent) (items : list titem) (a : scan_acc) : scan_acc :=
    match fl with
    | [] => if match items with [] => true | _ => false end then a
            else {| a_tr := tr_insert (a_tr a) k items; a_n := a_n a; a_b := a_b a; a_del := a_del a; a_stop := false; a_err := false; a_panic := false |}
    | f :: r =>
        match try_parse_cache_file capacity f with
        | PSkip => scan_items capacity pp kd k r items a
        | PDelete =>
            scan_items capacity pp kd k r items
              {| a_tr := a_tr a; a_n := a_n a; a_b := a_b a; a_del := a_del a ++ [(pp, kd, f_name f)]; a_stop := false; a_err := false; a_panic := false |}
        | PErr => {| a_tr := a_tr a; a_n := a_n a; a_b := a_b a; a_del := a_del a; a_stop := true; a_err := true; a_panic := false |}
        | PItem it =>
            let items1 := items ++ [(it, false)] in
            let b1 := a_b a + i_len it in
            let n1 := a_n a + 1 in
            if SCAN_STOP_FACTOR * capacity <=? b1 then
              {| a_tr := tr_insert (a_tr a) k items1; a_n := n1; a_b := b1; a_del := a_del a; a_stop := true; a_err := false; a_panic := false |}
            else
              scan_items capacity pp kd k r items1
                {| a_tr := a_tr a; a_n := n1; a_b := b1; a_del := a_del a; a_stop := false; a_err := false; a_panic := false |}
        end
    end.

  Definition prefix_matches (pname kname : bytes) : bool :=
    if negb key_dir_prefix_checked then true
    else Nat.leb PREFIX_DIR_NAME_LEN (length kname) && list_eqb (map ascii_upper (firstn PREFIX_DIR_NAME_LEN kname)) (map ascii_upper pname).

  Fixpoint scan_keys (capacity : N) (pp : bytes) (kl : list kent) (a : scan_acc) : scan_acc :=
    match kl with
    | [] => a
    | k :: r =>
        if a_stop a then a
        else if negb (k_kind k =? 1) then scan_keys capacity pp r a
        else if negb (prefix_matches pp (k_name k)) then scan_keys capacity pp r a
        else
          match try_parse_key (k_name k) with
          | None => {| a_tr := a_tr a; a_n := a_n a; a_b := a_b a; a_del := a_del a; a_stop := true; a_err := false; a_panic := true |}
          | Some None => scan_keys capacity pp r a
          | Some (Some key) => scan_keys capacity pp r (scan_items capacity pp (k_name k) key (k_files k) [] a)
          end
    end.

  Fixpoint scan_prefixes (capacity : N) (pl : list pent) (a : scan_acc) : scan_acc :=
    match pl with
    | [] => a
    | p :: r =>
        if a_stop a then a
        else if negb (p_kind p =? 1) then scan_prefixes capacity r a
        else if negb (Nat.eqb (length (p_name p)) PREFIX_DIR_NAME_LEN) then scan_prefixes capacity r a
        else scan_prefixes capacity r (scan_keys capacity (p_name p) (p_keys p) a)
    end.

  Definition cscan (capacity : N) (tree : list pent) : scan_acc :=
    scan_prefixes capacity tree {| a_tr := []; a_n := 0; a_b := 0; a_del := []; a_stop := false; a_err := false; a_panic := false |}.

  (* the files at depth three, in listing order *)
  Definition tree_files (tree : list pent) : list (path * bytes) :=
    flat_map (fun p => if p_kind p =? 1 then
      flat_map (fun k => if k_kind k =? 1 then
        flat_map (fun f => if f_kind f =? 0 then [((p_name p, k_name k, f_name f), f_content f)] else []) (k_files k) else []) (p_keys p) else []) tree.

  (* DiskCache::initialize: None for a panic, Some (inl class) for an error *)
  Definition initialize (capacity : N) (tree : list pent) : option (N + cstate) :=
    if capacity =? 0 then Some (inl E_INVALID)
    else
      let a := cscan capacity tree in
      if a_panic a then None
      else if a_err a then Some (inl E_GENERAL)
      else
        Some (inr {| tracked := a_tr a; nitems := a_n a; tbytes := a_b a;
                     fs := fold_left fs_unlink (a_del a) (tree_files tree); cap := capacity |}).
End Scan.
